// What "a report keyed by PRINTABLE paths" means (unit V8p `with_printable_paths`, src/main.rs). Shared by
// the groups report (V8p is proved there) and mainwire (which imports V8p's contract with `//@stubof`).
// Included *inside* the group's `verus! { .. }` block, after prelude/orch_model.rs (which declares `PathBuf`).
// Everything is generic in the element type `V` of the lists (the groups use `serde_json::Value`).
//
// Written from C11: "stderr is one JSON object mapping each root-relative file path to its list of
// diagnostics, and every violation of every rule of every block appears in it exactly once" / "`list`
// prints the selected blocks as one JSON object". The member names of a JSON object are strings; a path
// is an `OsString`. The text a path is printed under is `Path::to_string_lossy` (invalid sequences become
// U+FFFD), so two different paths that are not valid Unicode may be printed under the same text: their
// lists are then both there, each once, one after the other (in an order the hash map decides).

/// T-std: `Path::to_string_lossy` as a function of the path (total; std doc: "Any non-UTF-8 sequences are
/// replaced with U+FFFD REPLACEMENT CHARACTER"). Uninterpreted: nothing is assumed about the text itself,
/// in particular NOT that it is injective.
pub uninterp spec fn path_text(p: PathBuf) -> Seq<char>;

/// T-std: the path is valid Unicode (`Path::to_str` is `Some`). This is what `impl Serialize for Path` insists
/// on (serde: "path contains invalid UTF-8 characters"). Uninterpreted: the world (the file names) decides.
pub uninterp spec fn path_is_unicode(p: PathBuf) -> bool;

/// `order` enumerates, each exactly once, the files of `report` that are printed under the text `s`
pub open spec fn files_with_text<V>(report: Map<PathBuf, Vec<V>>, s: Seq<char>, order: Seq<PathBuf>) -> bool {
    &&& forall|i: int| 0 <= i < order.len() ==> report.contains_key(#[trigger] order[i]) && path_text(order[i]) == s
    &&& forall|i: int, j: int| 0 <= i < j < order.len() ==> #[trigger] order[i] != #[trigger] order[j]
    &&& forall|f: PathBuf| report.contains_key(f) && #[trigger] path_text(f) == s ==> exists|i: int| 0 <= i < order.len() && #[trigger] order[i] == f
}

/// the lists of the files `order`, one after the other
pub open spec fn concat_lists<V>(report: Map<PathBuf, Vec<V>>, order: Seq<PathBuf>) -> Seq<V>
    decreases order.len()
{
    if order.len() == 0 {
        Seq::<V>::empty()
    } else {
        concat_lists(report, order.drop_last()) + report[order.last()]@
    }
}

/// `out` is `report` keyed by printable paths: a text is a key iff it is the text of some file of the report,
/// and under it are the lists of ALL files with that text, each exactly once, nothing else (nothing lost,
/// nothing duplicated, nothing invented). A RELATION, not a function: when two files collide the order of their
/// two lists is the hash map's.
pub open spec fn is_printable<V>(out: Map<String, Vec<V>>, report: Map<PathBuf, Vec<V>>) -> bool {
    &&& forall|s: String| #[trigger] out.contains_key(s) <==> exists|f: PathBuf| report.contains_key(f) && #[trigger] path_text(f) == s@
    &&& forall|s: String| #[trigger] out.contains_key(s) ==> exists|order: Seq<PathBuf>| #[trigger] files_with_text(report, s@, order) && out[s]@ == concat_lists(report, order)
}

/// the texts of the report's files are pairwise different (always so when every path is valid Unicode)
pub open spec fn path_text_injective_on<V>(report: Map<PathBuf, Vec<V>>) -> bool {
    forall|f: PathBuf, g: PathBuf| report.contains_key(f) && report.contains_key(g) && #[trigger] path_text(f) == #[trigger] path_text(g) ==> f == g
}

/// T-ext (serde_json): what `serde_json::to_writer*` makes of the KEY type of a map it is given. The member
/// names of a JSON object are strings: a `String` key is always written; a `PathBuf` key is written only if it is
/// valid Unicode, otherwise the call returns `Err` ("path contains invalid UTF-8 characters", after the opening
/// `{` has been written) - whatever the writer does.
pub trait JsonKey: Sized {
    /// serde_json can write this key as a member name
    spec fn key_serialisable(&self) -> bool;
    /// the map `m` with this key type shows the path-keyed report `e`
    spec fn map_shows<V>(m: Map<Self, Vec<V>>, e: Map<PathBuf, Vec<V>>) -> bool;
}

impl JsonKey for String {
    open spec fn key_serialisable(&self) -> bool { true }
    open spec fn map_shows<V>(m: Map<String, Vec<V>>, e: Map<PathBuf, Vec<V>>) -> bool { is_printable(m, e) }
}

impl JsonKey for PathBuf {
    open spec fn key_serialisable(&self) -> bool { path_is_unicode(*self) }
    /// the report itself, keyed by paths: serde prints each key as its text, or fails on it
    open spec fn map_shows<V>(m: Map<PathBuf, Vec<V>>, e: Map<PathBuf, Vec<V>>) -> bool { m == e }
}

/// every key of the map can be written as a member name
pub open spec fn keys_serialisable<K: JsonKey, V>(m: Map<K, Vec<V>>) -> bool {
    forall|k: K| #[trigger] m.contains_key(k) ==> k.key_serialisable()
}
