// Stand-in for the `ignore` crate (0.4.25) for group `mainwire`, unit FS3 (single-file Verus cannot
// link crates; DESIGN 2.9, T-ext). Included OUTSIDE the group's `verus! { .. }` block.
// The directory walk (hidden files, .gitignore rules, order) is UNINTERPRETED: `Walk::new(root)` is a
// ghost sequence `walk_entries_spec(root)` of entries (or errors), in the order the walk yields them.
mod ignore {
    use vstd::prelude::*;
    use std::path::{Path, PathBuf};
    verus! {
    #[verifier::external_body]
    pub struct Walk { _p: u8 }
    #[verifier::external_body]
    pub struct DirEntry { _p: u8 }
    #[verifier::external_body]
    pub struct Error { _p: u8 }

    /// what `Walk::new(root)` yields, in order (T-ext: a function of the root; the disk does not change during the run)
    pub uninterp spec fn walk_entries_spec(root: PathBuf) -> Seq<Result<DirEntry, Error>>;

    impl Walk {
        /// ghost: the entries this walk will yield
        pub uninterp spec fn entries(&self) -> Seq<Result<DirEntry, Error>>;

        /// `Walk::new<P: AsRef<Path>>(path: P)` at the instance used by `FileSystemImpl::walk`
        #[verifier::external_body]
        pub fn new(path: &PathBuf) -> (r: Walk)
            ensures r.entries() == walk_entries_spec(*path),
        { unimplemented!() }
    }

    impl DirEntry {
        /// ghost: "The full path that this entry represents" (ignore doc of `DirEntry::path`)
        pub uninterp spec fn path_spec(&self) -> PathBuf;

        #[verifier::external_body]
        pub fn path(&self) -> (r: &Path)
            ensures crate::path_owned(r) == self.path_spec(),
        { unimplemented!() }
    }

    /// E1: `anyhow::Error::from(err)` (anyhow's blanket `From<E: std::error::Error>`); which error comes
    /// out is not verified.
    impl From<Error> for crate::anyhow::Error {
        #[verifier::external_body]
        fn from(e: Error) -> crate::anyhow::Error { crate::anyhow::verif_err() }
    }
    }
}
