// Group `normalise`: PROVED facts about vstd's UTF-8 encoding, in a module of their own so that the
// main module can `broadcast use` them at module level (function-level `broadcast use` does not
// reach loop bodies). Included *outside* the group's `verus! { .. }` block. Nothing is assumed here.
mod tagnorm_auto {
    use vstd::prelude::*;
    use vstd::utf8::*;
    verus! {
    /// `String::push_str`: the bytes of a concatenation are the concatenation of the bytes
    pub broadcast proof fn lemma_utf8_concat_auto(a: Seq<char>, b: Seq<char>)
        ensures #[trigger] encode_utf8(a + b) == encode_utf8(a) + encode_utf8(b)
    {
        encode_utf8_concat(a, b);
    }

    /// `String::push` of an ASCII char appends the one byte with its code
    pub broadcast proof fn lemma_utf8_push_ascii_auto(a: Seq<char>, c: char)
        requires (c as u32) < 128
        ensures #[trigger] encode_utf8(a.push(c)) == encode_utf8(a).push(c as u8)
    {
        let x = c as u32;
        assert((x & 127) as u8 == x as u8) by (bit_vector) requires x < 128;
        assert(encode_scalar(x) =~= seq![c as u8]);
        encode_utf8_push(a, c);
        assert(encode_utf8(a) + seq![c as u8] =~= encode_utf8(a).push(c as u8));
    }

    pub broadcast proof fn lemma_utf8_empty_auto()
        ensures #[trigger] encode_utf8(Seq::<char>::empty()) == Seq::<u8>::empty()
    {
        assert(encode_utf8(Seq::<char>::empty()) =~= Seq::<u8>::empty());
    }

    pub broadcast group group_tagnorm_auto {
        lemma_utf8_concat_auto,
        lemma_utf8_push_ascii_auto,
        lemma_utf8_empty_auto,
    }
    }
}
