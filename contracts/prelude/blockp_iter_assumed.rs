// Assumed contract of `PartialBlocksIterator` (rule E14): the iterator yields a finite ghost
// sequence of items, `pending()` is what is still to come. Used by P1 when the real
// `PartialBlocksIterator::next` is not verified in the same group.

//@item file=src/block_parser.rs kind=struct name=PartialBlocksIterator

/// The items `PartialBlocksIterator::new(comments)` yields, in order, cut after the first `Err`.
uninterp spec fn tag_events<I: Iterator<Item = Comment>>(comments: I) -> Seq<anyhow::Result<PartialBlock>>;

impl<I: Iterator<Item = Comment>> PartialBlocksIterator<I> {
    /// items still to be yielded (cut after the first `Err`)
    uninterp spec fn pending(&self) -> Seq<anyhow::Result<PartialBlock>>;
    spec fn wf(&self) -> bool { true }

    #[verifier::external_body]
    fn new(comments: I) -> (r: Self)
        ensures r.pending() == tag_events(comments), r.wf(),
    { unimplemented!() }

    #[verifier::external_body]
    fn next(&mut self) -> (r: Option<anyhow::Result<PartialBlock>>)
        requires old(self).wf(),
        ensures
            final(self).wf(),
            r is None ==> old(self).pending().len() == 0,
            r matches Some(x) ==> old(self).pending().len() > 0 && x == old(self).pending()[0]
                && (x is Ok ==> final(self).pending() == old(self).pending().drop_first()),
    { unimplemented!() }
}
