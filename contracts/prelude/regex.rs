// T-regex: stand-in for the `regex` crate. The engine is uninterpreted: every loop is proved for
// *every* behaviour of `captures` / `is_match`, so regex semantics is a parameter of the proofs.
mod regex {
    use vstd::prelude::*;
    use std::ops::Range;
    verus! {
    #[verifier::external_body]
    pub struct Regex { _p: u8 }
    pub struct Error { pub tag: u8 }
    #[verifier::external_body]
    pub struct Captures<'h> { _p: &'h str }
    #[verifier::external_body]
    pub struct Match<'h> { _p: &'h str }

    pub struct MatchView { pub text: Seq<char>, pub start: nat, pub end: nat }

    /// does `re` match somewhere in `hay`
    pub uninterp spec fn re_is_match(re: Regex, hay: Seq<char>) -> bool;
    /// the named group `name` of the leftmost match, if it participated
    pub uninterp spec fn re_group_named(re: Regex, hay: Seq<char>, name: Seq<char>) -> Option<MatchView>;
    /// group `i` of the leftmost match
    pub uninterp spec fn re_group(re: Regex, hay: Seq<char>, i: nat) -> Option<MatchView>;
    pub uninterp spec fn compile_spec(pattern: Seq<char>) -> Option<Regex>;

    pub uninterp spec fn cap_re(c: Captures) -> Regex;
    pub uninterp spec fn cap_hay(c: Captures) -> Seq<char>;
    pub uninterp spec fn match_view(m: Match) -> MatchView;

    impl Regex {
        #[verifier::external_body]
        pub fn new(pattern: &str) -> (r: Result<Regex, Error>)
            ensures
                (r matches Ok(re) ==> compile_spec(pattern@) == Some(re)),
                (r is Err ==> compile_spec(pattern@) is None),
        { unimplemented!() }

        #[verifier::external_body]
        pub fn is_match(&self, hay: &str) -> (b: bool)
            ensures b == re_is_match(*self, hay@)
        { unimplemented!() }

        #[verifier::external_body]
        pub fn captures<'h>(&self, hay: &'h str) -> (r: Option<Captures<'h>>)
            ensures
                r is Some <==> re_is_match(*self, hay@),
                r matches Some(c) ==> cap_re(c) == *self && cap_hay(c) == hay@,
        { unimplemented!() }
    }

    impl<'h> Captures<'h> {
        #[verifier::external_body]
        pub fn name(&self, name: &str) -> (r: Option<Match<'h>>)
            ensures
                (r matches Some(m) ==> re_group_named(cap_re(*self), cap_hay(*self), name@) == Some(match_view(m))),
                (r is None ==> re_group_named(cap_re(*self), cap_hay(*self), name@) is None),
        { unimplemented!() }

        #[verifier::external_body]
        pub fn get(&self, i: usize) -> (r: Option<Match<'h>>)
            ensures
                (r matches Some(m) ==> re_group(cap_re(*self), cap_hay(*self), i as nat) == Some(match_view(m))),
                (r is None ==> re_group(cap_re(*self), cap_hay(*self), i as nat) is None),
        { unimplemented!() }
    }

    impl<'h> Match<'h> {
        #[verifier::external_body]
        pub fn range(&self) -> (r: Range<usize>)
            ensures r.start == match_view(*self).start, r.end == match_view(*self).end, r.start <= r.end, match_view(*self).start <= match_view(*self).end,
                r.end <= isize::MAX, // byte offsets into a str
        { unimplemented!() }

        #[verifier::external_body]
        pub fn start(&self) -> (r: usize)
            ensures r == match_view(*self).start, r <= isize::MAX,
        { unimplemented!() }

        #[verifier::external_body]
        pub fn end(&self) -> (r: usize)
            ensures r == match_view(*self).end, r <= isize::MAX,
        { unimplemented!() }

        #[verifier::external_body]
        pub fn len(&self) -> (r: usize)
            ensures r == match_view(*self).end - match_view(*self).start,
        { unimplemented!() }

        #[verifier::external_body]
        pub fn is_empty(&self) -> (r: bool)
            ensures r == (match_view(*self).end == match_view(*self).start),
        { unimplemented!() }

        #[verifier::external_body]
        pub fn as_str(&self) -> (r: &'h str)
            ensures r@ == match_view(*self).text
        { unimplemented!() }
    }
    }
}
