// T-ext: stand-in for the `similar` crate (single-file Verus cannot link crates; DESIGN 2.9).
// `DiffOp` is pasted from the locked version's source; `TextDiff` is opaque. Included OUTSIDE the
// group's `verus! { }` block (it is a module of its own, like prelude/anyhow.rs).
mod similar {
    use vstd::prelude::*;
    verus! {
//@item file=registry:similar-2.7.0/src/types.rs kind=enum name=DiffOp

    /// `DiffOp::new_range()` of an insert/replace op, `new_index..new_index + new_len`, is computed
    /// by similar itself (types.rs `DiffOp::new_range`) and used to slice the new sequence; the only
    /// thing assumed about an op is that this sum does not overflow.
    pub open spec fn op_new_end_fits(op: DiffOp) -> bool {
        match op {
            DiffOp::Insert { new_index, new_len, .. } => new_index + new_len <= usize::MAX,
            DiffOp::Replace { new_index, new_len, .. } => new_index + new_len <= usize::MAX,
            _ => true,
        }
    }

    /// stand-in for `similar::TextDiff<'old, 'new, 'bufs, str>`
    #[verifier::external_body]
    pub struct TextDiff { ops: Vec<DiffOp> }

    impl TextDiff {
        pub uninterp spec fn spec_ops(&self) -> Seq<DiffOp>;

        /// `TextDiff::from_chars(old, new)`. NOTHING is assumed about the order, the positions or
        /// the tiling of the ops (an earlier version of this file assumed that the ops tile the new
        /// string left to right ordered by `new_index`; that is FALSE for similar 2.7.0, e.g.
        /// `from_chars("abab", "bb b")` — found by a bounded harness on the real crate).
        /// C04 ("terminates promptly"): the character diff is quadratic in the worst case (measured:
        /// a 60,000-char line > 300 s), so the stand-in may only be called on bounded input — an
        /// obligation of the caller, not an assumption.
        #[verifier::external_body]
        pub fn from_chars(old: &str, new: &str) -> (r: TextDiff)
            requires
                old.len() + new.len() <= 4096, // [similar.from_chars.pre.bounded_input]
            ensures
                forall|i: int| 0 <= i < r.spec_ops().len() ==> op_new_end_fits(#[trigger] r.spec_ops()[i]),
        { unimplemented!() }

        /// `TextDiff::ops(&self) -> &[DiffOp]` is `&self.ops`
        #[verifier::external_body]
        pub fn ops(&self) -> (r: &[DiffOp])
            ensures r@ == self.spec_ops(),
        { &self.ops }
    }
    }
}
