// T-ext: stand-in for the `similar` crate (single-file Verus cannot link crates; DESIGN 2.9).
// `DiffOp` is pasted from the locked version's source; `TextDiff` is opaque. Included OUTSIDE the
// group's `verus! { }` block (it is a module of its own, like prelude/anyhow.rs).
mod similar {
    use vstd::prelude::*;
    verus! {
//@item file=registry:similar-2.7.0/src/types.rs kind=enum name=DiffOp

    /// index in the new sequence at which the op starts
    pub open spec fn op_new_index(op: DiffOp) -> int {
        match op {
            DiffOp::Equal { new_index, .. } => new_index as int,
            DiffOp::Delete { new_index, .. } => new_index as int,
            DiffOp::Insert { new_index, .. } => new_index as int,
            DiffOp::Replace { new_index, .. } => new_index as int,
        }
    }
    /// number of items of the new sequence the op covers
    pub open spec fn op_new_len(op: DiffOp) -> int {
        match op {
            DiffOp::Equal { len, .. } => len as int,
            DiffOp::Delete { .. } => 0,
            DiffOp::Insert { new_len, .. } => new_len as int,
            DiffOp::Replace { new_len, .. } => new_len as int,
        }
    }
    /// The ops tile the new sequence `0..n` left to right (similar's `DiffHook` contract: every
    /// index of the new sequence is reported exactly once, in order, by equal/insert/replace), and
    /// an insert/replace covers at least one item.
    pub open spec fn ops_tile_new(ops: Seq<DiffOp>, n: int) -> bool {
        &&& forall|i: int| 0 <= i < ops.len() ==> #[trigger] op_new_index(ops[i]) + op_new_len(ops[i]) <= n
        &&& ops.len() > 0 ==> op_new_index(ops[0]) == 0
        &&& forall|i: int| 0 <= i < ops.len() - 1 ==> #[trigger] op_new_index(ops[i + 1]) == op_new_index(ops[i]) + op_new_len(ops[i])
        &&& forall|i: int| 0 <= i < ops.len() && ((#[trigger] ops[i]) is Insert || ops[i] is Replace) ==> op_new_len(ops[i]) > 0
    }

    /// stand-in for `similar::TextDiff<'old, 'new, 'bufs, str>`
    #[verifier::external_body]
    pub struct TextDiff { ops: Vec<DiffOp> }

    impl TextDiff {
        pub uninterp spec fn spec_ops(&self) -> Seq<DiffOp>;

        /// `TextDiff::from_chars(old, new)`: a diff whose items are the `char`s of the two strings.
        /// ASSUMED: the ops tile `0..n` where n is the number of chars of `new`, and n <= the number
        /// of UTF-8 bytes of `new` (every char is encoded in at least one byte).
        #[verifier::external_body]
        pub fn from_chars(old: &str, new: &str) -> (r: TextDiff)
            ensures
                ops_tile_new(r.spec_ops(), new@.len() as int),
                new@.len() <= new.len(),
        { unimplemented!() }

        /// `TextDiff::ops(&self) -> &[DiffOp]` is `&self.ops`
        #[verifier::external_body]
        pub fn ops(&self) -> (r: &[DiffOp])
            ensures r@ == self.spec_ops(),
        { &self.ops }
    }
    }
}
