// T-std (group diffranges): assumed specifications of std items used by `line_diff`
// (src/diff_parser.rs) that vstd (0.2026.09.13) leaves unspecified. Written from the std
// documentation; general, not proof-specific.
// (The `Vec::pop_if` / `<[T]>::swap` specs that the previous `push_or_merge_range` needed are gone:
// the repaired function uses `Vec::remove` / `Vec::insert`, which vstd specifies.)

// Option::is_none_or — std doc: "Returns true if the option is a None or the value inside of it
// matches a predicate."
pub assume_specification<T, F: FnOnce(T) -> bool>[ Option::<T>::is_none_or ](o: Option<T>, f: F) -> (r: bool)
    requires
        o matches Some(x) ==> call_requires(f, (x,)), // [std.is_none_or.pre.callable]
    ensures
        o is None ==> r,
        o matches Some(x) ==> call_ensures(f, (x,), r),
;

/// byte offsets at which the chars of a string start (`str::char_indices`), uninterpreted
pub uninterp spec fn char_offsets_spec(s: Seq<char>) -> Seq<usize>;

/// E3 (iterator chain -> shim): `s.char_indices().map(|(offset, _)| offset).collect::<Vec<usize>>()`.
/// The body is the identical std expression. ASSUMED (std doc of `char_indices`: "an iterator over
/// the chars of a string slice, and their positions"; positions are byte indices *into* the slice):
/// every offset is `< s.len()`, and a string without chars has no bytes.
/// (`s.len() <= isize::MAX` is the separate axiom prelude/diff_axioms.rs.)
#[verifier::external_body]
pub fn verif_char_byte_offsets(s: &str) -> (r: Vec<usize>)
    ensures
        r@ == char_offsets_spec(s@),
        forall|i: int| 0 <= i < r@.len() ==> (#[trigger] r@[i]) < s.len(),
        r@.len() == 0 ==> s.len() == 0,
{ s.char_indices().map(|(offset, _)| offset).collect() }

// Option::<&T>::copied — std doc: "Maps an Option<&T> to an Option<T> by copying the contents of the option."
pub assume_specification<'a, T: Copy>[ Option::<&'a T>::copied ](o: Option<&'a T>) -> (r: Option<T>)
    ensures
        o is None ==> r is None,
        o matches Some(x) ==> r == Some(*x),
;
