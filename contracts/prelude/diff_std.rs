// T-std (diff groups): assumed specifications of std items used by src/diff_parser.rs that vstd
// (0.2026.09.13) leaves unspecified. Written from the std documentation; general, not proof-specific.
// The file that includes this needs `#![feature(allocator_api)]` and `use std::alloc::Allocator;`.

// Vec::pop_if — std doc: "Removes and returns the last element from a vector if the predicate
// returns true, or None if the predicate returns false or the vector is empty (the predicate will
// not be called then)." The predicate receives `&mut T` and may change the element; `*final(x)` is
// the element after the call, so a changed element is what stays in / leaves the vector.
pub assume_specification<T, A: Allocator, F: FnOnce(&mut T) -> bool>[ Vec::<T, A>::pop_if ](v: &mut Vec<T, A>, f: F) -> (r: Option<T>)
    requires
        old(v)@.len() > 0 ==> forall|x: &mut T| *x == old(v)@.last() ==> call_requires(f, (x,)), // [std.pop_if.pre.callable]
    ensures
        old(v)@.len() == 0 ==> r is None && final(v)@ == old(v)@,
        old(v)@.len() > 0 ==> exists|x: &mut T, b: bool| *x == old(v)@.last() && #[trigger] call_ensures(f, (x,), b)
            && (b ==> r == Some(*final(x)) && final(v)@ == old(v)@.drop_last())
            && (!b ==> r is None && final(v)@ == old(v)@.drop_last().push(*final(x))),
;

// <[T]>::swap — std doc: "Swaps two elements in the slice. Panics if a or b are out of bounds."
pub assume_specification<T>[ <[T]>::swap ](s: &mut [T], a: usize, b: usize)
    requires
        a < old(s)@.len(), // [std.swap.pre.a_in_bounds]
        b < old(s)@.len(), // [std.swap.pre.b_in_bounds]
    ensures
        final(s)@ == old(s)@.update(a as int, old(s)@[b as int]).update(b as int, old(s)@[a as int]),
;

// Option::is_none_or — std doc: "Returns true if the option is a None or the value inside of it
// matches a predicate."
pub assume_specification<T, F: FnOnce(T) -> bool>[ Option::<T>::is_none_or ](o: Option<T>, f: F) -> (r: bool)
    requires
        o matches Some(x) ==> call_requires(f, (x,)), // [std.is_none_or.pre.callable]
    ensures
        o is None ==> r,
        o matches Some(x) ==> call_ensures(f, (x,), r),
;
