// Stand-in for the `globset` crate (0.4.18) for group `mainwire` (single-file Verus cannot link
// crates; DESIGN 2.9, T-ext). Included OUTSIDE the group's `verus! { .. }` block. A superset of the
// inline `mod globset` of contracts/groups/scope.rs (same names `GlobSet`, `as_path_spec`,
// `glob_matches`, `glob_count`), plus `Glob`, `GlobSetBuilder`, `GlobSet::new`.
//
// Glob SEMANTICS is uninterpreted: which pattern compiles (`glob_of`), which set a list of globs
// builds (`glob_set_build`), which path a glob matches (`glob_match_one`). Assumed from the crate's
// documentation (src/lib.rs): `GlobSetBuilder::build` is `GlobSet::new(self.pats.iter())`;
// `GlobSet::len` "Returns the number of globs in this set"; `is_empty` "Returns true if this set is
// empty, and therefore matches nothing" (`len == 0`); `is_match` "Returns true if any glob in this set
// matches the path given"; and of the glob syntax: `**` as the whole pattern matches every path.
mod globset {
    use vstd::prelude::*;
    verus! {
    #[verifier::external_body]
    pub struct GlobSet { _p: u8 }
    #[verifier::external_body]
    pub struct Glob { _p: u8 }
    #[verifier::external_body]
    pub struct Error { _p: u8 }
    #[verifier::external_body]
    pub struct GlobSetBuilder { _p: Vec<Glob> }

    /// what a value of any `AsRef<Path>` type denotes as a path text
    pub uninterp spec fn as_path_spec<P>(p: P) -> Seq<char>;
    /// globset's matching relation of a whole set (uninterpreted: T-ext)
    pub uninterp spec fn glob_matches(set: GlobSet, path: Seq<char>) -> bool;
    /// `GlobSet::len`
    pub uninterp spec fn glob_count(set: GlobSet) -> nat;
    /// `Glob::new(pattern)`: the compiled glob, `None` for an invalid pattern
    pub uninterp spec fn glob_of(pattern: Seq<char>) -> Option<Glob>;
    /// `GlobSet::new(globs)` / `GlobSetBuilder::build()`: the set of these globs (`None` = `Err`)
    pub uninterp spec fn glob_set_build(globs: Seq<Glob>) -> Option<GlobSet>;
    /// one glob against one path
    pub uninterp spec fn glob_match_one(g: Glob, path: Seq<char>) -> bool;

    /// the globs of the first `n` patterns, `None` as soon as one pattern is invalid
    pub open spec fn compile_all(pats: Seq<Seq<char>>, n: int) -> Option<Seq<Glob>>
        decreases n
    {
        if n <= 0 {
            Some(Seq::empty())
        } else {
            match (compile_all(pats, n - 1), glob_of(pats[n - 1])) {
                (Some(gs), Some(g)) => Some(gs.push(g)),
                _ => None,
            }
        }
    }

    /// the glob set of a list of pattern texts: every pattern must compile, then the set is built
    /// (`None` = `Err`: "Err on an invalid pattern")
    pub open spec fn glob_set_of(pats: Seq<Seq<char>>) -> Option<GlobSet> {
        match compile_all(pats, pats.len() as int) {
            Some(gs) => glob_set_build(gs),
            None => None,
        }
    }

    /// T-ext (globset doc of `len`, `is_match`): a built set has as many globs as it was built from and
    /// matches a path iff one of them does.
    pub broadcast axiom fn axiom_glob_set_build(globs: Seq<Glob>)
        ensures
            (#[trigger] glob_set_build(globs)) is Some ==> glob_count(glob_set_build(globs).unwrap()) == globs.len()
                && (forall|path: Seq<char>| #[trigger] glob_matches(glob_set_build(globs).unwrap(), path)
                    <==> exists|i: int| 0 <= i < globs.len() && glob_match_one(#[trigger] globs[i], path));

    /// T-ext (glob syntax): the pattern `**` matches every path.
    pub broadcast axiom fn axiom_double_star_matches_all(path: Seq<char>)
        ensures glob_of("**"@) is Some ==> #[trigger] glob_match_one(glob_of("**"@).unwrap(), path);

    impl Glob {
        #[verifier::external_body]
        pub fn new(glob: &str) -> (r: Result<Glob, Error>)
            ensures
                r matches Ok(g) ==> glob_of(glob@) == Some(g),
                r is Err ==> glob_of(glob@) is None,
        { unimplemented!() }
    }

    impl GlobSetBuilder {
        /// ghost: the globs added so far, in order
        pub uninterp spec fn pats(&self) -> Seq<Glob>;

        #[verifier::external_body]
        pub fn new() -> (r: GlobSetBuilder)
            ensures r.pats() == Seq::<Glob>::empty(),
        { unimplemented!() }

        /// real signature returns `&mut GlobSetBuilder` (for chaining; the units discard it)
        #[verifier::external_body]
        pub fn add(&mut self, pat: Glob)
            ensures final(self).pats() == old(self).pats().push(pat),
        { unimplemented!() }

        #[verifier::external_body]
        pub fn build(&self) -> (r: Result<GlobSet, Error>)
            ensures
                r matches Ok(s) ==> glob_set_build(self.pats()) == Some(s),
                r is Err ==> glob_set_build(self.pats()) is None,
        { unimplemented!() }
    }

    impl GlobSet {
        /// `GlobSet::new<I: IntoIterator<Item = G>, G: AsRef<Glob>>` at the instance used by `main`: an array of globs
        #[verifier::external_body]
        pub fn new<const N: usize>(globs: [Glob; N]) -> (r: Result<GlobSet, Error>)
            ensures
                r matches Ok(s) ==> glob_set_build(globs@) == Some(s),
                r is Err ==> glob_set_build(globs@) is None,
                // the same two facts for a one-element array, with the sequence spelled out (for N == 1,
                // `globs@ == seq![globs@[0]]` holds by extensionality, which the solver does not apply by itself)
                N == 1 ==> (r matches Ok(s) ==> glob_set_build(seq![globs@[0]]) == Some(s)),
                N == 1 ==> (r is Err ==> glob_set_build(seq![globs@[0]]) is None),
        { unimplemented!() }

        #[verifier::external_body]
        pub fn is_empty(&self) -> (r: bool)
            ensures r == (glob_count(*self) == 0)
        { unimplemented!() }

        #[verifier::external_body]
        pub fn len(&self) -> (r: usize)
            ensures r == glob_count(*self)
        { unimplemented!() }
    }

    /// E1: `?` on a `globset::Error` in a function returning `anyhow::Result` (anyhow's blanket
    /// `From<E: std::error::Error>`); which error comes out is not verified.
    impl From<Error> for crate::anyhow::Error {
        #[verifier::external_body]
        fn from(e: Error) -> crate::anyhow::Error { crate::anyhow::verif_err() }
    }

    pub broadcast group group_globset {
        axiom_glob_set_build,
        axiom_double_star_matches_all,
    }
    }
}
