// T-std for keep-sorted: the two orders the property names.
// "compare as strings by code point": `str::cmp` is the lexicographic order of the UTF-8 bytes,
// which coincides with code-point order (std doc of `impl Ord for str`). Kept as an uninterpreted
// total order `str_cmp_spec`; "as numbers": `f64::from_str` then `f64::total_cmp`.
pub uninterp spec fn str_cmp_spec(a: Seq<char>, b: Seq<char>) -> Ordering;
pub uninterp spec fn parse_f64_spec(s: Seq<char>) -> Option<f64>;
pub uninterp spec fn f64_total_cmp_spec(a: f64, b: f64) -> Ordering;
/// T-std: both orders are reflexive (`Ord for str`: `a.cmp(a) == Equal`; `f64::total_cmp` is a total
/// order, so `x.total_cmp(&x) == Equal` for every x, NaN included).
#[verifier::external_body]
pub proof fn axiom_str_cmp_reflexive(a: Seq<char>)
    ensures str_cmp_spec(a, a) == Ordering::Equal
{}
#[verifier::external_body]
pub proof fn axiom_f64_total_cmp_reflexive(x: f64)
    ensures f64_total_cmp_spec(x, x) == Ordering::Equal
{}
pub uninterp spec fn to_lowercase_spec(s: Seq<char>) -> Seq<char>;

/// E13: `a.cmp(b)` on &str (Ord::cmp is accepted by Verus but unspecified)
#[verifier::external_body]
pub fn verif_str_cmp(a: &str, b: &str) -> (o: Ordering)
    ensures o == str_cmp_spec(a@, b@)
{ a.cmp(b) }

pub assume_specification[ f64::total_cmp ](a: &f64, b: &f64) -> (o: Ordering)
    ensures o == f64_total_cmp_spec(*a, *b);

pub assume_specification[ str::to_lowercase ](s: &str) -> (r: String)
    ensures r@ == to_lowercase_spec(s@);

#[verifier::external_type_specification]
#[verifier::external_body]
pub struct ExParseFloatError(core::num::ParseFloatError);

/// E13: `s.parse::<f64>()`
#[verifier::external_body]
pub fn verif_parse_f64(s: &str) -> (r: Result<f64, core::num::ParseFloatError>)
    ensures
        (r matches Ok(x) ==> parse_f64_spec(s@) == Some(x)),
        (r is Err ==> parse_f64_spec(s@) is None),
{ s.parse::<f64>() }

/// E17: String == &str
#[verifier::external_body]
pub fn verif_string_eq(a: &String, b: &str) -> (r: bool)
    ensures r == (a@ == b@)
{ a == b }

// `#[derive(PartialEq)]` on core::cmp::Ordering: structural equality (T-std)
pub assume_specification[ <Ordering as PartialEq>::eq ](a: &Ordering, b: &Ordering) -> (r: bool)
    ensures r == (*a == *b);

/// E13: `opt.cloned().unwrap_or_default()` on Option<&String> (Default for String is "")
#[verifier::external_body]
pub fn verif_cloned_or_default(o: Option<&String>) -> (r: String)
    ensures (o matches Some(s) ==> r@ == s@), (o is None ==> r@.len() == 0)
{ o.cloned().unwrap_or_default() }

/// E13: `opt.unwrap_or_default()` on Option<&str> (Default for &str is "")
#[verifier::external_body]
pub fn verif_str_or_default<'a>(o: Option<&'a str>) -> (r: &'a str)
    ensures (o matches Some(s) ==> r@ == s@), (o is None ==> r@.len() == 0)
{ o.unwrap_or_default() }
