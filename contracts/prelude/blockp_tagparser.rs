// The tag parser as seen by the block parser: `BlockTag`, `WinnowBlockTagParser::{new, cursor}`
// are the real text of src/tag_parser.rs; `WinnowBlockTagParser::next` (the winnow grammar,
// tag_parser.rs:50-185) is out of scope and enters as an ASSUMED specification over the
// uninterpreted scan function `scan_tag`.
// Needs: prelude/tstr_mod.rs (blen), prelude/blockp_strings.rs (char_boundary, char_at, char_len).

//@item file=src/tag_parser.rs kind=enum name=BlockTag
//@item file=src/tag_parser.rs kind=struct name=WinnowBlockTagParser

/// Result of one `WinnowBlockTagParser::next` call: what it returns and where it leaves the cursor.
pub struct TagScan {
    pub result: anyhow::Result<Option<BlockTag>>,
    pub cursor: usize,
}

/// The tag parser is a deterministic function of (text, cursor). Which tags it finds is the
/// grammar's business (C05, not covered); the block parser is verified for *every* such function.
pub uninterp spec fn scan_tag(text: Seq<char>, cursor: usize) -> TagScan;

/// What is assumed about a successful scan (read off tag_parser.rs:61-87): the tag lies at or after
/// the old cursor, the new cursor is its end, it is not empty and inside the text; a start tag's
/// range begins with its `<` and ends just after its `>` (grammar `<block ... >`, line 104-113).
pub open spec fn scan_wf(text: Seq<char>, cursor: usize) -> bool {
    let s = scan_tag(text, cursor);
    s.result matches Ok(Some(tag)) ==> {
        &&& cursor < s.cursor <= blen(text)
        &&& (tag matches BlockTag::Start { tag_range, attributes } ==> {
            &&& cursor <= tag_range.start < tag_range.end == s.cursor
            &&& char_boundary(text, tag_range.start as nat) && char_at(text, tag_range.start as nat) == '<'
            &&& char_boundary(text, (tag_range.end - 1) as nat) && char_at(text, (tag_range.end - 1) as nat) == '>'
        })
        &&& (tag matches BlockTag::End { start_position } ==> cursor <= start_position < s.cursor)
    }
}

impl<'source> WinnowBlockTagParser<'source> {
//@unit id=T1 file=src/tag_parser.rs fn=<<impl<'source> WinnowBlockTagParser<'source>::new>> ret=r
//@contract
        ensures r.source == source, r.cursor == cursor, // [T1.post.fields]
//@end

//@unit id=T2 file=src/tag_parser.rs fn=<<impl<'source> WinnowBlockTagParser<'source>::cursor>> ret=r
//@contract
        ensures r == self.cursor, // [T2.post.cursor]
//@end

    /// ASSUMED (E7: `impl BlockTagParser for WinnowBlockTagParser` -> inherent fn; body not extracted).
    #[verifier::external_body]
    fn next(&mut self) -> (r: anyhow::Result<Option<BlockTag>>)
        ensures
            final(self).source == old(self).source,
            (TagScan { result: r, cursor: final(self).cursor }) == scan_tag(old(self).source@, old(self).cursor),
            scan_wf(old(self).source@, old(self).cursor),
    { unimplemented!() }
}
