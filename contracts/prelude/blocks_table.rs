// Group `blocksel`, C16 table unit (`language_parsers()` of src/language_parsers/mod.rs): stand-ins and
// shims. Included *inside* the group's `verus! { .. }` block, after prelude/blocks_sel.rs.

impl LanguageParser {
    /// ghost: the grammar behind this parser, named by the module of src/language_parsers that built it
    /// (`typescript`, `go`, `makefile`, ...)
    pub uninterp spec fn grammar(&self) -> Seq<char>;
}

/// what `<module>::parser()?` yields (a `BlocksFromCommentsParser<..>`; tree-sitter behind it)
#[verifier::external_body]
pub struct RawParser { p: Box<dyn std::any::Any> }

impl RawParser {
    pub uninterp spec fn grammar(&self) -> Seq<char>;
}

/// stand-in for `<module>::parser()` (23 modules of src/language_parsers; tree-sitter FFI, not
/// extracted): the extractor rewrites `bash::parser()` to `verif_grammar_parser("bash")`, so the
/// ghost grammar name IS the module name in the real text. May fail (`Err`), like the real ones.
#[verifier::external_body]
pub fn verif_grammar_parser(module: &str) -> (r: anyhow::Result<RawParser>)
    ensures r matches Ok(p) ==> p.grammar() == module@,
{ unimplemented!() }

/// stand-in for the nested helper `fn parser<P: BlocksParser + 'static>(p: P) -> LanguageParser`
/// (`Rc::new(RefCell::new(Box::new(p) as Box<dyn BlocksParser>))`): wraps, keeps the grammar
#[verifier::external_body]
pub fn parser(p: RawParser) -> (r: LanguageParser)
    ensures r.grammar() == p.grammar(),
{ unimplemented!() }

/// `Rc::clone(&x)`: another handle to the same parser
#[verifier::external_body]
pub fn verif_rc_clone(p: &LanguageParser) -> (r: LanguageParser)
    ensures r == *p,
{ LanguageParser { p: std::rc::Rc::clone(&p.p) } }

/// the map built by inserting the first `n` pairs in order (a later pair with an equal key wins)
pub open spec fn pairs_to_map<K, V>(s: Seq<(K, V)>, n: int) -> Map<K, V>
    decreases n
{
    if n <= 0 { Map::empty() } else { pairs_to_map(s, n - 1).insert(s[n - 1].0, s[n - 1].1) }
}

/// E13 shim: `HashMap::from([(K, V); N])`. std: `impl From<[(K, V); N]> for HashMap` is
/// `Self::from_iter(arr)`, i.e. the pairs are inserted in array order ("If the array contains any
/// equal keys, all but one of the corresponding values will be dropped").
#[verifier::external_body]
pub fn verif_hashmap_from_array<K: std::cmp::Eq + std::hash::Hash, V, const N: usize>(a: [(K, V); N]) -> (r: HashMap<K, V>)
    ensures
        vstd::std_specs::hash::obeys_key_model::<K>() ==> r@ == pairs_to_map(a@, N as int),
{ HashMap::from(a) }
