// T-std additions of group `normalise` (comment normalisers of src/language_parsers/mod.rs).
// Included inside `verus! { .. }` after prelude/tagnorm_bytes.rs. Every shim's `external_body` is the
// identical std call; the specifications speak about UTF-8 bytes (`utf8(s@)`, vstd's `encode_utf8`).

/// `String::with_capacity` — std: "Creates a new empty String with at least the specified capacity."
pub assume_specification[ String::with_capacity ](n: usize) -> (r: String)
    ensures r@ == Seq::<char>::empty();

/// the texts `ps` one after the other, as bytes (first `k` of them)
pub open spec fn flat_bytes(ps: Seq<Seq<char>>, k: int) -> Seq<u8>
    decreases k
{
    if k <= 0 { Seq::<u8>::empty() } else { flat_bytes(ps, k - 1) + utf8(ps[k - 1]) }
}

pub open spec fn views_of(v: Seq<&str>) -> Seq<Seq<char>> {
    Seq::new(v.len(), |i: int| v[i]@)
}

/// `s.split_inclusive(c)`: the pieces, in order (a function of the text)
pub uninterp spec fn split_inclusive_spec(s: Seq<char>, c: char) -> Seq<Seq<char>>;

/// Rule E13 shim for `s.split_inclusive(c)`, collected (`for x in s.split_inclusive(c)` visits the
/// same items in the same order). std doc: "Returns an iterator over substrings of this string slice,
/// separated by characters matched by a pattern. Differs from the iterator produced by split in that
/// split_inclusive leaves the matched part as the terminator of the substring. [...] If the last
/// element of the string is matched, that element will be considered the terminator of the preceding
/// substring." Hence, for an ASCII separator: the pieces concatenate to `s`, none is empty, every
/// piece but the last ends with the separator, and the separator occurs nowhere else in a piece.
#[verifier::external_body]
pub fn verif_split_inclusive_char<'a>(s: &'a str, c: char) -> (r: Vec<&'a str>)
    requires (c as u32) < 128
    ensures
        views_of(r@) == split_inclusive_spec(s@, c),
        flat_bytes(views_of(r@), r@.len() as int) == utf8(s@),
        forall|k: int| 0 <= k < r@.len() ==> utf8(#[trigger] r@[k]@).len() > 0,
        forall|k: int| 0 <= k < r@.len() - 1 ==> utf8(#[trigger] r@[k]@).last() == c as u8,
        forall|k: int, j: int| 0 <= k < r@.len() && 0 <= j < utf8(r@[k]@).len() - 1 ==> #[trigger] utf8(r@[k]@)[j] != c as u8,
{ s.split_inclusive(c).collect() }

/// `s.find(pred)` for a closure pattern: byte offset of the first char satisfying `pred`
pub uninterp spec fn find_pred_spec(s: Seq<char>, pred: spec_fn(char) -> bool) -> Option<usize>;

/// Rule E13 shim for `s.find(<closure>)` — std doc of `str::find`: "Returns the byte index of the
/// first character of this string slice that matches the pattern"; a closure pattern matches a char
/// for which it returns true. `pred` is the closure as a specification function (the closure's own
/// contract must say that it computes `pred`).
#[verifier::external_body]
pub fn verif_find_pred<F: FnMut(char) -> bool>(s: &str, f: F, Ghost(pred): Ghost<spec_fn(char) -> bool>) -> (r: Option<usize>)
    requires
        forall|c: char| #[trigger] call_requires(f, (c,)),
        forall|c: char, b: bool| #[trigger] call_ensures(f, (c,), b) ==> b == pred(c),
    ensures
        r == find_pred_spec(s@, pred),
        r matches Some(p) ==> p < utf8(s@).len() && byte_boundary(utf8(s@), p as int)
            && (forall|k: int| 0 <= k < decode_utf8(utf8(s@).subrange(0, p as int)).len() ==> !pred(#[trigger] decode_utf8(utf8(s@).subrange(0, p as int))[k]))
            && decode_utf8(utf8(s@).subrange(p as int, utf8(s@).len() as int)).len() > 0
            && pred(decode_utf8(utf8(s@).subrange(p as int, utf8(s@).len() as int))[0]),
        r is None ==> forall|k: int| 0 <= k < s@.len() ==> !pred(#[trigger] s@[k]),
{ s.find(f) }

/// Rule E13 shim for `s.starts_with(c)` with an ASCII char `c`: the text starts with the char `c`
/// iff its first byte is the code of `c` (an ASCII byte encodes exactly that char).
#[verifier::external_body]
pub fn verif_starts_with_char(s: &str, c: char) -> (r: bool)
    requires (c as u32) < 128
    ensures r == (utf8(s@).len() > 0 && utf8(s@)[0] == c as u8)
{ s.starts_with(c) }

/// Rule E13 shim for `s.starts_with(pat)` with a `&str` pattern
#[verifier::external_body]
pub fn verif_starts_with_str(s: &str, pat: &str) -> (r: bool)
    ensures r == occurs_at(utf8(s@), 0, utf8(pat@))
{ s.starts_with(pat) }

/// Rule E13 shim for `s.replacen(pat, to, 1)` with `&str` pattern — std doc: "Replaces first N matches
/// of a pattern with another string. replacen creates a new String, and copies the data from this
/// string slice into it."  For N = 1: the first occurrence of `pat` (if any) is replaced by `to`.
#[verifier::external_body]
pub fn verif_replacen_str(s: &str, pat: &str, to: &str, n: usize) -> (r: String)
    requires n == 1, utf8(pat@).len() > 0
    ensures
        (forall|q: int| !#[trigger] occurs_at(utf8(s@), q, utf8(pat@))) ==> utf8(r@) == utf8(s@),
        forall|p: int| #[trigger] occurs_at(utf8(s@), p, utf8(pat@)) && (forall|q: int| 0 <= q < p ==> !#[trigger] occurs_at(utf8(s@), q, utf8(pat@)))
            ==> utf8(r@) == utf8(s@).subrange(0, p) + utf8(to@) + utf8(s@).subrange(p + utf8(pat@).len(), utf8(s@).len() as int),
{ s.replacen(pat, to, n) }
