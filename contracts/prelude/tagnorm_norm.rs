// T-std additions of group `normalise` (comment normalisers of src/language_parsers/mod.rs).
// Included inside `verus! { .. }` after prelude/tagnorm_bytes.rs. Every shim's `external_body` is the
// identical std call; the specifications speak about UTF-8 bytes (`utf8(s@)`, vstd's `encode_utf8`).

/// `String::with_capacity` — std: "Creates a new empty String with at least the specified capacity."
pub assume_specification[ String::with_capacity ](n: usize) -> (r: String)
    ensures r@ == Seq::<char>::empty();

/// the texts `ps` one after the other, as bytes (first `k` of them)
pub open spec fn flat_bytes(ps: Seq<Seq<char>>, k: int) -> Seq<u8>
    decreases k
{
    if k <= 0 { Seq::<u8>::empty() } else { flat_bytes(ps, k - 1) + utf8(ps[k - 1]) }
}

pub open spec fn views_of(v: Seq<&str>) -> Seq<Seq<char>> {
    Seq::new(v.len(), |i: int| v[i]@)
}

/// `s.split_inclusive(c)`: the pieces, in order (a function of the text)
pub uninterp spec fn split_inclusive_spec(s: Seq<char>, c: char) -> Seq<Seq<char>>;

/// Rule E13 shim for `s.split_inclusive(c)`, collected (`for x in s.split_inclusive(c)` visits the
/// same items in the same order). std doc: "Returns an iterator over substrings of this string slice,
/// separated by characters matched by a pattern. Differs from the iterator produced by split in that
/// split_inclusive leaves the matched part as the terminator of the substring. [...] If the last
/// element of the string is matched, that element will be considered the terminator of the preceding
/// substring." Hence, for an ASCII separator: the pieces concatenate to `s`, none is empty, every
/// piece but the last ends with the separator, and the separator occurs nowhere else in a piece.
#[verifier::external_body]
pub fn verif_split_inclusive_char<'a>(s: &'a str, c: char) -> (r: Vec<&'a str>)
    requires (c as u32) < 128
    ensures
        views_of(r@) == split_inclusive_spec(s@, c),
        flat_bytes(views_of(r@), r@.len() as int) == utf8(s@),
        forall|k: int| 0 <= k < r@.len() ==> utf8(#[trigger] r@[k]@).len() > 0,
        forall|k: int| 0 <= k < r@.len() - 1 ==> utf8(#[trigger] r@[k]@).last() == c as u8,
        forall|k: int, j: int| 0 <= k < r@.len() && 0 <= j < utf8(r@[k]@).len() - 1 ==> #[trigger] utf8(r@[k]@)[j] != c as u8,
{ s.split_inclusive(c).collect() }

/// `s.find(pred)` for a closure pattern: byte offset of the first char satisfying `pred`
pub uninterp spec fn find_pred_spec(s: Seq<char>, pred: spec_fn(char) -> bool) -> Option<usize>;

/// Rule E13 shim for `s.find(<closure>)` — std doc of `str::find`: "Returns the byte index of the
/// first character of this string slice that matches the pattern"; a closure pattern matches a char
/// for which it returns true. `pred` is the closure as a specification function (the closure's own
/// contract must say that it computes `pred`).
#[verifier::external_body]
pub fn verif_find_pred<F: FnMut(char) -> bool>(s: &str, f: F, Ghost(pred): Ghost<spec_fn(char) -> bool>) -> (r: Option<usize>)
    requires
        forall|c: char| #[trigger] call_requires(f, (c,)),
        forall|c: char, b: bool| #[trigger] call_ensures(f, (c,), b) ==> b == pred(c),
    ensures
        r == find_pred_spec(s@, pred),
        r matches Some(p) ==> p < utf8(s@).len() && byte_boundary(utf8(s@), p as int)
            && (forall|k: int| 0 <= k < decode_utf8(utf8(s@).subrange(0, p as int)).len() ==> !pred(#[trigger] decode_utf8(utf8(s@).subrange(0, p as int))[k]))
            && decode_utf8(utf8(s@).subrange(p as int, utf8(s@).len() as int)).len() > 0
            && pred(decode_utf8(utf8(s@).subrange(p as int, utf8(s@).len() as int))[0]),
        r is None ==> forall|k: int| 0 <= k < s@.len() ==> !pred(#[trigger] s@[k]),
{ s.find(f) }

/// Rule E13 shim for `s.starts_with(c)` with an ASCII char `c`: the text starts with the char `c`
/// iff its first byte is the code of `c` (an ASCII byte encodes exactly that char).
#[verifier::external_body]
pub fn verif_starts_with_char(s: &str, c: char) -> (r: bool)
    requires (c as u32) < 128
    ensures r == (utf8(s@).len() > 0 && utf8(s@)[0] == c as u8)
{ s.starts_with(c) }

/// Rule E13 shim for `s.starts_with(pat)` with a `&str` pattern
#[verifier::external_body]
pub fn verif_starts_with_str(s: &str, pat: &str) -> (r: bool)
    ensures r == occurs_at(utf8(s@), 0, utf8(pat@))
{ s.starts_with(pat) }

/// Rule E13 shim for `s.replacen(pat, to, 1)` with `&str` pattern — std doc: "Replaces first N matches
/// of a pattern with another string. replacen creates a new String, and copies the data from this
/// string slice into it."  For N = 1: the first occurrence of `pat` (if any) is replaced by `to`.
#[verifier::external_body]
pub fn verif_replacen_str(s: &str, pat: &str, to: &str, n: usize) -> (r: String)
    requires n == 1, utf8(pat@).len() > 0
    ensures
        (forall|q: int| !#[trigger] occurs_at(utf8(s@), q, utf8(pat@))) ==> utf8(r@) == utf8(s@),
        forall|p: int| #[trigger] occurs_at(utf8(s@), p, utf8(pat@)) && (forall|q: int| 0 <= q < p ==> !#[trigger] occurs_at(utf8(s@), q, utf8(pat@)))
            ==> utf8(r@) == utf8(s@).subrange(0, p) + utf8(to@) + utf8(s@).subrange(p + utf8(pat@).len(), utf8(s@).len() as int),
{ s.replacen(pat, to, n) }

/// `Option::filter` — std doc: "Returns None if the option is None, otherwise calls predicate with the
/// wrapped value and returns Some(t) if predicate returns true, None if predicate returns false."
pub assume_specification<T, P: FnOnce(&T) -> bool>[ Option::<T>::filter ](o: Option<T>, p: P) -> (r: Option<T>)
    requires o matches Some(x) ==> call_requires(p, (&x,)),
    ensures
        o is None ==> r is None,
        o matches Some(x) ==> (exists|b: bool| #[trigger] call_ensures(p, (&x,), b) && r == (if b { Some(x) } else { None::<T> }));


// ---- additions for N6 (markdown link-reference comments) ---------------------------------------------

/// Rule E13 shim for `[c1, .., cN].contains(&x)` on a char array (`<[T]>::contains`: "Returns true
/// if the slice contains an element with the given value"; `char` equality is structural).
#[verifier::external_body]
pub fn verif_chars_contains<const N: usize>(s: &[char; N], x: &char) -> (r: bool)
    ensures r == s@.contains(*x)
{ s.contains(x) }

/// Rule E13 shim for `s.chars().next()`: the first char of the text, `None` for the empty text
#[verifier::external_body]
pub fn verif_first_char(s: &str) -> (r: Option<char>)
    ensures r == (if s@.len() > 0 { Some(s@[0]) } else { None::<char> })
{ s.chars().next() }

/// Rule E13 shim for `s.rfind(c)` with an ASCII char `c`: byte offset of the last byte equal to the
/// code of `c` (an ASCII byte occurs in UTF-8 only as that char).
#[verifier::external_body]
pub fn verif_rfind_ascii_char(s: &str, c: char) -> (r: Option<usize>)
    requires (c as u32) < 128 // [std.rfind_char.shim.pre.ascii_pattern]
    ensures
        r matches Some(p) ==> p < utf8(s@).len() && utf8(s@)[p as int] == c as u8
            && forall|q: int| p < q < utf8(s@).len() ==> #[trigger] utf8(s@)[q] != c as u8,
        r is None ==> forall|q: int| 0 <= q < utf8(s@).len() ==> #[trigger] utf8(s@)[q] != c as u8,
{ s.rfind(c) }

/// `str::repeat` — std doc: "Creates a new String by repeating a string n times. Panics if the
/// capacity would overflow." (=> precondition)
pub assume_specification[ str::repeat ](s: &str, n: usize) -> (r: String)
    requires utf8(s@).len() * n <= usize::MAX // [std.str_repeat.pre.capacity]
    ensures
        utf8(r@).len() == utf8(s@).len() * n,
        forall|i: int| 0 <= i < utf8(r@).len() ==> #[trigger] utf8(r@)[i] == utf8(s@)[i % (utf8(s@).len() as int)],
;

/// the first char of a non-empty text is ASCII => the first byte is its code (proved)
pub proof fn lemma_first_char_ascii(t: Seq<char>)
    requires t.len() > 0, (t[0] as u32) < 128
    ensures utf8(t).len() > 0 && utf8(t)[0] == t[0] as u8
{
    lemma_utf8_one(t[0]);
    encode_utf8_concat(seq![t[0]], t.subrange(1, t.len() as int));
    assert(seq![t[0]] + t.subrange(1, t.len() as int) =~= t);
}

/// Rule E13 shim for `s.chars().nth(n)`: the n-th CHAR (not byte) of the text — its own function, so
/// that code which indexes chars with a byte offset does not verify by accident.
#[verifier::external_body]
pub fn verif_chars_nth(s: &str, n: usize) -> (r: Option<char>)
    ensures r == (if n < s@.len() { Some(s@[n as int]) } else { None::<char> })
{ s.chars().nth(n) }

/// Rule E13 shim for `&s.as_bytes()[a..=b]` (`str::as_bytes`: the UTF-8 bytes; inclusive range index
/// of a slice — std: panics if `b == usize::MAX`, `a > b + 1` or `b + 1 > len` => preconditions)
#[verifier::external_body]
pub fn verif_bytes_incl<'a>(s: &'a str, a: usize, b: usize) -> (r: &'a [u8])
    requires
        b < utf8(s@).len() && a <= b + 1, // [std.slice_index.pre.in_bounds]
    ensures
        r@ == utf8(s@).subrange(a as int, b + 1),
{ &s.as_bytes()[a..=b] }
