// Proof layer of D-b: the loop invariants of `line_changes` as two opaque predicates and one lemma
// per kind of step. Nothing here is trusted: every lemma is proved by Verus.
// k = position in the current hunk h; [gs, fa - mk(ls, fa)) = removed lines of the current group of
// changed lines, [fa, k) = its added lines seen so far; mk(ls, fa) == 1 iff a marker line
// (`\ No newline at end of file`, no line of either file) stands between the two at fa - 1.

/// the group of changed lines that is open at position k, the queue and `prev_line`
#[verifier::opaque]
pub open spec fn inv_group(f: PatchedFile, h: int, k: int, gs: int, fa: int, dq: Seq<&Line>, prev: Option<&Line>) -> bool {
    let ls = hunk_lines(f, h);
    let hk = f.spec_hunks()[h];
    let re = fa - mk(ls, fa);
    &&& 0 <= gs <= re <= fa <= k <= ls.len()
    &&& gs == gstart(ls, k) && fa == fadd(ls, k) && gs == gstart(ls, fa)
    &&& gs == 0 || kind(ls[gs - 1]) == Kind::Ctx
    &&& forall|j: int| gs <= j < re ==> kind(#[trigger] ls[j]) == Kind::Rem
    &&& forall|j: int| fa <= j < k ==> kind(#[trigger] ls[j]) == Kind::Add
    // the queue holds the removed lines of the group that are not paired yet
    &&& dq.len() == (if (re - gs) - (k - fa) > 0 { (re - gs) - (k - fa) } else { 0 })
    &&& forall|j: int| 0 <= j < dq.len() ==> *(#[trigger] dq[j]) == ls[gs + (k - fa) + j]
    // `prev_line` is the line before k, marker lines included: after a marker line it is the marker,
    // which nobody reads (the next line is an added line and overwrites it)
    &&& k > 0 ==> (prev matches Some(p) && *p == ls[k - 1])
    &&& ct(hk, fa) == ct(hk, gs)
}

/// the entries produced so far, for hunks < h and lines < k of hunk h; `closed`: no group is open
/// at k (the line before k is a context line, or the group ending at k has just been folded)
#[verifier::opaque]
pub open spec fn inv_entries(f: PatchedFile, h: int, k: int, gs: int, fa: int, closed: bool, out: Seq<LineChange>, o: Seq<Orig>, carve: bool) -> bool {
    let ls = hunk_lines(f, h);
    let hk = f.spec_hunks()[h];
    &&& post_nothing_else(f, out, o)
    &&& post_origin_increasing(o)
    &&& forall|i: int| 0 <= i < o.len() ==> (#[trigger] o[i]).h < h || (o[i].h == h && (o[i].k < gs || fa <= o[i].k < k))
    &&& forall|h2: int, k2: int| 0 <= h2 < h && 0 <= k2 < hunk_lines(f, h2).len()
            && kind(#[trigger] hunk_lines(f, h2)[k2]) == Kind::Add ==> has_entry(o, h2, k2)
    &&& forall|k2: int| 0 <= k2 < k && kind(#[trigger] ls[k2]) == Kind::Add ==> has_entry(o, h, k2)
    &&& forall|h2: int, ks: int, e: int| 0 <= h2 < h && #[trigger] pure_del_run(hunk_lines(f, h2), ks, e) ==> has_entry(o, h2, ks)
    &&& forall|ks: int, e: int| #[trigger] pure_del_run(ls, ks, e) && (e < k || (closed && e == k)) ==> has_entry(o, h, ks)
    &&& deletion_source_numbering(f, out, o)
    &&& carve ==> strictly_sorted(out)
    &&& carve ==> forall|i: int| 0 <= i < out.len() ==> (#[trigger] out[i]).line < ct(hk, k) || (closed && out[i].line == ct(hk, k))
}

/// between two hunks
#[verifier::opaque]
pub open spec fn inv_outer(f: PatchedFile, h: int, out: Seq<LineChange>, o: Seq<Orig>, carve: bool) -> bool {
    &&& 0 <= h <= f.spec_hunks().len()
    &&& post_nothing_else(f, out, o)
    &&& post_origin_increasing(o)
    &&& forall|i: int| 0 <= i < o.len() ==> (#[trigger] o[i]).h < h
    &&& forall|h2: int, k2: int| 0 <= h2 < h && 0 <= k2 < hunk_lines(f, h2).len()
            && kind(#[trigger] hunk_lines(f, h2)[k2]) == Kind::Add ==> has_entry(o, h2, k2)
    &&& forall|h2: int, ks: int, e: int| 0 <= h2 < h && #[trigger] pure_del_run(hunk_lines(f, h2), ks, e) ==> has_entry(o, h2, ks)
    &&& deletion_source_numbering(f, out, o)
    &&& carve ==> strictly_sorted(out)
    &&& carve && h < f.spec_hunks().len() ==> forall|i: int| 0 <= i < out.len() ==> (#[trigger] out[i]).line < tgt_first(f.spec_hunks()[h])
}

pub proof fn lemma_outer_init(f: PatchedFile, carve: bool)
    ensures inv_outer(f, 0, Seq::<LineChange>::empty(), Seq::<Orig>::empty(), carve),
{
    reveal(post_origin_increasing);
    reveal(inv_outer);
}

pub proof fn lemma_outer_to_inner(f: PatchedFile, h: int, dq: Seq<&Line>, prev: Option<&Line>, out: Seq<LineChange>, o: Seq<Orig>, carve: bool)
    requires
        inv_outer(f, h, out, o, carve),
        0 <= h < f.spec_hunks().len(),
        dq.len() == 0,
    ensures
        inv_group(f, h, 0, 0, 0, dq, prev),
        inv_entries(f, h, 0, 0, 0, false, out, o, carve),
{
    reveal(post_origin_increasing);
    reveal(mk);
    reveal(inv_outer);
    reveal(inv_group);
    reveal(inv_entries);
}

/// the post-state of an added line (paired with a removed line of the group, or new)
pub proof fn lemma_step_add(f: PatchedFile, h: int, k: int, gs: int, fa: int, dq: Seq<&Line>, prev: Option<&Line>,
    out: Seq<LineChange>, o: Seq<Orig>, carve: bool, dq1: Seq<&Line>, p1: &Line, e: LineChange)
    requires
        file_wf(f),
        0 <= h < f.spec_hunks().len(),
        0 <= k < hunk_lines(f, h).len(),
        kind(hunk_lines(f, h)[k]) == Kind::Add,
        inv_group(f, h, k, gs, fa, dq, prev),
        inv_entries(f, h, k, gs, fa, false, out, o, carve),
        dq.len() > 0 ==> dq1.len() == dq.len() - 1 && forall|j: int| 0 <= j < dq1.len() ==> dq1[j] == dq[j + 1], // [Db.step.add.front_of_queue_consumed]
        dq.len() == 0 ==> dq1.len() == 0,
        hunk_lines(f, h)[k].target_line_no == Some(e.line), // [Db.step.add.entry_has_target_line_no]
        e.ranges is Some <==> dq.len() > 0, // [Db.step.add.ranges_iff_paired]
        lc_wf(e), // [Db.step.add.ranges_wf]
        *p1 == hunk_lines(f, h)[k],
    ensures
        inv_group(f, h, k + 1, gs, fa, dq1, Some(p1)),
        inv_entries(f, h, k + 1, gs, fa, false, out.push(e), o.push(Orig { h: h, k: k, e: -1 }), carve),
{
    reveal(post_origin_increasing);
    reveal(mk);
    let ls = hunk_lines(f, h);
    let hk = f.spec_hunks()[h];
    let x = Orig { h: h, k: k, e: -1 };
    let o1 = o.push(x);
    let out1 = out.push(e);
    assert(hunk_wf(hk));
    assert(line_wf(hk, k));
    assert(ct(hk, k + 1) == ct(hk, k) + 1);
    assert(e.line as int == ct(hk, k));
    assert(inv_group(f, h, k + 1, gs, fa, dq1, Some(p1))) by {
        reveal(inv_group);
    }
    reveal(inv_group);
    reveal(inv_entries);
    lemma_has_entry_push(o, x);
    assert(paired(ls, k) <==> dq.len() > 0);
    assert(entry_ok(f, e, x));
    assert forall|i: int| 0 <= i < out1.len() implies entry_ok(f, #[trigger] out1[i], o1[i]) by {
        if i < out.len() { assert(out1[i] == out[i] && o1[i] == o[i]); }
    }
    assert(post_origin_increasing(o1)) by {
        assert forall|i: int, j: int| 0 <= i < j < o1.len() implies orig_lt(#[trigger] o1[i], #[trigger] o1[j]) by {
            assert(o1[i] == o[i]);
            if j < o.len() { assert(o1[j] == o[j]); }
        }
    }
    assert forall|i: int| 0 <= i < o1.len() implies (#[trigger] o1[i]).h < h || (o1[i].h == h && (o1[i].k < gs || fa <= o1[i].k < k + 1)) by {
        if i < o.len() { assert(o1[i] == o[i]); }
    }
    assert forall|ks: int, e2: int| #[trigger] pure_del_run(ls, ks, e2) && e2 < k + 1 implies has_entry(o1, h, ks) by {
        if e2 == k { assert(kind(ls[k]) == Kind::Add); }
    }
    assert(deletion_source_numbering(f, out1, o1)) by {
        assert forall|i: int| 0 <= i < out1.len() && kind(hunk_lines(f, (#[trigger] o1[i]).h)[o1[i].k]) == Kind::Rem
            implies out1[i].line == cs(f.spec_hunks()[o1[i].h], o1[i].k) by {
            if i < out.len() { assert(out1[i] == out[i] && o1[i] == o[i]); }
        }
    }
    if carve {
        assert(strictly_sorted(out1)) by {
            assert forall|i: int, j: int| 0 <= i < j < out1.len() implies (#[trigger] out1[i]).line < (#[trigger] out1[j]).line by {
                assert(out1[i] == out[i]);
                if j < out.len() { assert(out1[j] == out[j]); }
            }
        }
        assert forall|i: int| 0 <= i < out1.len() implies (#[trigger] out1[i]).line < ct(hk, k + 1) by {
            if i < out.len() { assert(out1[i] == out[i]); }
        }
    }
}

/// the post-state of a removed line
pub proof fn lemma_step_rem(f: PatchedFile, h: int, k: int, gs: int, fa: int, dq: Seq<&Line>, prev: Option<&Line>,
    out: Seq<LineChange>, o: Seq<Orig>, carve: bool, p1: &Line)
    requires
        file_wf(f),
        0 <= h < f.spec_hunks().len(),
        0 <= k < hunk_lines(f, h).len(),
        kind(hunk_lines(f, h)[k]) == Kind::Rem,
        inv_group(f, h, k, gs, fa, dq, prev),
        inv_entries(f, h, k, gs, fa, false, out, o, carve),
        *p1 == hunk_lines(f, h)[k],
    ensures
        fa == k,
        inv_group(f, h, k + 1, gs, k + 1, dq.push(p1), Some(p1)),
        inv_entries(f, h, k + 1, gs, k + 1, false, out, o, carve),
{
    reveal(mk);
    let ls = hunk_lines(f, h);
    let hk = f.spec_hunks()[h];
    assert(hunk_wf(hk));
    assert(line_wf(hk, k));
    reveal(inv_group);
    reveal(inv_entries);
    if k > 0 {
        assert(kind(ls[k - 1]) != Kind::Add);
        // a marker line is followed by an added line, never by a removed one
        assert(line_wf(hk, k - 1));
        assert(kind(ls[k - 1]) != Kind::Other);
    }
    assert(fa == k);
    assert(mk(ls, k) == 0 && mk(ls, k + 1) == 0);
    assert(ct(hk, k + 1) == ct(hk, k));
    let dq1 = dq.push(p1);
    assert forall|j: int| 0 <= j < dq1.len() implies *(#[trigger] dq1[j]) == ls[gs + j] by {
        if j < dq.len() { assert(dq1[j] == dq[j]); }
    }
    assert forall|ks: int, e2: int| #[trigger] pure_del_run(ls, ks, e2) && e2 < k + 1 implies has_entry(o, h, ks) by {
        if e2 == k { assert(kind(ls[k]) == Kind::Rem); }
    }
}

/// the post-state of a marker line (`\ No newline at end of file`): the code takes none of its three
/// branches, so the queue and the entries are what they were; only `prev_line` becomes the marker.
/// The marker is no line of either file: the group stays open, its removed lines stay [gs, k), the
/// added lines will start at k + 1.
pub proof fn lemma_step_marker(f: PatchedFile, h: int, k: int, gs: int, fa: int, dq: Seq<&Line>, prev: Option<&Line>,
    out: Seq<LineChange>, o: Seq<Orig>, carve: bool, p1: &Line)
    requires
        file_wf(f),
        0 <= h < f.spec_hunks().len(),
        0 <= k < hunk_lines(f, h).len(),
        kind(hunk_lines(f, h)[k]) == Kind::Other,
        inv_group(f, h, k, gs, fa, dq, prev),
        inv_entries(f, h, k, gs, fa, false, out, o, carve),
        *p1 == hunk_lines(f, h)[k],
    ensures
        fa == k,
        inv_group(f, h, k + 1, gs, k + 1, dq, Some(p1)),
        inv_entries(f, h, k + 1, gs, k + 1, false, out, o, carve),
{
    reveal(mk);
    let ls = hunk_lines(f, h);
    let hk = f.spec_hunks()[h];
    assert(hunk_wf(hk));
    assert(line_wf(hk, k));
    assert(marker_wf(ls, k));
    reveal(inv_group);
    reveal(inv_entries);
    // the line before the marker is a removed line: no added line of the group has been seen
    assert(kind(ls[k - 1]) == Kind::Rem);
    assert(fa == k);
    assert(mk(ls, k) == 0 && mk(ls, k + 1) == 1);
    assert(ct(hk, k + 1) == ct(hk, k));
    assert(fadd(ls, k + 1) == k + 1);
    assert(gstart(ls, k + 1) == gs);
    // no run of removed lines ends at the marker as a PURE deletion: an added line follows it
    assert forall|ks: int, e2: int| #[trigger] pure_del_run(ls, ks, e2) && e2 < k + 1 implies has_entry(o, h, ks) by {
        if e2 == k {
            assert(kind(ls[k + 1]) == Kind::Add);
            assert(next_is(ls, k, Kind::Add));
        }
    }
}

/// what `clear_or_fold_deleted_lines` does at position k (a context line, or the end of the hunk)
pub open spec fn fold_pushes(dq: Seq<&Line>, prev: Option<&Line>) -> bool {
    !(prev matches Some(p) && kind(*p) == Kind::Add) && dq.len() > 0
}

pub open spec fn fold_origin(o: Seq<Orig>, h: int, k: int, gs: int, dq: Seq<&Line>, prev: Option<&Line>) -> Seq<Orig> {
    if fold_pushes(dq, prev) { o.push(Orig { h: h, k: gs, e: k }) } else { o }
}

pub proof fn lemma_step_fold(f: PatchedFile, h: int, k: int, gs: int, fa: int, dq: Seq<&Line>, prev: Option<&Line>,
    out: Seq<LineChange>, o: Seq<Orig>, carve: bool, out1: Seq<LineChange>)
    requires
        file_wf(f),
        0 <= h < f.spec_hunks().len(),
        0 <= k <= hunk_lines(f, h).len(),
        k < hunk_lines(f, h).len() ==> kind(hunk_lines(f, h)[k]) == Kind::Ctx,
        inv_group(f, h, k, gs, fa, dq, prev),
        inv_entries(f, h, k, gs, fa, false, out, o, carve),
        fold_pushes(dq, prev) ==> out1 == out.push(deletion_entry(*dq[0])), // [Db.step.fold.one_entry_for_pure_deletion]
        !fold_pushes(dq, prev) ==> out1 == out, // [Db.step.fold.no_entry_otherwise]
        carve ==> kf1_carve_out(f),
    ensures
        inv_entries(f, h, k, k, k, true, out1, fold_origin(o, h, k, gs, dq, prev), carve),
{
    reveal(post_origin_increasing);
    reveal(mk);
    let ls = hunk_lines(f, h);
    let hk = f.spec_hunks()[h];
    assert(hunk_wf(hk));
    reveal(inv_group);
    reveal(inv_entries);
    let o1 = fold_origin(o, h, k, gs, dq, prev);
    if k > 0 {
        // `prev_line` is read here: it is not a marker line, because a marker line is followed by an
        // added line (and is not the last line of the hunk), while k is a context line or the end
        assert(line_wf(hk, k - 1));
        assert(kind(ls[k - 1]) != Kind::Other);
    }
    assert(mk(ls, k) == 0);
    assert(!next_is(ls, k, Kind::Rem) && !next_is(ls, k, Kind::Add));
    if k > 0 && kind(ls[k - 1]) == Kind::Rem {
        assert(fa == k);
        assert(dq.len() == k - gs);
        assert(*dq[0] == ls[gs]);
        assert(fold_pushes(dq, prev));
        let x = Orig { h: h, k: gs, e: k };
        let e = deletion_entry(*dq[0]);
        assert(o1 == o.push(x));
        lemma_has_entry_push(o, x);
        assert(pure_del_run(ls, gs, k));
        assert(kind(ls[gs]) == Kind::Rem);
        assert(line_wf(hk, gs));
        assert(e.line as int == cs(hk, gs));
        assert(entry_ok(f, e, x));
        assert forall|i: int| 0 <= i < out1.len() implies entry_ok(f, #[trigger] out1[i], o1[i]) by {
            if i < out.len() { assert(out1[i] == out[i] && o1[i] == o[i]); }
        }
        assert(post_origin_increasing(o1)) by {
            assert forall|i: int, j: int| 0 <= i < j < o1.len() implies orig_lt(#[trigger] o1[i], #[trigger] o1[j]) by {
                assert(o1[i] == o[i]);
                if j < o.len() { assert(o1[j] == o[j]); }
            }
        }
        assert forall|i: int| 0 <= i < o1.len() implies (#[trigger] o1[i]).h < h || (o1[i].h == h && o1[i].k < k) by {
            if i < o.len() { assert(o1[i] == o[i]); }
        }
        assert forall|ks: int, e2: int| #[trigger] pure_del_run(ls, ks, e2) && e2 <= k implies has_entry(o1, h, ks) by {
            if e2 == k {
                if ks < gs { assert(kind(ls[gs - 1]) == Kind::Rem); }
                if ks > gs { assert(kind(ls[ks - 1]) == Kind::Rem); }
                assert(ks == gs);
            }
        }
        assert(deletion_source_numbering(f, out1, o1)) by {
            assert forall|i: int| 0 <= i < out1.len() && kind(hunk_lines(f, (#[trigger] o1[i]).h)[o1[i].k]) == Kind::Rem
                implies out1[i].line == cs(f.spec_hunks()[o1[i].h], o1[i].k) by {
                if i < out.len() { assert(out1[i] == out[i] && o1[i] == o[i]); }
            }
        }
        if carve {
            assert(e.line as int == ct(hk, k));
            assert(strictly_sorted(out1)) by {
                assert forall|i: int, j: int| 0 <= i < j < out1.len() implies (#[trigger] out1[i]).line < (#[trigger] out1[j]).line by {
                    assert(out1[i] == out[i]);
                    if j < out.len() { assert(out1[j] == out[j]); }
                }
            }
            assert forall|i: int| 0 <= i < out1.len() implies (#[trigger] out1[i]).line < ct(hk, k) || out1[i].line == ct(hk, k) by {
                if i < out.len() { assert(out1[i] == out[i]); }
            }
        }
    } else {
        assert(!fold_pushes(dq, prev)) by {
            if k > 0 {
                if kind(ls[k - 1]) == Kind::Ctx { assert(gs == k); }
            }
        }
        assert(o1 == o && out1 == out);
        assert forall|ks: int, e2: int| #[trigger] pure_del_run(ls, ks, e2) && e2 <= k implies has_entry(o1, h, ks) by {
            if e2 == k { assert(kind(ls[k - 1]) == Kind::Rem); }
        }
    }
}

/// after the fold at a context line k: position k + 1, no open group
pub proof fn lemma_closed_to_inner(f: PatchedFile, h: int, k: int, out: Seq<LineChange>, o: Seq<Orig>, carve: bool, dq: Seq<&Line>, p1: &Line)
    requires
        file_wf(f),
        0 <= h < f.spec_hunks().len(),
        0 <= k < hunk_lines(f, h).len(),
        kind(hunk_lines(f, h)[k]) == Kind::Ctx,
        inv_entries(f, h, k, k, k, true, out, o, carve),
        dq.len() == 0, // [Db.step.fold.queue_cleared]
        *p1 == hunk_lines(f, h)[k],
    ensures
        inv_group(f, h, k + 1, k + 1, k + 1, dq, Some(p1)),
        inv_entries(f, h, k + 1, k + 1, k + 1, false, out, o, carve),
{
    reveal(mk);
    let hk = f.spec_hunks()[h];
    assert(ct(hk, k + 1) == ct(hk, k) + 1);
    reveal(inv_group);
    reveal(inv_entries);
}

/// after the fold at the end of hunk h
pub proof fn lemma_closed_to_outer(f: PatchedFile, h: int, out: Seq<LineChange>, o: Seq<Orig>, carve: bool)
    requires
        file_wf(f),
        0 <= h < f.spec_hunks().len(),
        inv_entries(f, h, hunk_lines(f, h).len() as int, hunk_lines(f, h).len() as int, hunk_lines(f, h).len() as int, true, out, o, carve),
    ensures
        inv_outer(f, h + 1, out, o, carve),
{
    reveal(inv_entries);
    reveal(inv_outer);
    let n = hunk_lines(f, h).len() as int;
    assert forall|h2: int, k2: int| 0 <= h2 < h + 1 && 0 <= k2 < hunk_lines(f, h2).len()
        && kind(#[trigger] hunk_lines(f, h2)[k2]) == Kind::Add implies has_entry(o, h2, k2) by {}
    assert forall|h2: int, ks: int, e: int| 0 <= h2 < h + 1 && #[trigger] pure_del_run(hunk_lines(f, h2), ks, e) implies has_entry(o, h2, ks) by {}
    if carve && h + 1 < f.spec_hunks().len() {
        assert(hunk_gap(f, h));
        assert(tgt_first(f.spec_hunks()[h + 1]) > ct(f.spec_hunks()[h], n));
    }
}

pub proof fn lemma_outer_to_post(f: PatchedFile, out: Seq<LineChange>, o: Seq<Orig>, carve: bool)
    requires
        inv_outer(f, f.spec_hunks().len() as int, out, o, carve),
    ensures
        post_every_added(f, o),
        post_every_pure_deletion(f, o),
        post_nothing_else(f, out, o),
        post_origin_increasing(o),
        deletion_source_numbering(f, out, o),
        carve ==> strictly_sorted(out),
{
    reveal(inv_outer);
}

// ---- KF2: every removed line is accounted for (under the carve-out) --------------------------------
/// start of the run of removed lines that contains position k
pub open spec fn rem_start(ls: Seq<Line>, k: int) -> int
    decreases k
{
    if k <= 0 || kind(ls[k - 1]) != Kind::Rem { k } else { rem_start(ls, k - 1) }
}
/// first position >= k that is not a removed line
pub open spec fn rem_end(ls: Seq<Line>, k: int) -> int
    decreases ls.len() - k
{
    if k >= ls.len() || kind(ls[k]) != Kind::Rem { k } else { rem_end(ls, k + 1) }
}
/// first position >= k that is not an added line
pub open spec fn add_end(ls: Seq<Line>, k: int) -> int
    decreases ls.len() - k
{
    if k >= ls.len() || kind(ls[k]) != Kind::Add { k } else { add_end(ls, k + 1) }
}

pub proof fn lemma_rem_start(ls: Seq<Line>, k: int)
    requires 0 <= k < ls.len(), kind(ls[k]) == Kind::Rem,
    ensures
        0 <= rem_start(ls, k) <= k,
        rem_start(ls, k) == 0 || kind(ls[rem_start(ls, k) - 1]) != Kind::Rem,
        forall|j: int| rem_start(ls, k) <= j <= k ==> kind(#[trigger] ls[j]) == Kind::Rem,
    decreases k
{
    if k > 0 && kind(ls[k - 1]) == Kind::Rem { lemma_rem_start(ls, k - 1); }
}

pub proof fn lemma_rem_end(ls: Seq<Line>, k: int)
    requires 0 <= k <= ls.len(),
    ensures
        k <= rem_end(ls, k) <= ls.len(),
        rem_end(ls, k) == ls.len() || kind(ls[rem_end(ls, k)]) != Kind::Rem,
        forall|j: int| k <= j < rem_end(ls, k) ==> kind(#[trigger] ls[j]) == Kind::Rem,
    decreases ls.len() - k
{
    if k < ls.len() && kind(ls[k]) == Kind::Rem { lemma_rem_end(ls, k + 1); }
}

pub proof fn lemma_add_end(ls: Seq<Line>, k: int)
    requires 0 <= k <= ls.len(),
    ensures
        k <= add_end(ls, k) <= ls.len(),
        add_end(ls, k) == ls.len() || kind(ls[add_end(ls, k)]) != Kind::Add,
        forall|j: int| k <= j < add_end(ls, k) ==> kind(#[trigger] ls[j]) == Kind::Add,
    decreases ls.len() - k
{
    if k < ls.len() && kind(ls[k]) == Kind::Add { lemma_add_end(ls, k + 1); }
}

/// Every removed line lies in a replace group or in a pure-deletion run; under the KF2 carve-out
/// the former are all paired, the latter have their entry.
pub proof fn lemma_removed_accounted(f: PatchedFile, out: Seq<LineChange>, o: Seq<Orig>)
    requires
        file_wf(f),
        kf2_carve_out(f),
        post_every_pure_deletion(f, o),
    ensures
        post_removed_accounted(f, out, o),
{
    reveal(mk);
    assert forall|h: int, k: int| 0 <= h < f.spec_hunks().len() && 0 <= k < hunk_lines(f, h).len()
        && kind(#[trigger] hunk_lines(f, h)[k]) == Kind::Rem implies removed_accounted(f, out, o, h, k) by {
        let ls = hunk_lines(f, h);
        let hk = f.spec_hunks()[h];
        assert(hunk_wf(hk));
        lemma_rem_start(ls, k);
        lemma_rem_end(ls, k);
        let gs = rem_start(ls, k);
        let re = rem_end(ls, k);
        assert forall|j: int| gs <= j < re implies kind(#[trigger] ls[j]) == Kind::Rem by {}
        assert(k < re);
        if re < ls.len() && kind(ls[re]) == Kind::Other {
            // a marker line after the run: no line, the added lines behind it belong to the group
            assert(line_wf(hk, re));
            let fa = re + 1;
            lemma_add_end(ls, fa);
            let ge = add_end(ls, fa);
            assert(kind(ls[fa]) == Kind::Add);
            assert(ge > fa);
            assert(mk(ls, fa) == 1);
            assert(replace_group(ls, gs, fa, ge));
            assert((fa - mk(ls, fa)) - gs <= ge - fa);
        } else {
            let fa = re;
            lemma_add_end(ls, fa);
            let ge = add_end(ls, fa);
            assert(kind(ls[fa - 1]) == Kind::Rem);
            assert(mk(ls, fa) == 0);
            if ge == fa {
                assert(!next_is(ls, fa, Kind::Rem) && !next_is(ls, fa, Kind::Add));
                assert(pure_del_run(ls, gs, fa));
                assert(has_entry(o, h, gs));
            } else {
                assert(replace_group(ls, gs, fa, ge));
                assert((fa - mk(ls, fa)) - gs <= ge - fa);
            }
        }
    }
}

// ---- a marker line is no line: the specification of the hunk WITHOUT its marker line -------------
// NOT used by the proof of `line_changes`. These lemmas check the MEANING of the specification layer
// (prelude/diff_lines_spec.rs, "marker lines"): for a well-shaped hunk `ls` (`shape_wf`, implied by
// `hunk_wf`) with a marker line at position m, every specification function that looks at the lines
// says about `ls` what it says about `ls.remove(m)` - the same hunk with the marker line deleted -
// position by position. `dn(m, k)` is position k of `ls` seen in `ls.remove(m)`; the two cursor
// positions m and m + 1 (before / after the marker) are the same position there.

/// the part of `line_wf` that only looks at the kinds of the lines
pub open spec fn shape_at(ls: Seq<Line>, k: int) -> bool {
    &&& kind(ls[k]) == Kind::Other ==> marker_wf(ls, k)
    &&& k > 0 && kind(ls[k]) == Kind::Rem ==> kind(ls[k - 1]) != Kind::Add
}

pub open spec fn shape_wf(ls: Seq<Line>) -> bool {
    forall|k: int| 0 <= k < ls.len() ==> #[trigger] shape_at(ls, k)
}

pub open spec fn dn(m: int, k: int) -> int {
    if k > m { k - 1 } else { k }
}

pub proof fn lemma_hunk_wf_shape(h: Hunk)
    requires hunk_wf(h),
    ensures shape_wf(h.spec_lines()),
{
    let ls = h.spec_lines();
    assert forall|k: int| 0 <= k < ls.len() implies #[trigger] shape_at(ls, k) by {
        assert(line_wf(h, k));
    }
}

/// `cs` / `ct` (hence `hunk_gap`, the header-length clauses of `hunk_wf`, `kf1_carve_out` and
/// `post_deletion_new_numbering`): the cursors of the hunk are the cursors of the hunk without the marker
pub proof fn lemma_marker_is_no_line_cursors(h: Hunk, h2: Hunk, m: int, k: int)
    requires
        0 <= m < h.spec_lines().len(),
        kind(h.spec_lines()[m]) == Kind::Other,
        h2.spec_lines() == h.spec_lines().remove(m),
        h2.source_start == h.source_start && h2.source_length == h.source_length,
        h2.target_start == h.target_start && h2.target_length == h.target_length,
        0 <= k <= h.spec_lines().len(),
    ensures
        cs(h2, dn(m, k)) == cs(h, k),
        ct(h2, dn(m, k)) == ct(h, k),
    decreases k
{
    let ls = h.spec_lines();
    ls.remove_ensures(m);
    if k > 0 {
        lemma_marker_is_no_line_cursors(h, h2, m, k - 1);
        if k - 1 < m {
            assert(h2.spec_lines()[k - 1] == ls[k - 1]);
        } else if k - 1 > m {
            assert(h2.spec_lines()[k - 2] == ls[k - 1]);
        }
    }
}

pub proof fn lemma_gstart(ls: Seq<Line>, k: int)
    requires 0 <= k <= ls.len(),
    ensures
        0 <= gstart(ls, k) <= k,
        gstart(ls, k) == 0 || kind(ls[gstart(ls, k) - 1]) == Kind::Ctx,
        forall|j: int| gstart(ls, k) <= j < k ==> kind(#[trigger] ls[j]) != Kind::Ctx,
    decreases k
{
    if k > 0 && kind(ls[k - 1]) != Kind::Ctx { lemma_gstart(ls, k - 1); }
}

pub proof fn lemma_fadd(ls: Seq<Line>, k: int)
    requires 0 <= k <= ls.len(),
    ensures
        0 <= fadd(ls, k) <= k,
        fadd(ls, k) == 0 || kind(ls[fadd(ls, k) - 1]) != Kind::Add,
        forall|j: int| fadd(ls, k) <= j < k ==> kind(#[trigger] ls[j]) == Kind::Add,
    decreases k
{
    if k > 0 && kind(ls[k - 1]) == Kind::Add { lemma_fadd(ls, k - 1); }
}

/// `gstart` / `fadd`: the group of changed lines and its run of added lines are those of the hunk
/// without the marker
pub proof fn lemma_marker_is_no_line_groups(ls: Seq<Line>, m: int, k: int)
    requires
        shape_wf(ls),
        0 <= m < ls.len(),
        kind(ls[m]) == Kind::Other,
        0 <= k <= ls.len(),
    ensures
        gstart(ls.remove(m), dn(m, k)) == dn(m, gstart(ls, k)),
        fadd(ls.remove(m), dn(m, k)) == dn(m, fadd(ls, k)),
    decreases k
{
    let ls2 = ls.remove(m);
    ls.remove_ensures(m);
    assert(shape_at(ls, m));
    if k > 0 {
        lemma_marker_is_no_line_groups(ls, m, k - 1);
        lemma_gstart(ls, k - 1);
        lemma_fadd(ls, k - 1);
        if k <= m {
            assert(ls2[k - 1] == ls[k - 1]);
        } else if k == m + 1 {
            assert(ls2[m - 1] == ls[m - 1]);
        } else {
            assert(ls2[k - 2] == ls[k - 1]);
        }
    }
}

/// inside a group of changed lines, everything after an added line is an added line
pub proof fn lemma_adds_to_group_end(ls: Seq<Line>, a: int, b: int)
    requires
        shape_wf(ls),
        0 <= a < b <= ls.len(),
        kind(ls[a]) == Kind::Add,
        forall|j: int| a <= j < b ==> kind(#[trigger] ls[j]) != Kind::Ctx,
    ensures
        forall|j: int| a <= j < b ==> kind(#[trigger] ls[j]) == Kind::Add,
    decreases b - a
{
    if b > a + 1 {
        lemma_adds_to_group_end(ls, a, b - 1);
        assert(kind(ls[b - 2]) == Kind::Add);
        assert(shape_at(ls, b - 1));
    }
}

/// `paired`: the added line at position j is paired in the hunk iff it is paired in the hunk without
/// the marker
pub proof fn lemma_marker_is_no_line_paired(ls: Seq<Line>, m: int, j: int)
    requires
        shape_wf(ls),
        0 <= m < ls.len(),
        kind(ls[m]) == Kind::Other,
        0 <= j < ls.len(),
        kind(ls[j]) == Kind::Add,
    ensures
        paired(ls.remove(m), dn(m, j)) == paired(ls, j),
{
    reveal(mk);
    let ls2 = ls.remove(m);
    ls.remove_ensures(m);
    assert(shape_at(ls, m));
    let f = fadd(ls, j);
    let g = gstart(ls, f);
    lemma_fadd(ls, j);
    lemma_gstart(ls, f);
    lemma_marker_is_no_line_groups(ls, m, j);
    lemma_marker_is_no_line_groups(ls, m, f);
    if j < m {
        if f > 0 { assert(ls2[f - 1] == ls[f - 1]); }
    } else {
        // the marker is not an added line: the run of added lines before j starts behind it
        if f <= m { assert(kind(ls[m]) == Kind::Add); }
        assert(f >= m + 1);
        if f == m + 1 {
            assert(ls2[m - 1] == ls[m - 1]);
            assert(g <= m);
        } else {
            assert(ls2[f - 2] == ls[f - 1]);
            if g <= m {
                // the group would reach from the marker's added line to a line that is not an added line
                lemma_adds_to_group_end(ls, m + 1, f);
                assert(kind(ls[f - 1]) == Kind::Add);
            }
            assert(g != m + 1);
        }
    }
}

/// `pure_del_run` (hence `kf1_carve_out`, `post_every_pure_deletion`, `entry_ok`): the pure-deletion
/// runs of the hunk are those of the hunk without the marker
pub proof fn lemma_marker_is_no_line_pure_del_run(ls: Seq<Line>, m: int, ks: int, e: int)
    requires
        shape_wf(ls),
        0 <= m < ls.len(),
        kind(ls[m]) == Kind::Other,
        0 <= ks < e <= ls.len(),
    ensures
        pure_del_run(ls.remove(m), dn(m, ks), dn(m, e)) == pure_del_run(ls, ks, e),
{
    let ls2 = ls.remove(m);
    ls.remove_ensures(m);
    assert(shape_at(ls, m));
    assert(ls2[m - 1] == ls[m - 1]);
    assert(ls2[m] == ls[m + 1]);
    if ks <= m && m < e {
        // a run across the marker is no run of removed lines, with or without the marker
        assert(kind(ls[m]) != Kind::Rem);
        if e > m + 1 {
            assert(kind(ls2[m]) != Kind::Rem);
        } else if ks < m {
            assert(next_is(ls2, m, Kind::Add));
        }
    } else if e <= m {
        if ks > 0 { assert(ls2[ks - 1] == ls[ks - 1]); }
        assert forall|j: int| ks <= j < e implies ls2[j] == ls[j] by {}
        if e < m {
            assert(ls2[e] == ls[e]);
            if kind(ls[e]) == Kind::Other {
                assert(shape_at(ls, e));
                assert(e + 1 < m);
                assert(ls2[e + 1] == ls[e + 1]);
            }
        }
        if pure_del_run(ls, ks, e) {
            assert forall|j: int| ks <= j < e implies kind(#[trigger] ls2[j]) == Kind::Rem by { assert(ls2[j] == ls[j]); }
        }
        if pure_del_run(ls2, ks, e) {
            assert forall|j: int| ks <= j < e implies kind(#[trigger] ls[j]) == Kind::Rem by { assert(ls2[j] == ls[j]); }
        }
    } else {
        // ks > m: the run lies behind the marker
        if ks == m + 1 {
            assert(kind(ls[ks]) == Kind::Add);
            assert(kind(ls2[m]) == Kind::Add);
        } else {
            assert(ls2[ks - 2] == ls[ks - 1]);
            if e < ls.len() {
                assert(ls2[e - 1] == ls[e]);
                if e + 1 < ls.len() { assert(ls2[e] == ls[e + 1]); }
            }
            if pure_del_run(ls, ks, e) {
                assert forall|j: int| ks - 1 <= j < e - 1 implies kind(#[trigger] ls2[j]) == Kind::Rem by { assert(ls2[j] == ls[j + 1]); }
            }
            if pure_del_run(ls2, ks - 1, e - 1) {
                assert forall|j: int| ks <= j < e implies kind(#[trigger] ls[j]) == Kind::Rem by { assert(ls2[j - 1] == ls[j]); }
            }
        }
    }
}

/// `replace_group` (hence `kf2_carve_out`, `removed_accounted`): the replace groups of the hunk are
/// those of the hunk without the marker, with the same numbers of removed and of added lines.
/// (fa != m: the cursor positions m and m + 1 are one position without the marker, and only m + 1 -
/// behind the marker - can be the start of a run of added lines.)
pub proof fn lemma_marker_is_no_line_replace_group(ls: Seq<Line>, m: int, gs: int, fa: int, ge: int)
    requires
        shape_wf(ls),
        0 <= m < ls.len(),
        kind(ls[m]) == Kind::Other,
        0 <= gs < fa < ge <= ls.len(),
        fa != m,
    ensures
        replace_group(ls.remove(m), dn(m, gs), dn(m, fa), dn(m, ge)) == replace_group(ls, gs, fa, ge),
        replace_group(ls, gs, fa, ge) ==> (dn(m, fa) - mk(ls.remove(m), dn(m, fa))) - dn(m, gs) == (fa - mk(ls, fa)) - gs
            && dn(m, ge) - dn(m, fa) == ge - fa,
{
    reveal(mk);
    let ls2 = ls.remove(m);
    ls.remove_ensures(m);
    assert(shape_at(ls, m));
    assert(ls2[m - 1] == ls[m - 1]);
    assert(ls2[m] == ls[m + 1]);
    let (gs2, fa2, ge2) = (dn(m, gs), dn(m, fa), dn(m, ge));
    if fa < m {
        // the group's removed lines and first added line lie before the marker
        assert(ls2[fa - 1] == ls[fa - 1]);
        assert(ls2[fa] == ls[fa]);
        if gs > 0 { assert(ls2[gs - 1] == ls[gs - 1]); }
        if ge >= m {
            // ... an added line directly before the marker? it follows a removed line
            assert(kind(ls[m - 1]) == Kind::Rem);
            assert(kind(ls2[m - 1]) == Kind::Rem);
        } else {
            assert(ls2[ge] == ls[ge] || ge + 1 == m);
            if ge + 1 == m { assert(ls2[ge] == ls[ge]); }
        }
        if replace_group(ls, gs, fa, ge) {
            assert(ge < m);
            assert forall|j: int| gs2 <= j < fa2 - mk(ls2, fa2) implies kind(#[trigger] ls2[j]) == Kind::Rem by { assert(ls2[j] == ls[j]); }
            assert forall|j: int| fa2 <= j < ge2 implies kind(#[trigger] ls2[j]) == Kind::Add by { assert(ls2[j] == ls[j]); }
        }
        if replace_group(ls2, gs2, fa2, ge2) {
            assert(ge < m);
            assert forall|j: int| gs <= j < fa - mk(ls, fa) implies kind(#[trigger] ls[j]) == Kind::Rem by { assert(ls2[j] == ls[j]); }
            assert forall|j: int| fa <= j < ge implies kind(#[trigger] ls[j]) == Kind::Add by { assert(ls2[j] == ls[j]); }
        }
    } else if fa == m + 1 {
        // the marker's own group: removed lines [gs, m), marker, added lines [m + 1, ge)
        assert(mk(ls, fa) == 1 && mk(ls2, fa2) == 0);
        if gs > 0 && gs < m { assert(ls2[gs - 1] == ls[gs - 1]); }
        if ge < ls.len() { assert(ls2[ge - 1] == ls[ge]); }
        if replace_group(ls, gs, fa, ge) {
            assert forall|j: int| gs2 <= j < fa2 - mk(ls2, fa2) implies kind(#[trigger] ls2[j]) == Kind::Rem by { assert(ls2[j] == ls[j]); }
            assert forall|j: int| fa2 <= j < ge2 implies kind(#[trigger] ls2[j]) == Kind::Add by { assert(ls2[j] == ls[j + 1]); }
        }
        if replace_group(ls2, gs2, fa2, ge2) {
            assert forall|j: int| gs <= j < fa - mk(ls, fa) implies kind(#[trigger] ls[j]) == Kind::Rem by { assert(ls2[j] == ls[j]); }
            assert forall|j: int| fa <= j < ge implies kind(#[trigger] ls[j]) == Kind::Add by { assert(ls2[j - 1] == ls[j]); }
        }
    } else {
        // fa > m + 1
        assert(ls2[fa - 2] == ls[fa - 1]);
        assert(mk(ls, fa) == mk(ls2, fa2));
        if ge < ls.len() { assert(ls2[ge - 1] == ls[ge]); }
        if gs <= m + 1 {
            // removed lines from the marker (or before, or the added line behind it) on: no replace group either way
            if gs <= m {
                assert(kind(ls[m]) != Kind::Rem);
                assert(kind(ls2[m]) != Kind::Rem);
                assert(m < fa - mk(ls, fa));
                assert(m < fa2 - mk(ls2, fa2));
            } else {
                assert(kind(ls[gs]) == Kind::Add);
                assert(kind(ls2[gs2]) == Kind::Add);
                assert(gs < fa - mk(ls, fa));
                assert(gs2 < fa2 - mk(ls2, fa2));
            }
        } else {
            assert(ls2[gs - 2] == ls[gs - 1]);
            if replace_group(ls, gs, fa, ge) {
                assert forall|j: int| gs2 <= j < fa2 - mk(ls2, fa2) implies kind(#[trigger] ls2[j]) == Kind::Rem by { assert(ls2[j] == ls[j + 1]); }
                assert forall|j: int| fa2 <= j < ge2 implies kind(#[trigger] ls2[j]) == Kind::Add by { assert(ls2[j] == ls[j + 1]); }
            }
            if replace_group(ls2, gs2, fa2, ge2) {
                assert forall|j: int| gs <= j < fa - mk(ls, fa) implies kind(#[trigger] ls[j]) == Kind::Rem by { assert(ls2[j - 1] == ls[j]); }
                assert forall|j: int| fa <= j < ge implies kind(#[trigger] ls[j]) == Kind::Add by { assert(ls2[j - 1] == ls[j]); }
            }
        }
    }
}
