// T-ext: stand-ins for the `unidiff` crate (single-file Verus cannot link crates; DESIGN 2.9).
// The type definitions and the bodies of the accessors are pasted from the *locked* version's
// source in the cargo registry (`registry:` scheme of the extractor), not retyped. The three
// `Line::is_*` predicates compare `&str == &String`, which Verus accepts but leaves unspecified
// (README), so they are `external_body` with the meaning read off their one-line bodies.

//@item file=registry:unidiff-0.4.0/src/lib.rs kind=const name=LINE_TYPE_ADDED
//@item file=registry:unidiff-0.4.0/src/lib.rs kind=const name=LINE_TYPE_REMOVED
//@item file=registry:unidiff-0.4.0/src/lib.rs kind=const name=LINE_TYPE_CONTEXT

//@item file=registry:unidiff-0.4.0/src/lib.rs kind=struct name=Line
//@item file=registry:unidiff-0.4.0/src/lib.rs kind=struct name=Hunk
//@item file=registry:unidiff-0.4.0/src/lib.rs kind=struct name=PatchedFile

pub enum Kind { Ctx, Add, Rem, Other }

/// kind of a diff line, derived from `line_type` in the order the code asks (`is_added`, then
/// `is_removed`, then `is_context`); `Other` is e.g. the `\ No newline at end of file` marker.
pub open spec fn kind(l: Line) -> Kind {
    if l.line_type@ == LINE_TYPE_ADDED@ { Kind::Add }
    else if l.line_type@ == LINE_TYPE_REMOVED@ { Kind::Rem }
    else if l.line_type@ == LINE_TYPE_CONTEXT@ { Kind::Ctx }
    else { Kind::Other }
}

pub proof fn lemma_line_types_distinct()
    ensures
        LINE_TYPE_ADDED@ != LINE_TYPE_REMOVED@,
        LINE_TYPE_ADDED@ != LINE_TYPE_CONTEXT@,
        LINE_TYPE_REMOVED@ != LINE_TYPE_CONTEXT@,
{
    reveal_strlit("+"); reveal_strlit("-"); reveal_strlit(" ");
    assert("+"@[0] == '+');
    assert("-"@[0] == '-');
    assert(" "@[0] == ' ');
}

impl Line {
#[verifier::external_body]
//@unit id=X.is_added file=registry:unidiff-0.4.0/src/lib.rs fn=<<impl Line::is_added>> ret=r
//@contract
        ensures r == (self.line_type@ == LINE_TYPE_ADDED@),
//@end
#[verifier::external_body]
//@unit id=X.is_removed file=registry:unidiff-0.4.0/src/lib.rs fn=<<impl Line::is_removed>> ret=r
//@contract
        ensures r == (self.line_type@ == LINE_TYPE_REMOVED@),
//@end
#[verifier::external_body]
//@unit id=X.is_context file=registry:unidiff-0.4.0/src/lib.rs fn=<<impl Line::is_context>> ret=r
//@contract
        ensures r == (self.line_type@ == LINE_TYPE_CONTEXT@),
//@end
}

impl Hunk {
    pub closed spec fn spec_lines(&self) -> Seq<Line> { self.lines@ }
//@unit id=X.lines file=registry:unidiff-0.4.0/src/lib.rs fn=<<impl Hunk::lines>> ret=r
//@contract
        ensures r@ == self.spec_lines(),
//@end
}

/// `PatchedFile::is_removed_file` as a predicate (its body is verified against this below)
pub open spec fn removed_file(f: PatchedFile) -> bool {
    f.spec_hunks().len() == 1 && f.spec_hunks()[0].target_start == 0 && f.spec_hunks()[0].target_length == 0
}

impl PatchedFile {
    pub closed spec fn spec_hunks(&self) -> Seq<Hunk> { self.hunks@ }
//@unit id=X.is_removed_file file=registry:unidiff-0.4.0/src/lib.rs fn=<<impl PatchedFile::is_removed_file>> ret=r
//@contract
        ensures r == removed_file(*self),
//@end
//@unit id=X.hunks file=registry:unidiff-0.4.0/src/lib.rs fn=<<impl PatchedFile::hunks>> ret=r
//@contract
        ensures r@ == self.spec_hunks(),
//@end
    /// `PatchedFile::path` ("patched file relative path"): an uninterpreted function of the file
    /// entry — it is computed from source_file/target_file by unidiff, not the diff's target path.
    pub uninterp spec fn spec_path(&self) -> Seq<char>;
#[verifier::external_body]
//@unit id=X.path file=registry:unidiff-0.4.0/src/lib.rs fn=<<impl PatchedFile::path>> ret=r
//@contract
        ensures r@ == self.spec_path(),
//@end
}
