// Group `blocksel`, unit B6 (`parser_for_file_path`, `try_parser_for_extension`): stand-ins, string
// specification functions and E13 shims. Included *inside* the group's `verus! { .. }` block.
// Needs prelude/blocks_ax.rs.

// ---- `&Path` ------------------------------------------------------------------------------------
// Verus 0.2026.09.13 cannot have `std::path::Path` as an external type in a file that also calls
// `HashMap::get` (its trait-conflict checker rejects std's `impl PartialEq<Cow<'_, Path>> for Path`:
// "the trait bound `Path: Clone` is not satisfied"). A borrowed path is therefore modelled by a
// borrowed `PathBuf` (T-ext stand-in): `Path` and `PathBuf` are the borrowed and the owned form of the
// same value, `PathBuf: Deref<Target = Path>`, and every `Path` method used by the units
// (`file_name`) is also callable on `&PathBuf` with the same result. `PathBuf::as_path` is the identity.
pub type Path = PathBuf;

/// `file_path.as_path()` (E13: identity under the stand-in above)
pub fn verif_as_path(p: &PathBuf) -> (r: &Path)
    ensures *r == *p,
{ p }

// ---- `LanguageParser = Rc<RefCell<Box<dyn BlocksParser>>>` ---------------------------------------
// `RefCell` and `dyn` behind `Rc` are outside Verus; the alias is replaced by an opaque stand-in
// (T-ext). B6 only moves references to it around; B5 calls `borrow_mut().parse(..)` on it (see
// prelude/blocks_parse.rs).
#[verifier::external_body]
pub struct LanguageParser { p: std::rc::Rc<std::cell::RefCell<Box<dyn std::any::Any>>> }

// ---- the base name of a path --------------------------------------------------------------------
/// The base name of a path as text: the final component, converted lossily when it is not valid
/// Unicode (`OsStr::to_string_lossy`); `None` only if the path has no final component (it ends in
/// `..` or is a root; std doc of `Path::file_name`). C16 speaks about "the file name's extension ...
/// whatever else the base name or directories contain": an invalid byte elsewhere in the name does not
/// take the extension away. Uninterpreted: B6 is proved for every such function, so "whatever else the
/// directories contain" is the fact that only `base_name` is ever read.
pub uninterp spec fn base_name(p: PathBuf) -> Option<Seq<char>>;
/// whether the final component is valid Unicode (`OsStr::to_str` is `Some`)
pub uninterp spec fn base_name_is_unicode(p: PathBuf) -> bool;

pub open spec fn blocks_opt_view(o: Option<&str>) -> Option<Seq<char>> {
    match o { Some(x) => Some(x@), None => None }
}

pub open spec fn blocks_opt_string_view(o: Option<String>) -> Option<Seq<char>> {
    match o { Some(x) => Some(x@), None => None }
}

/// E13 shim for `p.file_name()?.to_string_lossy()` (a `Cow<str>`, outside the subset: handed over as a
/// `String`), body = the identical std calls.
#[verifier::external_body]
pub fn verif_path_base_name_lossy(p: &Path) -> (r: Option<String>)
    ensures blocks_opt_string_view(r) == base_name(*p),
{ Some(p.file_name()?.to_string_lossy().into_owned()) }

/// E13 shim for `p.file_name()?.to_str()`: the STRICT conversion, `None` for a name that is not valid
/// Unicode (std doc of `OsStr::to_str`) -- a different function from the lossy one above, so that code
/// which uses it where C16 needs the extension of every name does not verify by accident.
#[verifier::external_body]
pub fn verif_path_base_name<'a>(p: &'a Path) -> (r: Option<&'a str>)
    ensures blocks_opt_view(r) == (if base_name_is_unicode(*p) { base_name(*p) } else { None }),
{ p.file_name()?.to_str() }

// ---- byte offsets of a `str` (columns of `match_indices` / slicing are BYTE offsets) ------------
/// number of bytes of the UTF-8 encoding of one char (std doc of `char::len_utf8`)
pub open spec fn utf8_len(c: char) -> nat {
    if (c as u32) < 0x80 { 1 } else if (c as u32) < 0x800 { 2 } else if (c as u32) < 0x10000 { 3 } else { 4 }
}

/// byte offset at which the char with index `k` starts (`k == s.len()`: the length in bytes)
pub open spec fn byte_off(s: Seq<char>, k: int) -> nat
    decreases k
{
    if k <= 0 { 0 } else { byte_off(s, k - 1) + utf8_len(s[k - 1]) }
}

/// the char indices at which `c` occurs in `s`, ascending
pub open spec fn char_positions(s: Seq<char>, c: char) -> Seq<int>
    decreases s.len()
{
    if s.len() == 0 {
        Seq::empty()
    } else if s.last() == c {
        char_positions(s.drop_last(), c).push(s.len() - 1)
    } else {
        char_positions(s.drop_last(), c)
    }
}

/// `char_positions` lists exactly the occurrences, each once, in ascending order.
pub proof fn lemma_char_positions(s: Seq<char>, c: char)
    ensures
        forall|j: int| 0 <= j < char_positions(s, c).len() ==> 0 <= (#[trigger] char_positions(s, c)[j]) < s.len() && s[char_positions(s, c)[j]] == c,
        forall|j: int, l: int| 0 <= j < l < char_positions(s, c).len() ==> (#[trigger] char_positions(s, c)[j]) < (#[trigger] char_positions(s, c)[l]),
        forall|k: int| 0 <= k < s.len() && #[trigger] s[k] == c ==> char_positions(s, c).contains(k),
    decreases s.len(),
{
    if s.len() > 0 {
        let t = s.drop_last();
        lemma_char_positions(t, c);
        let p = char_positions(t, c);
        let q = char_positions(s, c);
        assert forall|j: int| 0 <= j < q.len() implies 0 <= (#[trigger] q[j]) < s.len() && s[q[j]] == c by {
            if j < p.len() { assert(q[j] == p[j]); assert(t[p[j]] == s[p[j]]); }
        }
        assert forall|j: int, l: int| 0 <= j < l < q.len() implies (#[trigger] q[j]) < (#[trigger] q[l]) by {
            assert(q[j] == p[j]);
            if l < p.len() { assert(q[l] == p[l]); }
        }
        assert forall|k: int| 0 <= k < s.len() && #[trigger] s[k] == c implies q.contains(k) by {
            if k < t.len() {
                assert(t[k] == s[k]);
                let j = choose|j: int| 0 <= j < p.len() && p[j] == k;
                assert(q[j] == k);
            } else {
                assert(q[q.len() - 1] == k);
            }
        }
    }
}

/// E13 shim for `s.match_indices(c)` with a `char` pattern, collected: std doc "An iterator over the
/// disjoint matches of a pattern within this string slice as well as the index that the match starts
/// at" — for a `char` pattern: one item per occurrence, in order, `(byte offset, the matched text)`.
/// A str is at most `isize::MAX` bytes long (std doc of slices), so every offset is below that.
#[verifier::external_body]
pub fn verif_match_indices_char<'a>(s: &'a str, c: char) -> (r: Vec<(usize, &'a str)>)
    ensures
        r@.len() == char_positions(s@, c).len(),
        forall|j: int| 0 <= j < r@.len() ==> (#[trigger] r@[j]).0 == byte_off(s@, char_positions(s@, c)[j]) && r@[j].1@ == seq![c]
            && r@[j].0 < isize::MAX,
{ s.match_indices(c).collect() }

/// E13 shim for `<iterator>.rev()` applied to the collected items (std doc of
/// `DoubleEndedIterator::rev`: "Reverses an iterator's direction").
#[verifier::external_body]
pub fn verif_iter_rev<T>(v: Vec<T>) -> (r: Vec<T>)
    ensures
        r@.len() == v@.len(),
        forall|j: int| 0 <= j < r@.len() ==> #[trigger] r@[j] == v@[v@.len() - 1 - j],
{ v.into_iter().rev().collect() }

/// `b` is the byte offset of a char boundary of `s` (std `str::is_char_boundary`)
pub open spec fn is_char_boundary(s: Seq<char>, b: int) -> bool {
    exists|k: int| 0 <= k <= s.len() && #[trigger] byte_off(s, k) == b
}

/// E13 shim for `&s[b..]`. std doc of `impl Index<RangeFrom<usize>> for str`: "Returns a slice of the
/// given string from the byte range [begin, len). Panics if begin does not point to the starting byte
/// offset of a character (as defined by is_char_boundary), or if begin > len." The panic condition is
/// the precondition, so the caller must prove it.
#[verifier::external_body]
pub fn verif_str_index<'a>(s: &'a str, range: RangeFrom<usize>) -> (r: &'a str)
    requires
        is_char_boundary(s@, range.start as int), // [std.str_index_from.pre.char_boundary]
    ensures
        forall|k: int| 0 <= k <= s@.len() && #[trigger] byte_off(s@, k) == range.start ==> r@ == s@.subrange(k, s@.len() as int),
{ &s[range] }

/// E13 shim: `OsString::from(x)` for a `&str` (an instance of the blanket
/// `impl<T: ?Sized + AsRef<OsStr>> From<&T> for OsString`, which cannot take an
/// `assume_specification` for one instantiation).
#[verifier::external_body]
pub fn verif_osstring_from_str(s: &str) -> (r: OsString)
    ensures r == osstring_of(s@),
{ OsString::from(s) }

// ---- C16: which grammar a file name gets ---------------------------------------------------------
/// `-E ext=known`: the name looked up in the grammar table for extension `e`
pub open spec fn remap(extra: Map<OsString, OsString>, e: OsString) -> OsString {
    if extra.contains_key(e) { extra[e] } else { e }
}

/// the grammar registered for extension `e` (after remapping), if any
pub open spec fn lookup(parsers: Map<OsString, LanguageParser>, extra: Map<OsString, OsString>, e: OsString) -> Option<LanguageParser> {
    if parsers.contains_key(remap(extra, e)) { Some(parsers[remap(extra, e)]) } else { None }
}

/// The candidate extensions of a base name, in the order they are tried: the text after the LAST
/// '.', ..., the text after the FIRST '.', then the whole name (C16: "compound ones such as .d.ts,
/// go.mod ... and the extension-less Makefile").
pub open spec fn candidates(name: Seq<char>) -> Seq<Seq<char>> {
    let dots = char_positions(name, '.');
    Seq::new(dots.len() + 1, |j: int|
        if j < dots.len() { name.subrange(dots[dots.len() - 1 - j] + 1, name.len() as int) } else { name })
}

/// the grammar of the first candidate from position `j` on that maps to one
pub open spec fn first_hit(cands: Seq<Seq<char>>, parsers: Map<OsString, LanguageParser>, extra: Map<OsString, OsString>, j: int) -> Option<LanguageParser>
    decreases cands.len() - j
{
    if j < 0 || j >= cands.len() {
        None
    } else {
        match lookup(parsers, extra, osstring_of(cands[j])) {
            Some(p) => Some(p),
            None => first_hit(cands, parsers, extra, j + 1),
        }
    }
}

/// C16: the grammar chosen for a path — a function of its base name, the table and the -E map only.
pub open spec fn grammar_for(path: PathBuf, parsers: Map<OsString, LanguageParser>, extra: Map<OsString, OsString>) -> Option<LanguageParser> {
    match base_name(path) {
        None => None,
        Some(name) => first_hit(candidates(name), parsers, extra, 0),
    }
}

/// no candidate extension of the name maps to a grammar
pub open spec fn no_candidate_maps(name: Seq<char>, parsers: Map<OsString, LanguageParser>, extra: Map<OsString, OsString>) -> bool {
    forall|j: int| 0 <= j < candidates(name).len() ==> lookup(parsers, extra, osstring_of(#[trigger] candidates(name)[j])) is None
}

/// `j` is the first candidate position that maps, and it maps to `p`
pub open spec fn first_mapping_candidate(name: Seq<char>, parsers: Map<OsString, LanguageParser>, extra: Map<OsString, OsString>, j: int, p: LanguageParser) -> bool {
    &&& 0 <= j < candidates(name).len()
    &&& lookup(parsers, extra, osstring_of(candidates(name)[j])) == Some(p)
    &&& forall|l: int| 0 <= l < j ==> lookup(parsers, extra, osstring_of(#[trigger] candidates(name)[l])) is None
}

/// `first_hit` read as "first candidate that maps" / "no candidate maps".
pub proof fn lemma_first_hit(cands: Seq<Seq<char>>, parsers: Map<OsString, LanguageParser>, extra: Map<OsString, OsString>, j: int)
    requires 0 <= j <= cands.len(),
    ensures
        first_hit(cands, parsers, extra, j) is None <==> (forall|l: int| j <= l < cands.len() ==> lookup(parsers, extra, osstring_of(#[trigger] cands[l])) is None),
        first_hit(cands, parsers, extra, j) matches Some(p) ==> exists|h: int| j <= h < cands.len()
            && #[trigger] lookup(parsers, extra, osstring_of(cands[h])) == Some(p)
            && (forall|l: int| j <= l < h ==> lookup(parsers, extra, osstring_of(#[trigger] cands[l])) is None),
    decreases cands.len() - j,
{
    if j < cands.len() {
        lemma_first_hit(cands, parsers, extra, j + 1);
        match lookup(parsers, extra, osstring_of(cands[j])) {
            Some(p) => {
                assert(lookup(parsers, extra, osstring_of(cands[j])) == Some(p));
            }
            None => {
                if first_hit(cands, parsers, extra, j + 1) is Some {
                    let p = first_hit(cands, parsers, extra, j + 1).unwrap();
                    let h = choose|h: int| j + 1 <= h < cands.len()
                        && #[trigger] lookup(parsers, extra, osstring_of(cands[h])) == Some(p)
                        && (forall|l: int| j + 1 <= l < h ==> lookup(parsers, extra, osstring_of(#[trigger] cands[l])) is None);
                    assert(lookup(parsers, extra, osstring_of(cands[h])) == Some(p));
                    assert(forall|l: int| j <= l < h ==> lookup(parsers, extra, osstring_of(#[trigger] cands[l])) is None);
                }
            }
        }
    }
}
