// Group `blocksel` (src/blocks.rs orchestration: B5 B6 B7, C16 table): std types without a vstd
// specification and the axioms about them. A module of its own, *outside* the group's `verus! { }`
// block, so that the group can `broadcast use` the axioms at module level (a function-level
// `broadcast use` does not reach loop bodies, and a module cannot broadcast its own axioms).
mod blocks_ax {
    use vstd::prelude::*;
    use std::ffi::OsString;
    use std::path::PathBuf;
    verus! {
    #[verifier::external_type_specification]
    #[verifier::external_body]
    pub struct ExOsString(OsString);

    #[verifier::external_type_specification]
    #[verifier::external_body]
    pub struct ExPathBuf(PathBuf);

    /// T-std: `OsString`'s `Hash`/`Eq` are deterministic and agree with each other (std doc of `Hash`:
    /// "k1 == k2 -> hash(k1) == hash(k2)"; an `OsString` hashes and compares its bytes). vstd needs this
    /// to give `HashMap<OsString, _>` its `Map` view.
    pub broadcast axiom fn axiom_blocks_osstring_key_model()
        ensures #[trigger] vstd::std_specs::hash::obeys_key_model::<OsString>();

    /// T-std: same for `PathBuf` (hashes and compares its components).
    pub broadcast axiom fn axiom_blocks_pathbuf_key_model()
        ensures #[trigger] vstd::std_specs::hash::obeys_key_model::<PathBuf>();

    /// `OsString::from(&str)`: a function of the text ...
    pub uninterp spec fn osstring_of(s: Seq<char>) -> OsString;

    /// ... and an injective one: `OsString::from(&str)` stores the UTF-8 bytes of the text unchanged
    /// and `OsString: Eq` compares those bytes (std doc of `OsString`: "From<&str> ... copies the data",
    /// `impl PartialEq for OsString` = byte equality). Needed only to show that a name is NOT a key
    /// of the grammar table (C16 table lemma); B5/B6/B7 do not use it.
    pub broadcast axiom fn axiom_blocks_osstring_of_injective(a: Seq<char>, b: Seq<char>)
        ensures (#[trigger] osstring_of(a) == #[trigger] osstring_of(b)) ==> a == b;

    /// length and first twelve chars of a text (an index beyond the end denotes some fixed, unspecified
    /// char). Only a vehicle to let the solver tell string LITERALS apart: vstd's literal axioms fire
    /// on `len` / index terms, which this makes appear.
    pub open spec fn str_sig(s: Seq<char>) -> (nat, (char, char, char, char), (char, char, char, char), (char, char, char, char)) {
        (s.len(), (s[0], s[1], s[2], s[3]), (s[4], s[5], s[6], s[7]), (s[8], s[9], s[10], s[11]))
    }

    /// the signature of the text an `OsString` was made from
    pub closed spec fn osstring_sig(o: OsString) -> (nat, (char, char, char, char), (char, char, char, char), (char, char, char, char)) {
        str_sig(choose|s: Seq<char>| osstring_of(s) == o)
    }

    /// consequence of injectivity (proved from it), in the form the solver can use on literals: two
    /// `osstring_of(<literal>)` whose texts differ in length or within the first twelve chars are told
    /// apart by congruence
    pub broadcast proof fn lemma_blocks_osstring_sig(a: Seq<char>)
        ensures osstring_sig(#[trigger] osstring_of(a)) == str_sig(a),
    {
        let s = choose|s: Seq<char>| osstring_of(s) == osstring_of(a);
        axiom_blocks_osstring_of_injective(s, a);
    }

    pub broadcast group group_blocks_ax {
        axiom_blocks_osstring_key_model,
        axiom_blocks_pathbuf_key_model,
    }
    }
}
use blocks_ax::*;
