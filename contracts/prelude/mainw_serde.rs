// Stand-in types of `serde_json` for group `mainwire` (rule E2: a JSON value is opaque; single-file Verus
// cannot link crates, DESIGN 2.9). Included OUTSIDE the group's `verus! { .. }` block; the module
// `serde_json` itself (with `to_writer_pretty` and its M1 call-site obligations) is in the group file.
mod serde_json_types {
    use vstd::prelude::*;
    verus! {
//@include prelude/orch_serde_types.rs
    }
}
