// T-std axiom for the diff groups, in a module of its own so that a group can `broadcast use` it at
// module level (a module cannot broadcast an axiom it defines itself, and a function-level
// `broadcast use` is not visible inside loop bodies). Included OUTSIDE the group's `verus! { }`.
mod diff_axioms {
    use vstd::prelude::*;
    use vstd::string::StringSliceAdditionalSpecFns;
    verus! {
    /// A `str` is a slice of bytes, and "the total size of a slice must be no larger than isize::MAX"
    /// (std doc of `slice::from_raw_parts`; also the allocation limit of `String`/`Vec`).
    /// `s.len()` is `s.spec_bytes().len()` in vstd.
    pub broadcast axiom fn axiom_str_len_bound(s: &str)
        ensures (#[trigger] s.spec_bytes()).len() <= isize::MAX;
    }
}
