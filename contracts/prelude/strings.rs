broadcast use {vstd::std_specs::hash::group_hash_axioms, tstr::group_tstr};

// T-str: the trusted string layer (uninterpreted functions and axioms are in prelude/tstr_mod.rs). Strings are viewed as Seq<char> (vstd's view of str).
// The functions below are *uninterpreted* unless a definition is short; what std really does
// (Unicode White_Space classification in trim, the exact line splitting of `lines`) is therefore
// a parameter of every proof, not an assumption about the property.

pub open spec fn is_blank(s: Seq<char>) -> bool { trim_spec(s).len() == 0 }

pub assume_specification<'a>[ str::trim ](s: &'a str) -> (r: &'a str)
    ensures
        r@ == trim_spec(s@),
        str_offset_in(r, s) == trim_lead(s@),
        trim_lead(s@) + blen(r@) <= blen(s@),
;

pub assume_specification<'a>[ str::trim_start ](s: &'a str) -> (r: &'a str)
    ensures r@ == trim_start_spec(s@), str_offset_in(r, s) == trim_start_lead(s@), trim_start_lead(s@) + blen(r@) <= blen(s@);
pub assume_specification<'a>[ str::trim_end ](s: &'a str) -> (r: &'a str)
    ensures r@ == trim_end_spec(s@), str_offset_in(r, s) == 0, blen(r@) <= blen(s@);

pub assume_specification<'a>[ str::trim_ascii ](s: &'a str) -> (r: &'a str)
    ensures r@ == trim_ascii_spec(s@), str_offset_in(r, s) == trim_ascii_lead(s@), trim_ascii_lead(s@) + blen(r@) <= blen(s@);

#[verifier::external_body]
pub fn verif_str_len(s: &str) -> (r: usize)
    ensures r == blen(s@), r <= isize::MAX // a str is at most isize::MAX bytes (std doc of slices)
{ s.len() }

/// E9: `a.as_ptr() as usize - b.as_ptr() as usize`
#[verifier::external_body]
pub fn verif_offset_in(a: &str, b: &str) -> (r: usize)
    ensures
        r == str_offset_in(a, b),
        r + blen(a@) <= isize::MAX, // `a` lies inside `b`, and `b` is at most isize::MAX bytes
{ a.as_ptr() as usize - b.as_ptr() as usize }

/// E3: `X.lines().enumerate()` as a vector of (index, line)
#[verifier::external_body]
pub fn verif_lines_enumerate<'a>(s: &'a str) -> (r: Vec<(usize, &'a str)>)
    ensures
        r@.len() == lines_of(s@).len(),
        r@.len() <= isize::MAX, // fewer lines than bytes
        forall|i: int| 0 <= i < r@.len() ==> (#[trigger] r@[i]).0 == i && r@[i].1@ == lines_of(s@)[i],
{ s.lines().enumerate().collect() }

/// E3: `X.lines().filter(f).count()`; `f`'s own contract must determine its result from the
/// line's view: keep(l) is "f returns true on a line whose view is l".
#[verifier::external_body]
pub fn verif_lines_filter_count<'a, F: Fn(&&'a str) -> bool>(s: &'a str, f: F, Ghost(keep): Ghost<spec_fn(Seq<char>) -> bool>) -> (r: usize)
    requires
        forall|l: &&'a str| #[trigger] call_requires(f, (l,)),
        forall|l: &&'a str, b: bool| #[trigger] call_ensures(f, (l,), b) ==> b == keep(l@),
    ensures
        r == count_true(lines_of(s@), keep, lines_of(s@).len() as int),
{ s.lines().filter(f).count() }

pub open spec fn count_true(lines: Seq<Seq<char>>, keep: spec_fn(Seq<char>) -> bool, n: int) -> nat
    decreases n
{
    if n <= 0 { 0 } else { count_true(lines, keep, n - 1) + if keep(lines[n - 1]) { 1nat } else { 0nat } }
}

// ---- strip_prefix (E13: Pattern-generic, so shims whose bodies are the identical std calls) ----
pub open spec fn strip_prefix_spec(s: Seq<char>, p: Seq<char>) -> Option<Seq<char>> {
    if p.len() <= s.len() && s.subrange(0, p.len() as int) == p {
        Some(s.subrange(p.len() as int, s.len() as int))
    } else {
        None
    }
}

pub open spec fn opt_view(o: Option<&str>) -> Option<Seq<char>> {
    match o { Some(x) => Some(x@), None => None }
}

#[verifier::external_body]
pub fn verif_strip_prefix_str<'a>(s: &'a str, p: &str) -> (r: Option<&'a str>)
    ensures opt_view(r) == strip_prefix_spec(s@, p@)
{ s.strip_prefix(p) }

#[verifier::external_body]
pub fn verif_strip_prefix_char<'a>(s: &'a str, p: char) -> (r: Option<&'a str>)
    ensures opt_view(r) == strip_prefix_spec(s@, seq![p])
{ s.strip_prefix(p) }

// ---- parsing numbers ----
#[verifier::external_type_specification]
#[verifier::external_body]
pub struct ExParseIntError(core::num::ParseIntError);

#[verifier::external_body]
pub fn verif_parse_usize(s: &str) -> (r: Result<usize, core::num::ParseIntError>)
    ensures
        (r matches Ok(n) ==> parse_usize_spec(s@) == Some(n)),
        (r is Err ==> parse_usize_spec(s@) is None),
{ s.parse::<usize>() }


// ---- generic string comparison shims (rule E17) -------------------------------------------------
// `X == "lit"` / `X != "lit"` on String / &str / &String are accepted by Verus but unspecified.
pub trait VerifStr {
    spec fn sv(&self) -> Seq<char>;
    fn as_s(&self) -> (r: &str)
        ensures r@ == self.sv();
}

impl VerifStr for String {
    open spec fn sv(&self) -> Seq<char> { self@ }
    fn as_s(&self) -> (r: &str) { self.as_str() }
}

impl<'a> VerifStr for &'a str {
    open spec fn sv(&self) -> Seq<char> { (*self)@ }
    fn as_s(&self) -> (r: &str) { *self }
}

impl<'a> VerifStr for &'a String {
    open spec fn sv(&self) -> Seq<char> { (*self)@ }
    fn as_s(&self) -> (r: &str) { self.as_str() }
}

#[verifier::external_body]
pub fn verif_str_eq<A: VerifStr>(a: &A, b: &str) -> (r: bool)
    ensures r == (a.sv() == b@)
{ a.as_s() == b }

#[verifier::external_body]
pub fn verif_str_ne<A: VerifStr>(a: &A, b: &str) -> (r: bool)
    ensures r == (a.sv() != b@)
{ a.as_s() != b }

// ---- default std-idiom shims (rule E13, applied to every unit when the idiom occurs) ------------
/// `X.chars().count()`: the number of chars = length of the view
#[verifier::external_body]
pub fn verif_chars_count(s: &str) -> (r: usize)
    ensures r == s@.len()
{ s.chars().count() }

/// `X.lines().count()`
#[verifier::external_body]
pub fn verif_lines_count(s: &str) -> (r: usize)
    ensures r == lines_of(s@).len()
{ s.lines().count() }
