// T-str: the trusted string layer. Strings are viewed as Seq<char> (vstd's view of str).
// The functions below are *uninterpreted* unless a definition is short; what std really does
// (Unicode White_Space classification in trim, the exact line splitting of `lines`) is therefore
// a parameter of every proof, not an assumption about the property.

/// `str::trim`: the input without leading and trailing Unicode whitespace.
pub uninterp spec fn trim_spec(s: Seq<char>) -> Seq<char>;
/// number of *bytes* `str::trim` removes at the front (needed for column arithmetic)
pub uninterp spec fn trim_lead(s: Seq<char>) -> nat;
/// UTF-8 length in bytes of a string view
pub uninterp spec fn blen(s: Seq<char>) -> nat;
/// `str::lines`: split at '\n', one trailing '\r' removed per line, no final empty line.
pub uninterp spec fn lines_of(s: Seq<char>) -> Seq<Seq<char>>;
/// std doc: "An empty string returns an empty iterator" (and `"".lines().count() == 0`).
pub broadcast axiom fn axiom_lines_of_empty(s: Seq<char>)
    requires s.len() == 0
    ensures (#[trigger] lines_of(s)).len() == 0;

pub open spec fn is_blank(s: Seq<char>) -> bool { trim_spec(s).len() == 0 }

/// byte offset of sub-slice `a` inside `b` when `a` was obtained from `b` by trimming/slicing
/// (pointer arithmetic is outside Verus; rule E9)
pub uninterp spec fn str_offset_in(a: &str, b: &str) -> nat;

pub assume_specification<'a>[ str::trim ](s: &'a str) -> (r: &'a str)
    ensures
        r@ == trim_spec(s@),
        str_offset_in(r, s) == trim_lead(s@),
        trim_lead(s@) + blen(r@) <= blen(s@),
;

// Neighbouring std functions get their *own* uninterpreted meaning, so that code which calls one
// of them where the property needs `trim` does not verify by accident.
pub uninterp spec fn trim_start_spec(s: Seq<char>) -> Seq<char>;
pub uninterp spec fn trim_end_spec(s: Seq<char>) -> Seq<char>;
pub assume_specification<'a>[ str::trim_start ](s: &'a str) -> (r: &'a str)
    ensures r@ == trim_start_spec(s@), str_offset_in(r, s) == trim_lead(s@), trim_lead(s@) + blen(r@) <= blen(s@);
pub assume_specification<'a>[ str::trim_end ](s: &'a str) -> (r: &'a str)
    ensures r@ == trim_end_spec(s@), str_offset_in(r, s) == 0, blen(r@) <= blen(s@);

#[verifier::external_body]
pub fn verif_str_len(s: &str) -> (r: usize)
    ensures r == blen(s@), r <= isize::MAX // a str is at most isize::MAX bytes (std doc of slices)
{ s.len() }

/// E9: `a.as_ptr() as usize - b.as_ptr() as usize`
#[verifier::external_body]
pub fn verif_offset_in(a: &str, b: &str) -> (r: usize)
    ensures
        r == str_offset_in(a, b),
        r + blen(a@) <= isize::MAX, // `a` lies inside `b`, and `b` is at most isize::MAX bytes
{ a.as_ptr() as usize - b.as_ptr() as usize }

/// E3: `X.lines().enumerate()` as a vector of (index, line)
#[verifier::external_body]
pub fn verif_lines_enumerate<'a>(s: &'a str) -> (r: Vec<(usize, &'a str)>)
    ensures
        r@.len() == lines_of(s@).len(),
        r@.len() <= isize::MAX, // fewer lines than bytes
        forall|i: int| 0 <= i < r@.len() ==> (#[trigger] r@[i]).0 == i && r@[i].1@ == lines_of(s@)[i],
{ s.lines().enumerate().collect() }

/// E3: `X.lines().filter(f).count()`; `f`'s own contract must determine its result from the
/// line's view: keep(l) is "f returns true on a line whose view is l".
#[verifier::external_body]
pub fn verif_lines_filter_count<'a, F: Fn(&&'a str) -> bool>(s: &'a str, f: F, Ghost(keep): Ghost<spec_fn(Seq<char>) -> bool>) -> (r: usize)
    requires
        forall|l: &&'a str| #[trigger] call_requires(f, (l,)),
        forall|l: &&'a str, b: bool| #[trigger] call_ensures(f, (l,), b) ==> b == keep(l@),
    ensures
        r == count_true(lines_of(s@), keep, lines_of(s@).len() as int),
{ s.lines().filter(f).count() }

pub open spec fn count_true(lines: Seq<Seq<char>>, keep: spec_fn(Seq<char>) -> bool, n: int) -> nat
    decreases n
{
    if n <= 0 { 0 } else { count_true(lines, keep, n - 1) + if keep(lines[n - 1]) { 1nat } else { 0nat } }
}

// ---- strip_prefix (E13: Pattern-generic, so shims whose bodies are the identical std calls) ----
pub open spec fn strip_prefix_spec(s: Seq<char>, p: Seq<char>) -> Option<Seq<char>> {
    if p.len() <= s.len() && s.subrange(0, p.len() as int) == p {
        Some(s.subrange(p.len() as int, s.len() as int))
    } else {
        None
    }
}

pub open spec fn opt_view(o: Option<&str>) -> Option<Seq<char>> {
    match o { Some(x) => Some(x@), None => None }
}

#[verifier::external_body]
pub fn verif_strip_prefix_str<'a>(s: &'a str, p: &str) -> (r: Option<&'a str>)
    ensures opt_view(r) == strip_prefix_spec(s@, p@)
{ s.strip_prefix(p) }

#[verifier::external_body]
pub fn verif_strip_prefix_char<'a>(s: &'a str, p: char) -> (r: Option<&'a str>)
    ensures opt_view(r) == strip_prefix_spec(s@, seq![p])
{ s.strip_prefix(p) }

// ---- parsing numbers ----
/// `str::parse::<usize>()` succeeds exactly on an optional '+' followed by one or more ASCII
/// digits whose value fits usize (std doc of `usize::from_str`). Kept uninterpreted: the proofs
/// only need that the result is a function of the text.
pub uninterp spec fn parse_usize_spec(s: Seq<char>) -> Option<usize>;

#[verifier::external_type_specification]
#[verifier::external_body]
pub struct ExParseIntError(core::num::ParseIntError);

#[verifier::external_body]
pub fn verif_parse_usize(s: &str) -> (r: Result<usize, core::num::ParseIntError>)
    ensures
        (r matches Ok(n) ==> parse_usize_spec(s@) == Some(n)),
        (r is Err ==> parse_usize_spec(s@) is None),
{ s.parse::<usize>() }

// ---- &str as a hash key (T-std) -----------------------------------------------------------------
// `str`'s Hash/Eq implementations are functions of the contents, so &str obeys the key model and
// two &str values with equal contents are the same key.
pub broadcast axiom fn axiom_str_key_model()
    ensures #[trigger] vstd::std_specs::hash::obeys_key_model::<&str>();

pub broadcast axiom fn axiom_str_view_injective(a: &str, b: &str)
    ensures (#[trigger] a@ == #[trigger] b@) ==> a == b;
