// Stand-in for the `anyhow` crate for groups `mainwire` and `scripts` (a superset of
// prelude/orch_anyhow.rs: it adds the `Context` extension trait on `Result`). Single-file Verus cannot
// link crates (DESIGN 2.9, T-ext). Included OUTSIDE the group's `verus! { .. }` block.
// Rule E1: `anyhow!(..)` / `bail!(..)` / `format!(..)` lose their text; only *that* an error is
// returned is verified.
mod anyhow {
    use vstd::prelude::*;
    verus! {
    pub struct Error { pub tag: u8 }
    pub type Result<T> = core::result::Result<T, Error>;
    pub fn verif_err() -> Error { Error { tag: 0 } }

    /// E1: the text a `format!(..)` would have produced
    pub struct Msg { pub tag: u8 }
    pub fn verif_msg() -> Msg { Msg { tag: 0 } }

    /// `anyhow::Context` (anyhow source, src/context.rs):
    ///   impl<T, E> Context<T, E> for Result<T, E>:  `match self { Ok(ok) => Ok(ok), Err(error) => Err(error.ext_context(context)) }`
    ///   impl<T> Context<T, Infallible> for Option<T>: `match self { Some(ok) => Ok(ok), None => Err(Error::msg(context)) }`
    /// i.e. success is passed through unchanged, failure stays failure (with more text: E1).
    pub trait Context<T>: Sized {
        /// the success value, if any
        spec fn as_option(self) -> Option<T>;

        fn context<C>(self, context: C) -> (r: Result<T>)
            ensures
                r is Ok <==> self.as_option() is Some, // [anyhow.context.keeps_ok_and_err]
                r matches Ok(v) ==> self.as_option() == Some(v),
        ;

        fn with_context<C, F: FnOnce() -> C>(self, f: F) -> (r: Result<T>)
            requires
                self.as_option() is None ==> call_requires(f, ()),
            ensures
                r is Ok <==> self.as_option() is Some, // [anyhow.with_context.keeps_ok_and_err]
                r matches Ok(v) ==> self.as_option() == Some(v),
        ;
    }

    impl<T> Context<T> for Option<T> {
        open spec fn as_option(self) -> Option<T> { self }

        fn context<C>(self, context: C) -> (r: Result<T>)
        {
            match self {
                Some(ok) => Ok(ok),
                None => Err(verif_err()),
            }
        }

        fn with_context<C, F: FnOnce() -> C>(self, f: F) -> (r: Result<T>)
        {
            match self {
                Some(ok) => Ok(ok),
                None => { let _c = f(); Err(verif_err()) }
            }
        }
    }

    impl<T, E> Context<T> for core::result::Result<T, E> {
        open spec fn as_option(self) -> Option<T> {
            match self { Ok(v) => Some(v), Err(_) => None }
        }

        fn context<C>(self, context: C) -> (r: Result<T>)
        {
            match self {
                Ok(ok) => Ok(ok),
                Err(_e) => Err(verif_err()),
            }
        }

        fn with_context<C, F: FnOnce() -> C>(self, f: F) -> (r: Result<T>)
        {
            match self {
                Ok(ok) => Ok(ok),
                Err(_e) => { let _c = f(); Err(verif_err()) }
            }
        }
    }
    }
}
