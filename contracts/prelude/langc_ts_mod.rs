// Group `langclosures`: stand-in for the two tree-sitter handle types that are fields of
// `MdParser` (src/language_parsers/markdown.rs), so that the struct definition can be pasted from /repo
// (//@item). Opaque: nothing is known or assumed about them (T-ext, FFI). Included OUTSIDE `verus! { .. }`.
mod tree_sitter {
    use vstd::prelude::*;
    verus! {
    #[verifier::external_body]
    pub struct Parser { _opaque: () }
    #[verifier::external_body]
    pub struct Query { _opaque: () }
    }
}
