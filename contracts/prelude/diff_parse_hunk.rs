// What `unidiff::PatchedFile::parse_hunk` (unidiff-0.4.0 lib.rs) establishes about the lines of the
// hunk it builds. `hunk_parsed` is the PROVED postcondition of unit X.parse_hunk (group unidiffparse,
// verified on the text of the locked crate); the lemmas below derive from it what D-b needs:
// `file_numbered` (precondition [Db.pre.lines_numbered] of `line_changes`: every `unwrap` of a line
// number is safe) and the numbering clauses of `line_wf`. Nothing here is trusted.
// Needs prelude/diff_unidiff.rs and prelude/diff_lines_spec.rs.

/// unidiff's running old-file cursor before position k of the hunk: `parse_hunk` starts it at the
/// header's `source_start` (NOT at git's "first line" `src_first`, which is one more for an empty
/// side) and advances it over removed and context lines
pub open spec fn ucs(h: Hunk, k: int) -> int
    decreases k
{
    if k <= 0 { h.source_start as int } else {
        ucs(h, k - 1) + if kind(h.spec_lines()[k - 1]) == Kind::Ctx || kind(h.spec_lines()[k - 1]) == Kind::Rem { 1int } else { 0int }
    }
}

/// unidiff's running new-file cursor before position k of the hunk (from `target_start`, over added
/// and context lines)
pub open spec fn uct(h: Hunk, k: int) -> int
    decreases k
{
    if k <= 0 { h.target_start as int } else {
        uct(h, k - 1) + if kind(h.spec_lines()[k - 1]) == Kind::Ctx || kind(h.spec_lines()[k - 1]) == Kind::Add { 1int } else { 0int }
    }
}

/// line k carries exactly the numbers `parse_hunk` gives a line of its kind: an added line the
/// new-file cursor and no old-file number, a removed line the old-file cursor and no new-file number,
/// a context line both cursors, any other line (the `\ No newline at end of file` marker) no number
pub open spec fn line_parsed(h: Hunk, k: int) -> bool {
    let l = h.spec_lines()[k];
    match kind(l) {
        Kind::Add => l.source_line_no is None && (l.target_line_no matches Some(n) && n as int == uct(h, k)),
        Kind::Rem => (l.source_line_no matches Some(n) && n as int == ucs(h, k)) && l.target_line_no is None,
        Kind::Ctx => (l.source_line_no matches Some(n) && n as int == ucs(h, k)) && (l.target_line_no matches Some(n) && n as int == uct(h, k)),
        Kind::Other => l.source_line_no is None && l.target_line_no is None,
    }
}

pub open spec fn hunk_parsed(h: Hunk) -> bool {
    forall|k: int| 0 <= k < h.spec_lines().len() ==> #[trigger] line_parsed(h, k)
}

/// every hunk of the file is as `parse_hunk` builds it
pub open spec fn file_parsed(f: PatchedFile) -> bool {
    forall|h: int| 0 <= h < f.spec_hunks().len() ==> hunk_parsed(#[trigger] f.spec_hunks()[h])
}

/// `file_numbered` - what makes every `unwrap` in `line_changes` safe - follows from `file_parsed`
pub proof fn lemma_parsed_file_numbered(f: PatchedFile)
    requires file_parsed(f),
    ensures file_numbered(f),
{
    assert forall|h: int, k: int| 0 <= h < f.spec_hunks().len() && 0 <= k < hunk_lines(f, h).len()
        implies line_numbered(#[trigger] hunk_lines(f, h)[k]) by {
        assert(hunk_parsed(f.spec_hunks()[h]));
        assert(line_parsed(f.spec_hunks()[h], k));
    }
}

/// unidiff's cursors and the specification's cursors `cs` / `ct` run in parallel: they differ by the
/// constant `src_first - source_start` (0 for a non-empty side, 1 for an empty one)
pub proof fn lemma_cursor_offset(h: Hunk, k: int)
    requires 0 <= k <= h.spec_lines().len(),
    ensures
        cs(h, k) - ucs(h, k) == src_first(h) - h.source_start,
        ct(h, k) - uct(h, k) == tgt_first(h) - h.target_start,
    decreases k
{
    if k > 0 { lemma_cursor_offset(h, k - 1); }
}

/// The numbering clauses of `line_wf` hold for a hunk built by `parse_hunk` whose header lengths are
/// the numbers of lines on each side (the two header clauses of `hunk_wf`): a side of length 0 has no
/// line, a side of length > 0 is numbered from `start` = `src_first` / `tgt_first`. Also the "no line
/// number" part of `marker_wf`. What `file_wf` still ASSUMES about the data is therefore only the
/// shape git gives a hunk (header lengths = line counts, removed before added, marker position,
/// `hunk_gap`), not the numbers.
pub proof fn lemma_parsed_hunk_line_numbers(h: Hunk)
    requires
        hunk_parsed(h),
        cs(h, h.spec_lines().len() as int) == src_first(h) + h.source_length,
        ct(h, h.spec_lines().len() as int) == tgt_first(h) + h.target_length,
    ensures
        forall|k: int| 0 <= k < h.spec_lines().len() ==> {
            let l = #[trigger] h.spec_lines()[k];
            &&& kind(l) == Kind::Add || kind(l) == Kind::Ctx ==> l.target_line_no is Some && l.target_line_no.unwrap() as int == ct(h, k)
            &&& kind(l) == Kind::Rem || kind(l) == Kind::Ctx ==> l.source_line_no is Some && l.source_line_no.unwrap() as int == cs(h, k)
            &&& kind(l) == Kind::Other ==> l.source_line_no is None && l.target_line_no is None
        },
{
    let ls = h.spec_lines();
    let n = ls.len() as int;
    assert forall|k: int| 0 <= k < n implies {
        let l = #[trigger] ls[k];
        &&& kind(l) == Kind::Add || kind(l) == Kind::Ctx ==> l.target_line_no is Some && l.target_line_no.unwrap() as int == ct(h, k)
        &&& kind(l) == Kind::Rem || kind(l) == Kind::Ctx ==> l.source_line_no is Some && l.source_line_no.unwrap() as int == cs(h, k)
        &&& kind(l) == Kind::Other ==> l.source_line_no is None && l.target_line_no is None
    } by {
        assert(line_parsed(h, k));
        lemma_cursor_offset(h, k);
        lemma_cursors_monotone(h, k + 1, n);
        // a line of a side at k: that side's cursor moves, so the side is not empty, so start = first
        assert(cs(h, k + 1) == cs(h, k) + if kind(ls[k]) == Kind::Ctx || kind(ls[k]) == Kind::Rem { 1int } else { 0int });
        assert(ct(h, k + 1) == ct(h, k) + if kind(ls[k]) == Kind::Ctx || kind(ls[k]) == Kind::Add { 1int } else { 0int });
        lemma_cursors_monotone(h, 0, k);
    }
}

pub proof fn lemma_cursors_monotone(h: Hunk, a: int, b: int)
    requires 0 <= a <= b <= h.spec_lines().len(),
    ensures cs(h, a) <= cs(h, b), ct(h, a) <= ct(h, b),
    decreases b - a
{
    if a < b { lemma_cursors_monotone(h, a, b - 1); }
}

/// appending a line changes no cursor before the old end of the hunk
pub proof fn lemma_cursors_push(h1: Hunk, h2: Hunk, l: Line, k: int)
    requires
        h2.spec_lines() == h1.spec_lines().push(l),
        h2.source_start == h1.source_start,
        h2.target_start == h1.target_start,
        0 <= k <= h1.spec_lines().len(),
    ensures
        ucs(h2, k) == ucs(h1, k),
        uct(h2, k) == uct(h1, k),
    decreases k
{
    if k > 0 {
        lemma_cursors_push(h1, h2, l, k - 1);
        assert(h2.spec_lines()[k - 1] == h1.spec_lines()[k - 1]);
    }
}

/// appending a line that is numbered by the cursors at the end keeps the hunk `hunk_parsed`
pub proof fn lemma_parsed_push(h1: Hunk, h2: Hunk, l: Line)
    requires
        hunk_parsed(h1),
        h2.spec_lines() == h1.spec_lines().push(l),
        h2.source_start == h1.source_start,
        h2.target_start == h1.target_start,
        line_parsed(h2, h1.spec_lines().len() as int),
    ensures
        hunk_parsed(h2),
{
    let n = h1.spec_lines().len() as int;
    assert forall|k: int| 0 <= k < h2.spec_lines().len() implies #[trigger] line_parsed(h2, k) by {
        if k < n {
            assert(line_parsed(h1, k));
            lemma_cursors_push(h1, h2, l, k);
            assert(h2.spec_lines()[k] == h1.spec_lines()[k]);
        }
    }
}
