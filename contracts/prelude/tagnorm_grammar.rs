// Group `tagscan`: the tag grammar as seen by the scan loop. Included inside `verus! { .. }` after
// prelude/tagnorm_bytes.rs. `BlockTag` and the struct `WinnowBlockTagParser` are the real items.
//
// The two grammar functions `parse_start_tag` / `parse_end_tag` (winnow combinator expressions,
// tag_parser.rs:104-127; DESIGN section 9, C05) are OUT of scope. They enter as two uninterpreted
// functions of the input text, so the scan loop is verified for EVERY grammar:
//   start_tag_match(s) = Some((n, attrs))  <=>  `parse_start_tag` accepts a prefix of `s`, `n` bytes long
//   end_tag_at(s)      = Some(n)           <=>  `parse_end_tag` accepts a prefix of `s`, `n` bytes long

//@item file=src/tag_parser.rs kind=enum name=BlockTag
//@item file=src/tag_parser.rs kind=struct name=WinnowBlockTagParser

/// `parse_start_tag` on input `s`: matched length in bytes and the attribute map it builds.
/// (The attribute value is the `HashMap` itself, so that "same text => same tag" can be stated as an
/// equality of `BlockTag` values; `start_tag_at` is the view the properties talk about.)
pub uninterp spec fn start_tag_match(s: Seq<char>) -> Option<(nat, HashMap<String, String>)>;

/// (matched bytes, attributes as a map)
pub open spec fn start_tag_at(s: Seq<char>) -> Option<(nat, Map<String, String>)> {
    match start_tag_match(s) {
        Some((n, h)) => Some((n, h@)),
        None => None,
    }
}

/// `parse_end_tag` on input `s`: matched length in bytes
pub uninterp spec fn end_tag_at(s: Seq<char>) -> Option<nat>;

/// stand-in for winnow's error type (`ContextError`); never inspected by the scan loop
#[verifier::external_body]
pub struct VerifParseError { _opaque: u8 }

/// Rule E13-like shim for `parse_start_tag.parse_peek(s)` (winnow `Parser::parse_peek`: "Take
/// tokens from the Stream, turning it into the output [...] returning the remaining input").
/// ASSUMED about the winnow machinery, nothing about the grammar itself:
///  * the call is a function of the input text (`start_tag_match`);
///  * `remaining` is the rest of the input after the match: its bytes are the input's bytes from
///    offset `n` on (so `input.len() - remaining.len() == n`);
///  * a match consumes at least one byte (`literal("<block")` / `literal("<")` come first in both
///    grammars) and at most the whole input.
/// Single-file Verus cannot link winnow, so the body is `unimplemented!()` (T-ext stand-in, as for
/// serde_json in prelude/orch_ext_report.rs).
#[verifier::external_body]
pub fn verif_parse_start_tag_peek<'a>(s: &'a str) -> (r: Result<(&'a str, HashMap<String, String>), VerifParseError>)
    ensures
        start_tag_match(s@) is None ==> r is Err,
        start_tag_match(s@) matches Some((n, h)) ==> (r matches Ok((remaining, attributes)) && attributes == h
            && 1 <= n <= utf8(s@).len()
            && utf8(remaining@) == utf8(s@).subrange(n as int, utf8(s@).len() as int)),
{ unimplemented!() }

/// same for `parse_end_tag.parse_peek(s)`
#[verifier::external_body]
pub fn verif_parse_end_tag_peek<'a>(s: &'a str) -> (r: Result<(&'a str, ()), VerifParseError>)
    ensures
        end_tag_at(s@) is None ==> r is Err,
        end_tag_at(s@) matches Some(n) ==> (r matches Ok((remaining, u))
            && 1 <= n <= utf8(s@).len()
            && utf8(remaining@) == utf8(s@).subrange(n as int, utf8(s@).len() as int)),
{ unimplemented!() }
