// Shared model of the orchestration layer (src/validators/mod.rs, src/main.rs). Included *inside*
// the group's `verus! { .. }` block. Data types are pasted from /repo (`//@item`); the three traits
// are hand-written stand-ins because Verus needs the ghost `spec fn`s on the trait itself (T-dyn,
// DESIGN section 5) and has no `async fn`.

// ---- std types without a vstd specification ------------------------------------------------------
#[verifier::external_type_specification]
#[verifier::external_body]
pub struct ExPathBuf(PathBuf);

/// T-std: `PathBuf`'s `Hash`/`Eq` are deterministic and agree with each other (std doc of `Hash`:
/// "k1 == k2 -> hash(k1) == hash(k2)"; `PathBuf` hashes and compares its components). vstd needs
/// this to give `HashMap<PathBuf, _>` its `Map` view.
pub broadcast axiom fn axiom_pathbuf_key_model()
    ensures #[trigger] vstd::std_specs::hash::obeys_key_model::<PathBuf>();

/// T-std: same for `&str` (string slices hash and compare their bytes).
pub broadcast axiom fn axiom_str_key_model<'a>()
    ensures #[trigger] vstd::std_specs::hash::obeys_key_model::<&'a str>();

// ---- data types of /repo --------------------------------------------------------------------------
//@item file=src/lib.rs kind=struct name=Position
//@item file=src/blocks.rs kind=struct name=Block
// /repo derives `Clone, Copy, Serialize_repr, EnumString, Debug, PartialEq`; the serde/strum derives are
// not available here. `Structural` is Verus' marker that the derived `PartialEq` is structural equality
// (checked by its derive: a field-less enum), so that `==` on the enum means spec equality.
#[derive(Clone, Copy, PartialEq, Structural)]
//@item file=src/blocks.rs kind=enum name=BlockSeverity
//@item file=src/blocks.rs kind=struct name=BlockWithContext
//@item file=src/blocks.rs kind=struct name=FileBlocks
//@item file=src/validators/mod.rs kind=struct name=ViolationRange
//@item file=src/validators/mod.rs kind=struct name=Violation
//@item file=src/validators/mod.rs kind=struct name=ValidationContext
//@item file=src/validators/mod.rs kind=enum name=ValidatorType

// ---- T-dyn: the three traits called through `dyn` -------------------------------------------------
/// What a detector answers for one block.
pub enum DetectOutcome {
    /// `detect` returned `Err`
    Fails,
    /// `Ok(None)`
    Nothing,
    /// `Ok(Some(ValidatorType::Sync(_)))`
    SyncValidator,
    /// `Ok(Some(ValidatorType::Async(_)))`
    AsyncValidator,
}

impl DetectOutcome {
    pub open spec fn fires(self) -> bool {
        self is SyncValidator || self is AsyncValidator
    }
}

/// A validator's result in specifications: per file, the list of violations; `None` = `Err`.
pub type SpecViolations = Map<PathBuf, Seq<Violation>>;

pub open spec fn vmap(m: Map<PathBuf, Vec<Violation>>) -> SpecViolations {
    m.map_values(|v: Vec<Violation>| v@)
}

/// `vmap` keeps the keys and views the values
pub proof fn lemma_vmap(m: Map<PathBuf, Vec<Violation>>)
    ensures
        forall|f: PathBuf| #[trigger] vmap(m).contains_key(f) <==> m.contains_key(f),
        forall|f: PathBuf| m.contains_key(f) ==> #[trigger] vmap(m)[f] == m[f]@,
        vmap(m).dom() == m.dom(),
{
    assert(vmap(m).dom() =~= m.dom());
}

pub trait ValidatorSync: Send + Sync {
    /// ghost provenance: position in the detector table of the detector that created this validator
    spec fn origin(&self) -> int;
    /// ghost: `validate` as a function of the context (`None` = `Err`)
    spec fn validate_spec(&self, ctx: ValidationContext) -> Option<SpecViolations>;
    /// ghost: `validate` panics on this context
    spec fn validate_panics(&self, ctx: ValidationContext) -> bool;

    fn validate(&self, context: Arc<ValidationContext>) -> (r: anyhow::Result<HashMap<PathBuf, Vec<Violation>>>)
        ensures
            r matches Ok(m) ==> self.validate_spec(*context) == Some(vmap(m@)),
            r is Err ==> self.validate_spec(*context) is None,
    ;
}

/// `#[async_trait] trait ValidatorAsync { async fn validate(..) }`: Verus has no `async fn`, so only
/// the ghost side exists; the async task bodies are outside this technique (C18, C19).
pub trait ValidatorAsync: Send + Sync {
    spec fn origin(&self) -> int;
    spec fn validate_spec(&self, ctx: ValidationContext) -> Option<SpecViolations>;
    spec fn validate_panics(&self, ctx: ValidationContext) -> bool;
}

pub trait ValidatorDetector {
    /// ghost identity: position in the detector table of the factory that created this detector
    spec fn id(&self) -> int;
    /// ghost: `detect` as a function of the block
    spec fn detects(&self, b: BlockWithContext) -> DetectOutcome;

    fn detect(&self, block_with_context: &BlockWithContext) -> (r: anyhow::Result<Option<ValidatorType>>)
        ensures
            r is Err ==> self.detects(*block_with_context) is Fails,
            r matches Ok(None) ==> self.detects(*block_with_context) is Nothing,
            r matches Ok(Some(ValidatorType::Sync(v))) ==> self.detects(*block_with_context) is SyncValidator && v.origin() == self.id(),
            r matches Ok(Some(ValidatorType::Async(v))) ==> self.detects(*block_with_context) is AsyncValidator && v.origin() == self.id(),
    ;
}
