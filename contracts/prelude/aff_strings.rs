// T-str / T-std / T-ext additions of group `affects` (unit V6p `parse_affects_attribute`, `Block::name`).
// Included *inside* `verus! { .. }`, after prelude/strings.rs and prelude/domain.rs.

// ---- E13: `s.split(<char>)` (Pattern-generic) ------------------------------------------------------
/// `str::split(c)` — std doc: "Returns an iterator over substrings of this string slice, separated by
/// characters matched by a pattern." The pieces, in order. Deliberately *uninterpreted*: how a text is
/// cut at the separator is a parameter of the proofs (every clause is stated per piece).
pub uninterp spec fn split_char_spec(s: Seq<char>, c: char) -> Seq<Seq<char>>;

/// the comma-separated pieces of an `affects` value, in order
pub open spec fn split_comma_spec(s: Seq<char>) -> Seq<Seq<char>> {
    split_char_spec(s, ',')
}

/// shim whose body is the identical std call, collected (`for x in s.split(c)` visits the same items
/// in the same order)
#[verifier::external_body]
pub fn verif_split_char<'a>(s: &'a str, c: char) -> (r: Vec<&'a str>)
    ensures
        r@.len() == split_char_spec(s@, c).len(),
        forall|i: int| 0 <= i < r@.len() ==> (#[trigger] r@[i])@ == split_char_spec(s@, c)[i],
{ s.split(c).collect() }

// ---- E13: `s.split_once(<&str>)` / `s.rsplit_once(<&str>)` (Pattern-generic) -------------------------
/// pattern `p` occurs in `s` at char index `i`
pub open spec fn occurs_at(s: Seq<char>, p: Seq<char>, i: int) -> bool {
    0 <= i && i + p.len() <= s.len() && s.subrange(i, i + p.len()) == p
}

/// `i` is the FIRST occurrence of `p` in `s`
pub open spec fn first_occurrence(s: Seq<char>, p: Seq<char>, i: int) -> bool {
    occurs_at(s, p, i) && forall|j: int| 0 <= j < i ==> !#[trigger] occurs_at(s, p, j)
}

/// `i` is the LAST occurrence of `p` in `s`
pub open spec fn last_occurrence(s: Seq<char>, p: Seq<char>, i: int) -> bool {
    occurs_at(s, p, i) && forall|j: int| i < j ==> !#[trigger] occurs_at(s, p, j)
}

/// `str::split_once(p)` — std doc: "Splits the string on the first occurrence of the specified
/// delimiter and returns prefix before delimiter and suffix after delimiter." `None` iff no occurrence.
pub open spec fn split_once_spec(s: Seq<char>, p: Seq<char>) -> Option<(Seq<char>, Seq<char>)> {
    if exists|i: int| #[trigger] occurs_at(s, p, i) {
        let i = choose|i: int| #[trigger] first_occurrence(s, p, i);
        Some((s.subrange(0, i), s.subrange(i + p.len(), s.len() as int)))
    } else {
        None
    }
}

/// `str::rsplit_once(p)` — std doc: "Splits the string on the last occurrence of the specified
/// delimiter ...". Only reachable if the code regresses to it.
pub open spec fn rsplit_once_spec(s: Seq<char>, p: Seq<char>) -> Option<(Seq<char>, Seq<char>)> {
    if exists|i: int| #[trigger] occurs_at(s, p, i) {
        let i = choose|i: int| #[trigger] last_occurrence(s, p, i);
        Some((s.subrange(0, i), s.subrange(i + p.len(), s.len() as int)))
    } else {
        None
    }
}

pub open spec fn opt_pair_view(o: Option<(&str, &str)>) -> Option<(Seq<char>, Seq<char>)> {
    match o { Some(p) => Some((p.0@, p.1@)), None => None }
}

#[verifier::external_body]
pub fn verif_split_once_str<'a>(s: &'a str, p: &str) -> (r: Option<(&'a str, &'a str)>)
    ensures opt_pair_view(r) == split_once_spec(s@, p@),
{ s.split_once(p) }

#[verifier::external_body]
pub fn verif_rsplit_once_str<'a>(s: &'a str, p: &str) -> (r: Option<(&'a str, &'a str)>)
    ensures opt_pair_view(r) == rsplit_once_spec(s@, p@),
{ s.rsplit_once(p) }

// ---- facts about occurrences of a one-character pattern (proved, not assumed) ------------------------
/// a one-character pattern occurs at `i` iff the character at `i` is that character
pub proof fn lemma_occurs_at_char(s: Seq<char>, c: char, i: int)
    ensures occurs_at(s, seq![c], i) <==> (0 <= i < s.len() && s[i] == c),
{
    let p = seq![c];
    assert(p.len() == 1 && p[0] == c);
    if 0 <= i < s.len() {
        if s[i] == c {
            assert(s.subrange(i, i + 1) =~= p);
        } else {
            assert(s.subrange(i, i + 1)[0] == s[i]);
        }
    }
}

/// some occurrence => there is a first one (well-foundedness of the naturals)
pub proof fn lemma_first_occurrence_exists(s: Seq<char>, p: Seq<char>, i: int)
    requires occurs_at(s, p, i),
    ensures exists|k: int| 0 <= k <= i && #[trigger] first_occurrence(s, p, k),
    decreases i,
{
    if forall|j: int| 0 <= j < i ==> !#[trigger] occurs_at(s, p, j) {
        assert(first_occurrence(s, p, i));
    } else {
        let j = choose|j: int| 0 <= j < i && #[trigger] occurs_at(s, p, j);
        lemma_first_occurrence_exists(s, p, j);
    }
}

/// the first occurrence is unique
pub proof fn lemma_first_occurrence_unique(s: Seq<char>, p: Seq<char>, i: int, k: int)
    requires first_occurrence(s, p, i), first_occurrence(s, p, k),
    ensures i == k,
{
    if i < k { assert(!occurs_at(s, p, i)); }
    if k < i { assert(!occurs_at(s, p, k)); }
}

/// `split_once_spec` in elementary terms: `None` iff no occurrence; otherwise the texts before and
/// after THE first occurrence.
pub proof fn lemma_split_once_spec(s: Seq<char>, p: Seq<char>)
    ensures
        split_once_spec(s, p) is None <==> (forall|i: int| !#[trigger] occurs_at(s, p, i)),
        forall|i: int| #[trigger] first_occurrence(s, p, i) ==>
            split_once_spec(s, p) == Some((s.subrange(0, i), s.subrange(i + p.len(), s.len() as int))),
{
    assert forall|i: int| #[trigger] first_occurrence(s, p, i) implies
        split_once_spec(s, p) == Some((s.subrange(0, i), s.subrange(i + p.len(), s.len() as int))) by {
        assert(occurs_at(s, p, i));
        let k = choose|k: int| #[trigger] first_occurrence(s, p, k);
        lemma_first_occurrence_unique(s, p, i, k);
    }
}

// ---- `PathBuf::from(&str)` via `Into` (generic over the target type) ----------------------------------
/// `PathBuf::from(&str)`: a function of the text. Deliberately uninterpreted and *not* assumed
/// injective (`PathBuf` equality is component-wise: "a//b" == "a/b"). Same as prelude/diff_patchset.rs.
pub uninterp spec fn path_of(s: Seq<char>) -> std::path::PathBuf;

pub trait VerifIntoPath {
    spec fn ptext(&self) -> Seq<char>;
    fn into_pb(self) -> (r: std::path::PathBuf)
        ensures r == path_of(self.ptext());
}

impl<'a> VerifIntoPath for &'a str {
    open spec fn ptext(&self) -> Seq<char> { (*self)@ }
    #[verifier::external_body]
    fn into_pb(self) -> (r: std::path::PathBuf) { self.into() }
}

impl<'a> VerifIntoPath for &'a String {
    open spec fn ptext(&self) -> Seq<char> { (*self)@ }
    #[verifier::external_body]
    fn into_pb(self) -> (r: std::path::PathBuf) { self.into() }
}

impl VerifIntoPath for String {
    open spec fn ptext(&self) -> Seq<char> { self@ }
    #[verifier::external_body]
    fn into_pb(self) -> (r: std::path::PathBuf) { self.into() }
}

/// E13: `x.into()` with target `PathBuf`
pub fn verif_str_into_pathbuf<T: VerifIntoPath>(s: T) -> (r: std::path::PathBuf)
    ensures r == path_of(s.ptext()),
{ s.into_pb() }

// ---- anyhow::Context on Option (T-ext stand-in, body = anyhow's source) -------------------------------
/// `Option<T>::context(c)` — anyhow-1 source: `match self { Some(ok) => Ok(ok), None =>
/// Err(Error::msg(context)) }`. The context text is dropped (rule E1).
pub fn verif_opt_context<T, C>(o: Option<T>, c: C) -> (r: anyhow::Result<T>)
    ensures
        o matches Some(v) ==> r == Ok::<T, anyhow::Error>(v),
        o is None ==> r is Err,
{
    match o {
        Some(ok) => Ok(ok),
        None => Err(anyhow::verif_err()),
    }
}

// ---- `Option<&String>::map(String::as_str)` (a path to a method as the mapped function) ---------------
/// E13: shim whose body is the identical std call
#[verifier::external_body]
pub fn verif_opt_as_str<'a>(o: Option<&'a String>) -> (r: Option<&'a str>)
    ensures opt_view(r) == (match o { Some(s) => Some(s@), None => None }),
{ o.map(String::as_str) }
