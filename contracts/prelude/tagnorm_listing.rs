// T-std additions of group `listreport` (included inside `verus! { .. }`, after prelude/orch_model.rs).

// ---- rule E13: `v.sort_by_key(f)` with a `u64` key ---------------------------------------------------
// std doc of `<[T]>::sort_by_key`: "Sorts the slice in ascending order with a key extraction function,
// preserving initial order of equal elements. This sort is stable (i.e., does not reorder equal
// elements)". Hence: the result is a permutation of the input, ascending by key, and elements with
// equal keys keep their relative order; it is a function of the input sequence and the key function.
// (`sort_by_key` is generic in `K: Ord`; a shim fixes `K = u64`, its body is the identical std call.)

/// some position of `p` holds `k`
pub open spec fn perm_hits(p: Seq<int>, k: int) -> bool {
    exists|i: int| 0 <= i < p.len() && #[trigger] p[i] == k
}

/// `p` maps positions of the sorted sequence `b` to positions of the input `a`: a bijection that
/// respects the keys' order and, among equal keys, the input order.
pub open spec fn stable_sort_witness<T>(p: Seq<int>, a: Seq<T>, b: Seq<T>, key: spec_fn(T) -> u64) -> bool {
    &&& p.len() == a.len() && b.len() == a.len()
    &&& forall|i: int| 0 <= i < p.len() ==> 0 <= #[trigger] p[i] < a.len() && b[i] == a[p[i]]
    &&& forall|i: int, j: int| 0 <= i < j < p.len() ==> #[trigger] p[i] != #[trigger] p[j]
    &&& forall|k: int| 0 <= k < a.len() ==> #[trigger] perm_hits(p, k)
    &&& forall|i: int, j: int| 0 <= i < j < b.len() ==> key(#[trigger] b[i]) <= key(#[trigger] b[j])
    &&& forall|i: int, j: int| 0 <= i < j < b.len() && key(b[i]) == key(b[j]) ==> #[trigger] p[i] < #[trigger] p[j]
}

/// the stable sort of `a` by `key` (std's `sort_by_key` as a function)
pub uninterp spec fn stable_sort_by_key_spec<T>(a: Seq<T>, key: spec_fn(T) -> u64) -> Seq<T>;

#[verifier::external_body]
pub fn verif_sort_by_key_u64<T, F: FnMut(&T) -> u64>(v: &mut Vec<T>, f: F, Ghost(key): Ghost<spec_fn(T) -> u64>)
    requires
        forall|a: &T| #[trigger] call_requires(f, (a,)), // [std.sort_by_key.pre.callable]
        forall|a: &T, k: u64| #[trigger] call_ensures(f, (a,), k) ==> k == key(*a), // [std.sort_by_key.pre.key_is_function_of_element]
    ensures
        final(v)@ == stable_sort_by_key_spec(old(v)@, key),
        final(v)@.to_multiset() == old(v)@.to_multiset(),
        exists|p: Seq<int>| #[trigger] stable_sort_witness(p, old(v)@, final(v)@, key),
{ v.sort_by_key(f) }

// ---- rule E4: shared iteration over a hash map -------------------------------------------------------
// `for (k, v) in &M` (`IntoIterator for &HashMap` is `M.iter()`; std doc: "An iterator visiting all
// key-value pairs in arbitrary order"): a duplicate-free sequence of (key, value) references, in
// ARBITRARY order, whose map view is `M@` (same statement as `entries_raw` of prelude/orch_maps.rs,
// for borrowed entries).
pub open spec fn entries_ref_raw<K, V>(ents: Seq<(&K, &V)>, m: Map<K, V>) -> bool {
    &&& forall|i: int| 0 <= i < ents.len() ==> m.contains_key(*(#[trigger] ents[i]).0) && m[*ents[i].0] == *ents[i].1
    &&& forall|i: int, j: int| 0 <= i < j < ents.len() ==> *(#[trigger] ents[i]).0 != *(#[trigger] ents[j]).0
    &&& forall|k: K| m.contains_key(k) ==> exists|i: int| 0 <= i < ents.len() && *(#[trigger] ents[i]).0 == k
}

#[verifier::external_body]
pub fn verif_entries_ref<'a, K, V>(m: &'a HashMap<K, V>) -> (r: Vec<(&'a K, &'a V)>)
    ensures
        vstd::std_specs::hash::obeys_key_model::<K>() ==> entries_ref_raw(r@, m@),
{
    m.iter().collect()
}

/// `PathBuf::clone` — std: a clone is equal to the original
pub assume_specification[ <PathBuf as Clone>::clone ](p: &PathBuf) -> (r: PathBuf)
    ensures r == *p;
