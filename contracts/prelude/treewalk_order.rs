// Group `treewalk`: why pre-order is source order (proved; nothing here is used by the units).
// Included INSIDE the group's `verus! { .. }` block after treewalk_tree.rs and treewalk_ts.rs.
//
// Hypothesis `spans_ordered` (T-ext, a property of tree-sitter syntax trees, NOT proved and not
// assumed by any unit — it is the explicit premise of the two lemmas at the end): a node's byte
// span is not reversed, the spans of its children lie inside it, and the children are ordered by
// position without overlap.

pub open spec fn n_start(n: Node<'_>) -> int { n.spec_start_byte() as int }
pub open spec fn n_end(n: Node<'_>) -> int { n.spec_end_byte() as int }

pub open spec fn spans_ordered(t: GTree<Node<'_>>) -> bool
    decreases t, 0int
{
    &&& n_start(t.node) <= n_end(t.node)
    &&& spans_ordered_forest(t.kids, t.kids.len() as int, n_start(t.node), n_end(t.node))
}

/// the first `n` trees of `ks` are well-formed, lie inside `[lo, hi]`, and follow one another
pub open spec fn spans_ordered_forest(ks: Seq<GTree<Node<'_>>>, n: int, lo: int, hi: int) -> bool
    decreases ks, n
{
    if n <= 0 || n > ks.len() {
        true
    } else {
        &&& spans_ordered_forest(ks, n - 1, lo, hi)
        &&& spans_ordered(ks[n - 1])
        &&& lo <= n_start(ks[n - 1].node)
        &&& n_end(ks[n - 1].node) <= hi
        &&& (n >= 2 ==> n_end(ks[n - 2].node) <= n_start(ks[n - 1].node))
    }
}

/// `s` is ordered by start byte and all of it lies inside `[lo, hi]`
pub open spec fn sorted_within(s: Seq<Node<'_>>, lo: int, hi: int) -> bool {
    &&& forall|i: int| 0 <= i < s.len() ==> lo <= n_start(#[trigger] s[i]) <= n_end(s[i]) <= hi
    &&& forall|i: int, j: int| 0 <= i < j < s.len() ==> n_start(#[trigger] s[i]) <= n_start(#[trigger] s[j])
}

pub proof fn lemma_pre_sorted(t: GTree<Node<'_>>)
    requires spans_ordered(t),
    ensures sorted_within(pre(t), n_start(t.node), n_end(t.node)),
    decreases t, 0int
{
    let n = t.kids.len() as int;
    lemma_forest_sorted(t.kids, n, n_start(t.node), n_end(t.node));
    let f = forest(t.kids, n);
    let s = pre(t);
    assert(forall|i: int| 1 <= i < s.len() ==> #[trigger] s[i] == f[i - 1]);
    assert(s[0] == t.node);
}

pub proof fn lemma_forest_sorted(ks: Seq<GTree<Node<'_>>>, n: int, lo: int, hi: int)
    requires 0 <= n <= ks.len(), spans_ordered_forest(ks, n, lo, hi), lo <= hi,
    ensures
        sorted_within(forest(ks, n), lo, hi),
        n >= 1 ==> forall|i: int| 0 <= i < forest(ks, n).len() ==> n_end(#[trigger] forest(ks, n)[i]) <= n_end(ks[n - 1].node),
    decreases ks, n
{
    if n >= 1 {
        lemma_forest_sorted(ks, n - 1, lo, hi);
        lemma_pre_sorted(ks[n - 1]);
        assert(spans_ordered(ks[n - 1]));
        assert(n_start(ks[n - 1].node) <= n_end(ks[n - 1].node));
        let a = forest(ks, n - 1);
        let b = pre(ks[n - 1]);
        let f = forest(ks, n);
        assert(f == a + b);
        assert(forall|i: int| 0 <= i < a.len() ==> #[trigger] f[i] == a[i]);
        assert(forall|i: int| a.len() <= i < f.len() ==> #[trigger] f[i] == b[i - a.len()]);
        if n >= 2 {
            assert(forall|i: int| 0 <= i < a.len() ==> n_end(#[trigger] a[i]) <= n_start(ks[n - 1].node));
        } else {
            assert(a.len() == 0);
        }
        assert forall|i: int, j: int| 0 <= i < j < f.len() implies n_start(#[trigger] f[i]) <= n_start(#[trigger] f[j]) by {
            if j < a.len() {
                assert(f[i] == a[i] && f[j] == a[j]);
            } else if i >= a.len() {
                assert(f[i] == b[i - a.len()] && f[j] == b[j - a.len()]);
            } else {
                assert(f[i] == a[i] && f[j] == b[j - a.len()]);
                assert(n_end(a[i]) <= n_start(ks[n - 1].node));
            }
        }
        assert forall|i: int| 0 <= i < f.len() implies lo <= n_start(#[trigger] f[i]) <= n_end(f[i]) <= hi
            && n_end(f[i]) <= n_end(ks[n - 1].node) by {
            if i < a.len() {
                assert(f[i] == a[i]);
                if n >= 2 { assert(n_end(a[i]) <= n_start(ks[n - 1].node)); }
            } else {
                assert(f[i] == b[i - a.len()]);
            }
        }
    }
}
