// Group `treewalk`, pure mathematics (nothing assumed, every lemma below is proved): finite ordered
// trees, their pre-order listing, and the position ("path") of a node in a tree.
// Included INSIDE the group's `verus! { .. }` block.
//
// A tree is a node value plus the ordered sequence of its child trees. `GTree` is an inductive
// datatype, so a tree is finite by construction (what "a syntax tree" means).
pub ghost struct GTree<N> {
    pub node: N,
    pub kids: Seq<GTree<N>>,
}

/// Pre-order (depth-first) listing, textbook definition: the node itself, then the listing of its
/// first child's subtree, then of its second child's subtree, ... (children before later siblings).
pub open spec fn pre<N>(t: GTree<N>) -> Seq<N>
    decreases t, 0int
{
    seq![t.node] + forest(t.kids, t.kids.len() as int)
}

/// The pre-order listings of the first `n` trees of `ks`, one after the other.
pub open spec fn forest<N>(ks: Seq<GTree<N>>, n: int) -> Seq<N>
    decreases ks, n
{
    if n <= 0 || n > ks.len() { Seq::empty() } else { forest(ks, n - 1) + pre(ks[n - 1]) }
}

/// number of nodes
pub open spec fn size<N>(t: GTree<N>) -> int { pre(t).len() as int }

/// A path names a node: the child indices to follow from the root (empty = the root itself).
/// `sub(t, p)` is the subtree rooted at that node.
pub open spec fn sub<N>(t: GTree<N>, p: Seq<int>) -> GTree<N>
    decreases p.len()
{
    if p.len() == 0 { t } else { sub(t, p.drop_last()).kids[p.last()] }
}

/// `p` names a node of `t`
pub open spec fn valid<N>(t: GTree<N>, p: Seq<int>) -> bool
    decreases p.len()
{
    p.len() == 0 || (valid(t, p.drop_last()) && 0 <= p.last() < sub(t, p.drop_last()).kids.len())
}

/// the node at `p` has a next sibling (the root has none)
pub open spec fn has_next_sibling<N>(t: GTree<N>, p: Seq<int>) -> bool {
    p.len() > 0 && p.last() + 1 < sub(t, p.drop_last()).kids.len()
}

pub open spec fn next_sibling_path(p: Seq<int>) -> Seq<int> { p.drop_last().push(p.last() + 1) }

/// Number of nodes listed before the node at `p` in `pre(t)`, computed along the path: everything
/// before the parent, the parent itself, and the whole subtrees of the earlier siblings.
/// (`lemma_node_at_rank` proves that this is the node's index in `pre(t)`.)
pub open spec fn rank<N>(t: GTree<N>, p: Seq<int>) -> int
    decreases p.len()
{
    if p.len() == 0 { 0 } else { rank(t, p.drop_last()) + 1 + forest(sub(t, p.drop_last()).kids, p.last()).len() }
}

pub proof fn lemma_forest_mono<N>(ks: Seq<GTree<N>>, c: int, n: int)
    requires 0 <= c <= n <= ks.len(),
    ensures forest(ks, c).len() <= forest(ks, n).len(),
    decreases n - c
{
    if c < n { lemma_forest_mono(ks, c, n - 1); }
}

/// the listing of the c-th tree sits inside `forest(ks, n)` right after the first c listings
pub proof fn lemma_forest_at<N>(ks: Seq<GTree<N>>, c: int, n: int, j: int)
    requires 0 <= c < n <= ks.len(), 0 <= j < pre(ks[c]).len(),
    ensures
        forest(ks, c).len() + j < forest(ks, n).len(),
        forest(ks, n)[forest(ks, c).len() + j] == pre(ks[c])[j],
    decreases n
{
    if c < n - 1 {
        lemma_forest_at(ks, c, n - 1, j);
    }
}

/// The subtree at `p` occupies the contiguous segment of `pre(t)` that starts at `rank(t, p)`.
pub proof fn lemma_segment<N>(t: GTree<N>, p: Seq<int>, j: int)
    requires valid(t, p), 0 <= j < size(sub(t, p)),
    ensures
        0 <= rank(t, p),
        rank(t, p) + j < size(t),
        pre(t)[rank(t, p) + j] == pre(sub(t, p))[j],
    decreases p.len()
{
    if p.len() > 0 {
        let q = p.drop_last();
        let c = p.last();
        let s = sub(t, q);
        let n = s.kids.len() as int;
        lemma_forest_at(s.kids, c, n, j);
        let j2 = 1 + forest(s.kids, c).len() + j;
        assert(pre(s)[j2] == forest(s.kids, n)[forest(s.kids, c).len() + j]);
        lemma_segment(t, q, j2);
    }
}

/// `rank` is the pre-order index: the node at `p` is `pre(t)[rank(t, p)]`, and its whole subtree fits.
pub proof fn lemma_node_at_rank<N>(t: GTree<N>, p: Seq<int>)
    requires valid(t, p),
    ensures
        0 <= rank(t, p) < size(t),
        size(sub(t, p)) >= 1,
        rank(t, p) + size(sub(t, p)) <= size(t),
        pre(t)[rank(t, p)] == sub(t, p).node,
{
    lemma_segment(t, p, 0);
    lemma_segment(t, p, size(sub(t, p)) - 1);
}

/// Everything the traversal needs to know about the three cursor moves from the node at `p`
/// (first child / next sibling / parent), in terms of pre-order indices.
pub proof fn lemma_moves<N>(t: GTree<N>, p: Seq<int>)
    requires valid(t, p),
    ensures
        // the node itself
        0 <= rank(t, p) < size(t),
        size(sub(t, p)) >= 1,
        rank(t, p) + size(sub(t, p)) <= size(t),
        pre(t)[rank(t, p)] == sub(t, p).node,
        p.len() == 0 ==> rank(t, p) == 0 && size(sub(t, p)) == size(t),
        // first child: the next node in pre-order
        sub(t, p).kids.len() > 0 ==> valid(t, p.push(0)) && rank(t, p.push(0)) == rank(t, p) + 1
            && rank(t, p) + 1 < size(t) && pre(t)[rank(t, p) + 1] == sub(t, p.push(0)).node,
        // a leaf is its whole subtree
        sub(t, p).kids.len() == 0 ==> size(sub(t, p)) == 1,
        // next sibling: the node right after this node's subtree
        has_next_sibling(t, p) ==> valid(t, next_sibling_path(p))
            && rank(t, next_sibling_path(p)) == rank(t, p) + size(sub(t, p))
            && rank(t, p) + size(sub(t, p)) < size(t)
            && pre(t)[rank(t, p) + size(sub(t, p))] == sub(t, next_sibling_path(p)).node,
        // parent of a last child: its subtree ends where the child's subtree ends
        p.len() > 0 ==> valid(t, p.drop_last()),
        p.len() > 0 && !has_next_sibling(t, p) ==>
            rank(t, p.drop_last()) + size(sub(t, p.drop_last())) == rank(t, p) + size(sub(t, p)),
{
    lemma_node_at_rank(t, p);
    let s = sub(t, p);
    if s.kids.len() > 0 {
        let p1 = p.push(0);
        assert(p1.drop_last() =~= p);
        assert(forest(s.kids, 0).len() == 0);
        lemma_node_at_rank(t, p1);
    } else {
        assert(forest(s.kids, 0).len() == 0);
    }
    if p.len() > 0 {
        let q = p.drop_last();
        let c = p.last();
        let ks = sub(t, q).kids;
        assert(forest(ks, c + 1) == forest(ks, c) + pre(ks[c]));
        if has_next_sibling(t, p) {
            let p2 = next_sibling_path(p);
            assert(p2.drop_last() =~= q);
            assert(p2.last() == c + 1);
            lemma_node_at_rank(t, p2);
        } else {
            assert(c + 1 == ks.len());
        }
    }
}

/// Sanity example of the definitions (proved): the tree a(b(c), d) lists as a, b, c, d; the node
/// `d` (path [1]) has pre-order index 3 and `c` (path [0, 0]) index 2.
pub proof fn example_preorder<N>(a: N, b: N, c: N, d: N)
    ensures
        ({
            let tc = GTree { node: c, kids: Seq::<GTree<N>>::empty() };
            let td = GTree { node: d, kids: Seq::<GTree<N>>::empty() };
            let tb = GTree { node: b, kids: seq![tc] };
            let ta = GTree { node: a, kids: seq![tb, td] };
            &&& pre(ta) =~= seq![a, b, c, d]
            &&& valid(ta, seq![1int]) && rank(ta, seq![1int]) == 3 && sub(ta, seq![1int]).node == d
            &&& valid(ta, seq![0int, 0int]) && rank(ta, seq![0int, 0int]) == 2 && sub(ta, seq![0int, 0int]).node == c
            &&& !valid(ta, seq![2int]) && !has_next_sibling(ta, seq![1int]) && has_next_sibling(ta, seq![0int])
        }),
{
    let tc = GTree { node: c, kids: Seq::<GTree<N>>::empty() };
    let td = GTree { node: d, kids: Seq::<GTree<N>>::empty() };
    let tb = GTree { node: b, kids: seq![tc] };
    let ta = GTree { node: a, kids: seq![tb, td] };
    reveal_with_fuel(forest, 4);
    reveal_with_fuel(pre, 4);
    reveal_with_fuel(valid, 3);
    reveal_with_fuel(sub, 3);
    reveal_with_fuel(rank, 3);
    assert(pre(tc) =~= seq![c]);
    assert(pre(td) =~= seq![d]);
    assert(pre(tb) =~= seq![b, c]);
    assert(pre(ta) =~= seq![a, b, c, d]);
    assert(seq![1int].drop_last() =~= Seq::<int>::empty());
    assert(seq![0int].drop_last() =~= Seq::<int>::empty());
    assert(seq![2int].drop_last() =~= Seq::<int>::empty());
    assert(seq![0int, 0int].drop_last() =~= seq![0int]);
}
