// Stand-ins and shims of the merge group (V7). Included inside `verus! { .. }` after orch_model.rs.
//
// Rule E10 — THREADS AND TASKS ARE NOT MODELLED. `std::thread::spawn(move || v.validate(ctx))` is
// replaced by `verif_spawn_validate(v, ctx)`, whose handle's `join()` returns what the closure
// would have returned when run to completion (`Ok(validate result)`), or `Err(panic payload)` when
// it panics. Nothing is said about interleavings, data races, deadlocks or scheduling; the only
// fact taken from std is the documented contract of `JoinHandle::join` ("Waits for the associated
// thread to finish ... If the associated thread panics, Err is returned with the parameter given
// to panic"). The same holds for `tokio::task::JoinSet::join_next`.

/// What a joined thread / task delivers.
pub enum ThreadOutcome {
    /// the closure panicked
    Panicked,
    /// the closure returned `validate`'s result (`None` = `Err`)
    Finished(Option<SpecViolations>),
}

pub open spec fn outcome_of_sync(v: Box<dyn ValidatorSync>, ctx: ValidationContext) -> ThreadOutcome {
    if v.validate_panics(ctx) { ThreadOutcome::Panicked } else { ThreadOutcome::Finished(v.validate_spec(ctx)) }
}

/// `Box<dyn Any + Send + 'static>`, the payload of a panic (opaque)
#[verifier::external_body]
pub struct VerifPanic { p: Box<dyn std::any::Any + Send + 'static> }

/// `std::thread::JoinHandle<anyhow::Result<HashMap<PathBuf, Vec<Violation>>>>` (opaque)
#[verifier::external_body]
pub struct VerifJoinHandle { h: std::thread::JoinHandle<anyhow::Result<HashMap<PathBuf, Vec<Violation>>>> }

pub uninterp spec fn join_outcome(h: VerifJoinHandle) -> ThreadOutcome;

impl VerifJoinHandle {
    /// `JoinHandle::join`
    #[verifier::external_body]
    pub fn join(self) -> (r: Result<anyhow::Result<HashMap<PathBuf, Vec<Violation>>>, VerifPanic>)
        ensures
            r is Err <==> join_outcome(self) is Panicked,
            r matches Ok(Ok(m)) ==> join_outcome(self) == ThreadOutcome::Finished(Some(vmap(m@))),
            r matches Ok(Err(_)) ==> join_outcome(self) == ThreadOutcome::Finished(None),
    {
        self.h.join().map_err(|p| VerifPanic { p })
    }
}

/// E10: `std::thread::spawn(move || validator.validate(context))`
#[verifier::external_body]
pub fn verif_spawn_validate(validator: Box<dyn ValidatorSync>, context: Arc<ValidationContext>) -> (h: VerifJoinHandle)
    ensures join_outcome(h) == outcome_of_sync(validator, *context),
{
    VerifJoinHandle { h: std::thread::spawn(move || validator.validate(context)) }
}

/// `tokio::task::JoinSet<anyhow::Result<HashMap<PathBuf, Vec<Violation>>>>` (opaque). Its ghost
/// content is the *multiset* of outcomes of the tasks not yet joined: `join_next` hands them out in
/// an arbitrary (completion) order.
#[verifier::external_body]
pub struct VerifJoinSet { _opaque: u8 }

/// `tokio::task::JoinError` (opaque)
#[verifier::external_body]
pub struct VerifJoinError { _opaque: u8 }

pub uninterp spec fn pending(s: VerifJoinSet) -> Multiset<ThreadOutcome>;

impl VerifJoinSet {
    /// E10: `tasks.join_next().await` — std/tokio doc: "Waits until one of the tasks in the set
    /// completes and returns its output. Returns None if the set is empty."
    #[verifier::external_body]
    pub fn join_next(&mut self) -> (r: Option<Result<anyhow::Result<HashMap<PathBuf, Vec<Violation>>>, VerifJoinError>>)
        ensures
            r is None <==> pending(*old(self)).len() == 0,
            r is None ==> pending(*final(self)) == pending(*old(self)),
            r matches Some(res) ==> exists|o: ThreadOutcome| #[trigger] pending(*old(self)).count(o) > 0
                && pending(*final(self)) == pending(*old(self)).remove(o)
                && (res is Err <==> o is Panicked)
                && (res matches Ok(Ok(m)) ==> o == ThreadOutcome::Finished(Some(vmap(m@))))
                && (res matches Ok(Err(_)) ==> o == ThreadOutcome::Finished(None)),
    {
        unimplemented!()
    }
}

