// Group `langclosures`, units MD1/MD2: the merge of two block lists (`itertools::Itertools::merge`),
// its specification and PROVED consequences. Included inside `verus! { .. }` after
// prelude/blockp_types.rs (Position, Block, pos_cmp, pos_le); the group file needs
// `use vstd::std_specs::cmp::PartialOrdSpec;`.

/// the key `impl Ord for Block` compares: the position of the start tag's `<`
pub open spec fn block_key(b: Block) -> Position { b.start_tag_position_range@.start }

/// `impl Ord for Block` as a specification (src/blocks.rs: start().cmp(other.start()))
spec fn block_cmp(a: Block, b: Block) -> Ordering { pos_cmp(block_key(a), block_key(b)) }

/// `pos_cmp` / `block_cmp` once more as PUBLIC functions (`pos_cmp` of prelude/blockp_types.rs is private, and
/// a trait-impl method is public): lets the `Ord` / `PartialOrd` impl units carry a labelled `ensures`.
/// Same definition, so the two agree by unfolding.
pub open spec fn langc_pos_cmp(a: Position, b: Position) -> Ordering {
    if a.line < b.line { Ordering::Less } else if a.line > b.line { Ordering::Greater }
    else if a.character < b.character { Ordering::Less } else if a.character > b.character { Ordering::Greater }
    else { Ordering::Equal }
}
pub open spec fn langc_block_cmp(a: Block, b: Block) -> Ordering {
    langc_pos_cmp(a.start_tag_position_range@.start, b.start_tag_position_range@.start)
}

/// C03 "blocks are reported in source order": ascending start-tag positions (the clause
/// `P1.post.sorted_by_start_tag` of group blockpairs, as a predicate)
spec fn blocks_sorted(s: Seq<Block>) -> bool {
    forall|i: int, j: int| 0 <= i < j < s.len() ==> pos_le(block_key(#[trigger] s[i]), block_key(#[trigger] s[j]))
}

/// `a <= b` as std defines it for a type that only implements `partial_cmp` (core::cmp::PartialOrd::le:
/// `matches!(self.partial_cmp(other), Some(Less | Equal))`)
pub open spec fn le_spec<T: PartialOrd>(a: T, b: T) -> bool {
    a.partial_cmp_spec(&b) == Some(Ordering::Less) || a.partial_cmp_spec(&b) == Some(Ordering::Equal)
}

/// The merge of two sequences as itertools computes it (itertools 0.14.0 src/merge_join.rs, `MergeLte`:
/// `if left <= right { yield left, put right back } else { yield right, put left back }`; an exhausted side
/// hands over to the other): ties are taken from the FIRST sequence.
pub open spec fn merge_seq<T: PartialOrd>(a: Seq<T>, b: Seq<T>) -> Seq<T>
    decreases a.len() + b.len()
{
    if a.len() == 0 { b }
    else if b.len() == 0 { a }
    else if le_spec(a[0], b[0]) { seq![a[0]] + merge_seq(a.drop_first(), b) }
    else { seq![b[0]] + merge_seq(a, b.drop_first()) }
}

/// T-ext (external crate, cannot be linked into a single-file Verus run => body `unimplemented!()`):
/// `a.into_iter().merge(b).collect::<Vec<_>>()`. itertools doc of `Itertools::merge`: "Return an iterator
/// adaptor that merges the two base iterators in ascending order. If both base iterators are sorted
/// (ascending), the result is sorted. Iterator element type is Self::Item." The specification is the
/// function the crate's source computes (`merge_seq`); "permutation" and "sorted if both are sorted" are
/// PROVED from it below (lemma_merge_perm, lemma_merge_sorted), not assumed.
#[verifier::external_body]
pub fn verif_merge_collect<T: PartialOrd>(a: Vec<T>, b: Vec<T>) -> (r: Vec<T>)
    requires <T as PartialOrdSpec>::obeys_partial_cmp_spec(), // [itertools.merge.shim.pre.partial_cmp_is_specified]
    ensures r@ == merge_seq(a@, b@)
{ unimplemented!() }

/// Rule E13 shim, ON DEMAND (only a regression uses it): `a.into_iter().chain(b).collect::<Vec<_>>()` -
/// std doc of `Iterator::chain`: "Takes two iterators and creates a new iterator over both in sequence."
#[verifier::external_body]
pub fn verif_chain_collect<T>(a: Vec<T>, b: Vec<T>) -> (r: Vec<T>)
    ensures r@ == a@ + b@
{ a.into_iter().chain(b).collect() }

// ---- proved consequences of `merge_seq` for blocks ----------------------------------------------------

/// `x` is at or before every block of `s`
spec fn key_lower_bound(x: Position, s: Seq<Block>) -> bool {
    forall|k: int| 0 <= k < s.len() ==> pos_le(x, block_key(#[trigger] s[k]))
}

/// nothing lost, nothing added, nothing duplicated (proved)
proof fn lemma_merge_perm(a: Seq<Block>, b: Seq<Block>)
    ensures
        merge_seq(a, b).len() == a.len() + b.len(),
        merge_seq(a, b).to_multiset() == a.to_multiset().add(b.to_multiset()),
    decreases a.len() + b.len()
{
    broadcast use vstd::seq_lib::group_to_multiset_ensures;
    if a.len() == 0 {
        assert(a.to_multiset() =~= vstd::multiset::Multiset::<Block>::empty());
        assert(a.to_multiset().add(b.to_multiset()) =~= b.to_multiset());
    } else if b.len() == 0 {
        assert(b.to_multiset() =~= vstd::multiset::Multiset::<Block>::empty());
        assert(a.to_multiset().add(b.to_multiset()) =~= a.to_multiset());
    } else if le_spec(a[0], b[0]) {
        let a1 = a.drop_first();
        lemma_merge_perm(a1, b);
        vstd::seq_lib::lemma_multiset_commutative(seq![a[0]], merge_seq(a1, b));
        vstd::seq_lib::lemma_multiset_commutative(seq![a[0]], a1);
        assert(seq![a[0]] + a1 =~= a);
        assert(merge_seq(a, b).to_multiset() =~= a.to_multiset().add(b.to_multiset()));
    } else {
        let b1 = b.drop_first();
        lemma_merge_perm(a, b1);
        vstd::seq_lib::lemma_multiset_commutative(seq![b[0]], merge_seq(a, b1));
        vstd::seq_lib::lemma_multiset_commutative(seq![b[0]], b1);
        assert(seq![b[0]] + b1 =~= b);
        assert(merge_seq(a, b).to_multiset() =~= a.to_multiset().add(b.to_multiset()));
    }
}

/// a lower bound of both inputs is a lower bound of the merge (proved)
proof fn lemma_merge_lower_bound(a: Seq<Block>, b: Seq<Block>, x: Position)
    requires key_lower_bound(x, a), key_lower_bound(x, b)
    ensures key_lower_bound(x, merge_seq(a, b))
    decreases a.len() + b.len()
{
    if a.len() == 0 || b.len() == 0 {
    } else if le_spec(a[0], b[0]) {
        let a1 = a.drop_first();
        assert forall|k: int| 0 <= k < a1.len() implies pos_le(x, block_key(#[trigger] a1[k])) by { assert(a1[k] == a[k + 1]); }
        lemma_merge_lower_bound(a1, b, x);
        let m1 = merge_seq(a1, b);
        assert forall|k: int| 0 <= k < merge_seq(a, b).len() implies pos_le(x, block_key(#[trigger] merge_seq(a, b)[k])) by {
            if k == 0 { assert(merge_seq(a, b)[0] == a[0]); } else { assert(merge_seq(a, b)[k] == m1[k - 1]); }
        }
    } else {
        let b1 = b.drop_first();
        assert forall|k: int| 0 <= k < b1.len() implies pos_le(x, block_key(#[trigger] b1[k])) by { assert(b1[k] == b[k + 1]); }
        lemma_merge_lower_bound(a, b1, x);
        let m1 = merge_seq(a, b1);
        assert forall|k: int| 0 <= k < merge_seq(a, b).len() implies pos_le(x, block_key(#[trigger] merge_seq(a, b)[k])) by {
            if k == 0 { assert(merge_seq(a, b)[0] == b[0]); } else { assert(merge_seq(a, b)[k] == m1[k - 1]); }
        }
    }
}

/// "If both base iterators are sorted (ascending), the result is sorted" (proved, for `Block`'s order)
proof fn lemma_merge_sorted(a: Seq<Block>, b: Seq<Block>)
    requires blocks_sorted(a), blocks_sorted(b)
    ensures blocks_sorted(merge_seq(a, b))
    decreases a.len() + b.len()
{
    if a.len() == 0 || b.len() == 0 {
    } else if le_spec(a[0], b[0]) {
        let a1 = a.drop_first();
        let x = block_key(a[0]);
        assert(blocks_sorted(a1)) by {
            assert forall|i: int, j: int| 0 <= i < j < a1.len() implies pos_le(block_key(#[trigger] a1[i]), block_key(#[trigger] a1[j])) by {
                assert(a1[i] == a[i + 1] && a1[j] == a[j + 1]);
            }
        }
        lemma_merge_sorted(a1, b);
        // a[0] is at or before everything that is left
        assert forall|k: int| 0 <= k < a1.len() implies pos_le(x, block_key(#[trigger] a1[k])) by { assert(a1[k] == a[k + 1]); }
        assert forall|k: int| 0 <= k < b.len() implies pos_le(x, block_key(#[trigger] b[k])) by {
            if k > 0 { assert(pos_le(block_key(b[0]), block_key(b[k]))); }
        }
        lemma_merge_lower_bound(a1, b, x);
        let m = merge_seq(a, b);
        let m1 = merge_seq(a1, b);
        assert forall|i: int, j: int| 0 <= i < j < m.len() implies pos_le(block_key(#[trigger] m[i]), block_key(#[trigger] m[j])) by {
            assert(m[j] == m1[j - 1]);
            if i == 0 { assert(m[0] == a[0]); } else { assert(m[i] == m1[i - 1]); }
        }
    } else {
        let b1 = b.drop_first();
        let x = block_key(b[0]);
        assert(blocks_sorted(b1)) by {
            assert forall|i: int, j: int| 0 <= i < j < b1.len() implies pos_le(block_key(#[trigger] b1[i]), block_key(#[trigger] b1[j])) by {
                assert(b1[i] == b[i + 1] && b1[j] == b[j + 1]);
            }
        }
        lemma_merge_sorted(a, b1);
        // not (a[0] <= b[0]) in a total order: b[0] is before a[0], hence at or before everything that is left
        assert(pos_le(x, block_key(a[0])));
        assert forall|k: int| 0 <= k < a.len() implies pos_le(x, block_key(#[trigger] a[k])) by {
            if k > 0 { assert(pos_le(block_key(a[0]), block_key(a[k]))); }
        }
        assert forall|k: int| 0 <= k < b1.len() implies pos_le(x, block_key(#[trigger] b1[k])) by { assert(b1[k] == b[k + 1]); }
        lemma_merge_lower_bound(a, b1, x);
        let m = merge_seq(a, b);
        let m1 = merge_seq(a, b1);
        assert forall|i: int, j: int| 0 <= i < j < m.len() implies pos_le(block_key(#[trigger] m[i]), block_key(#[trigger] m[j])) by {
            assert(m[j] == m1[j - 1]);
            if i == 0 { assert(m[0] == b[0]); } else { assert(m[i] == m1[i - 1]); }
        }
    }
}
