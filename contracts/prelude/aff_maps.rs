// Hash-map shims of group `affects` / `validate_outer` (rules E4, E5) and `PathBuf -> &Path`.
// Included *inside* `verus! { .. }`, after prelude/domain.rs; needs prelude/aff_axioms_mod.rs outside.
// (Verus allows ONE module-level `broadcast use` per module and prelude/strings.rs has it, so the units
// bring `affx::group_affx` in with a function-level `broadcast use` / explicit calls of the axioms.)

// ---- rule E4: `for (k, v) in &M` (shared iteration over a hash map) ----------------------------------
// vstd (0.2026.09.13) gives `hash_map::Iter` no usable `next`/view here. Trusted, from the std doc of
// `HashMap::iter` ("An iterator visiting all key-value pairs in arbitrary order. The iterator element
// type is (&'a K, &'a V)"): the pairs form a duplicate-free sequence, in ARBITRARY order, whose map
// view is `M@`. By-reference counterpart of prelude/orch_maps.rs `verif_into_entries`.
pub open spec fn ref_entries_of<K, V>(ents: Seq<(&K, &V)>, m: Map<K, V>) -> bool {
    &&& forall|i: int| 0 <= i < ents.len() ==> m.contains_key(*(#[trigger] ents[i]).0) && m[*ents[i].0] == *ents[i].1
    &&& forall|i: int, j: int| 0 <= i < j < ents.len() ==> *(#[trigger] ents[i]).0 != *(#[trigger] ents[j]).0
    &&& forall|k: K| m.contains_key(k) ==> exists|i: int| 0 <= i < ents.len() && *(#[trigger] ents[i]).0 == k
}

#[verifier::external_body]
pub fn verif_ref_entries<'a, K, V>(m: &'a HashMap<K, V>) -> (r: Vec<(&'a K, &'a V)>)
    ensures
        vstd::std_specs::hash::obeys_key_model::<K>() ==> ref_entries_of(r@, m@),
{
    m.iter().collect()
}

// ---- rule E5: `M.entry(K).or_insert_with(Vec::new).push(X)`, generic over the key type ---------------
// vstd has no specification for `Entry::or_insert_with`. Trusted, from the std docs ("Ensures a value is
// in the entry by inserting the result of the default function if empty, and returns a mutable
// reference to the value in the entry"; `Vec::push` appends): M' = M[K -> M.get_or(K, []) ++ [X]],
// every other key untouched. Same contract as prelude/domain.rs `verif_map_push`, for any key type
// that obeys the key model.
#[verifier::external_body]
pub fn verif_map_push_k<K: std::cmp::Eq + std::hash::Hash, T>(m: &mut HashMap<K, Vec<T>>, k: K, x: T)
    ensures
        vstd::std_specs::hash::obeys_key_model::<K>() ==> {
            &&& final(m)@.dom() == old(m)@.dom().insert(k)
            &&& final(m)@[k]@ == map_get_or_empty(old(m)@, k).push(x)
            &&& forall|k2: K| k2 != k && old(m)@.contains_key(k2) ==> #[trigger] final(m)@[k2] == old(m)@[k2]
        },
{
    m.entry(k).or_insert_with(Vec::new).push(x)
}

// ---- `&PathBuf` used where `&Path` is expected (deref coercion) ---------------------------------------
/// `Path::to_path_buf`: the owned copy of a borrowed path
pub uninterp spec fn path_owned(p: &std::path::Path) -> std::path::PathBuf;

/// T-std: `impl Deref for PathBuf { type Target = Path }` returns the path the buffer holds: its owned
/// copy is the buffer again (Verus accepts the implicit `deref` call but leaves it unspecified).
pub assume_specification[ <std::path::PathBuf as core::ops::Deref>::deref ](p: &std::path::PathBuf) -> (r: &std::path::Path)
    ensures path_owned(r) == *p;
