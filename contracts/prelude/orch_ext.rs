// Stand-ins for external crates used by the orchestration groups (single-file Verus cannot link
// crates; DESIGN 2.9, T-ext). Included *outside* the group's `verus! { .. }` block.
//
// serde_json (rule E2): a JSON value is opaque. `to_value(x)` is a deterministic function of what
// it is given (`json_of`), or an error. The JSON payload itself is NOT verified.
mod serde_json {
    use vstd::prelude::*;
    verus! {
    #[verifier::external_body]
    pub struct Value { _opaque: u8 }
    #[verifier::external_body]
    pub struct Error { _opaque: u8 }
    pub type Result<T> = core::result::Result<T, Error>;
    }
}
