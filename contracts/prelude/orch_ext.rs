// Stand-ins for external crates used by the orchestration groups (single-file Verus cannot link
// crates; DESIGN 2.9, T-ext). Included *outside* the group's `verus! { .. }` block.
//
// serde_json (rule E2): a JSON value is opaque. The JSON payload itself is NOT verified.
mod serde_json {
    use vstd::prelude::*;
    verus! {
//@include prelude/orch_serde_types.rs
    }
}
