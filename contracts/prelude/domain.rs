// Domain types of blockwatch, pasted from /repo on every run (rule E11), plus the external types
// they mention. Included inside `verus! { }`.

#[verifier::external_type_specification]
#[verifier::external_body]
pub struct ExPathBuf(std::path::PathBuf);

#[verifier::external_type_specification]
#[verifier::external_body]
pub struct ExPath(std::path::Path);

// T-std: PathBuf is compared by its contents; a clone is equal to the original.
pub assume_specification[ <std::path::PathBuf as Clone>::clone ](p: &std::path::PathBuf) -> (r: std::path::PathBuf)
    ensures r == *p;

//@item file=src/lib.rs kind=struct name=Position
//@item file=src/blocks.rs kind=struct name=Block
// /repo derives `Clone, Copy, Serialize_repr, EnumString, Debug, PartialEq`; `Structural` is Verus' marker that the
// derived `PartialEq` of this field-less enum is structural equality, so `==` on it means spec equality.
#[derive(PartialEq, Structural)]
//@item file=src/blocks.rs kind=enum name=BlockSeverity
//@item file=src/blocks.rs kind=struct name=FileBlocks
//@item file=src/blocks.rs kind=struct name=BlockWithContext
//@item file=src/validators/mod.rs kind=struct name=Violation
//@item file=src/validators/mod.rs kind=struct name=ViolationRange

// `#[derive(Clone)]` on Position / `#[derive(Clone, Copy)]` on BlockSeverity generate the
// field-wise copies below (T-derive).
impl Clone for Position {
    fn clone(&self) -> (r: Self)
        ensures r == *self
    {
        Position { line: self.line, character: self.character }
    }
}

impl Clone for BlockSeverity {
    fn clone(&self) -> (r: Self)
        ensures r == *self
    {
        *self
    }
}

impl Copy for BlockSeverity {}

pub open spec fn attr_view(m: Map<String, String>, k: Seq<char>) -> Option<Seq<char>> {
    match attr(m, k) { Some(v) => Some(v@), None => None }
}

// ---- String vs &str comparison (accepted by Verus but unspecified) — rule E17 ------------------
#[verifier::external_body]
pub fn verif_string_ne(a: &String, b: &str) -> (r: bool)
    ensures r == (a@ != b@)
{ a != b }

// ---- serde_json stand-in (rule E2): the JSON payload is opaque, it "encodes" its source value ---
mod serde_json {
    use vstd::prelude::*;
    verus! {
    #[verifier::external_body]
    pub struct Value { _p: u8 }
    pub struct Error { pub tag: u8 }
    pub uninterp spec fn value_encodes<T>(v: Value, t: T) -> bool;
    #[verifier::external_body]
    pub fn to_value<T>(t: T) -> (r: Result<Value, Error>)
        ensures r matches Ok(v) ==> value_encodes(v, t)
    { unimplemented!() }
    }
}

// ---- E5: `m.entry(k).or_insert_with(Vec::new).push(x)` ----------------------------------------
pub open spec fn map_get_or_empty<K, V>(m: Map<K, Vec<V>>, k: K) -> Seq<V> {
    if m.contains_key(k) { m[k]@ } else { Seq::empty() }
}

#[verifier::external_body]
pub fn verif_map_push<V>(m: &mut HashMap<std::path::PathBuf, Vec<V>>, k: std::path::PathBuf, x: V)
    ensures
        final(m)@.dom() == old(m)@.dom().insert(k),
        final(m)@[k]@ == map_get_or_empty(old(m)@, k).push(x),
        forall|k2: std::path::PathBuf| k2 != k && old(m)@.contains_key(k2) ==> #[trigger] final(m)@[k2] == old(m)@[k2],
{ m.entry(k).or_insert_with(Vec::new).push(x) }

/// rule E2: `serde_json::to_value(x)?` — the shim folds serde's error into anyhow's (what `?` does)
#[verifier::external_body]
pub fn verif_to_value<T>(t: T) -> (r: anyhow::Result<serde_json::Value>)
    ensures r matches Ok(v) ==> serde_json::value_encodes(v, t)
{ unimplemented!() }
