// Group `scripts` (check-lua / check-ai): stand-ins for the parts of `async-openai` / `secrecy` that the
// SYNCHRONOUS code of src/validators/check_ai.rs touches (single-file Verus cannot link crates; DESIGN
// 2.9, T-ext), and T-dyn marker traits. Included *inside* the group's `verus! { .. }` block.
// The HTTP client itself, tokio and mlua are out of scope (C17-C19).

// T-dyn stand-ins: the validator traits only occur as `Box<dyn ..>` inside `ValidatorType` here;
// their methods are not called (`validate` of the two script validators is `async`: no Verus support).
pub trait ValidatorSync {}
pub trait ValidatorAsync {}
/// `#[async_trait] trait AiClient { async fn check_block(..) }`: only the bound is needed
pub trait AiClient {}

/// `async_openai::config::OpenAIConfig`
#[verifier::external_body]
pub struct OpenAIConfig { _p: u8 }

/// `async_openai::Client<C>`
#[verifier::external_body]
#[verifier::reject_recursive_types(C)]
pub struct Client<C> { _p: std::marker::PhantomData<C> }

/// `secrecy::SecretString`
#[verifier::external_body]
pub struct SecretString { _p: u8 }

impl<C> Client<C> {
    /// ghost: the configuration this client was built with
    pub uninterp spec fn config_spec(&self) -> C;

    /// `Client::config(&self) -> &C` ("Returns the configuration")
    #[verifier::external_body]
    pub fn config(&self) -> (r: &C)
        ensures *r == self.config_spec(),
    { unimplemented!() }
}

impl<C> Client<C> {
    /// `Client::with_config(config)` ("Create client with [OpenAIConfig]": the struct keeps `config`)
    #[verifier::external_body]
    pub fn with_config(config: C) -> (r: Client<C>)
        ensures r.config_spec() == config,
    { unimplemented!() }
}

impl OpenAIConfig {
    /// ghost: the API key of this configuration, as text
    pub uninterp spec fn api_key_spec(&self) -> Seq<char>;
    /// ghost: the API base URL of this configuration
    pub uninterp spec fn api_base_spec(&self) -> Seq<char>;

    /// `OpenAIConfig::new()` (defaults from `OPENAI_*` environment variables: unspecified)
    #[verifier::external_body]
    pub fn new() -> (r: OpenAIConfig)
    { unimplemented!() }

    /// `with_api_key<S: Into<String>>(mut self, api_key: S)`: `self.api_key = SecretString::from(api_key.into()); self`
    #[verifier::external_body]
    pub fn with_api_key(self, api_key: String) -> (r: OpenAIConfig)
        ensures r.api_key_spec() == api_key@, r.api_base_spec() == self.api_base_spec(),
    { unimplemented!() }

    /// `with_api_base<S: Into<String>>(mut self, api_base: S)`: `self.api_base = api_base.into(); self`
    #[verifier::external_body]
    pub fn with_api_base(self, api_base: String) -> (r: OpenAIConfig)
        ensures r.api_base_spec() == api_base@, r.api_key_spec() == self.api_key_spec(),
    { unimplemented!() }

    /// `<OpenAIConfig as Config>::api_key(&self) -> &SecretString`
    #[verifier::external_body]
    pub fn api_key(&self) -> (r: &SecretString)
        ensures r.secret_spec() == self.api_key_spec(),
    { unimplemented!() }
}

impl SecretString {
    pub uninterp spec fn secret_spec(&self) -> Seq<char>;

    /// `<SecretString as ExposeSecret<str>>::expose_secret(&self) -> &str`
    #[verifier::external_body]
    pub fn expose_secret(&self) -> (r: &str)
        ensures r@ == self.secret_spec(),
    { unimplemented!() }
}

// ---- the environment -------------------------------------------------------------------------------------
/// `std::env::var(name)` (`None` = `Err`: not set, or not Unicode); the environment does not change during the run
pub uninterp spec fn env_var_spec(name: Seq<char>) -> Option<Seq<char>>;

#[verifier::external_type_specification]
#[verifier::external_body]
pub struct ExVarError(std::env::VarError);

/// E13 shim: `std::env::var<K: AsRef<OsStr>>(key)` at `&str`. Body = the identical std call.
#[verifier::external_body]
pub fn verif_env_var(key: &str) -> (r: Result<String, std::env::VarError>)
    ensures
        r matches Ok(v) ==> env_var_spec(key@) == Some(v@),
        r is Err ==> env_var_spec(key@) is None,
{ std::env::var(key) }

/// E13 shim: `<&str as Into<String>>::into` (a blanket-impl trait method). Body = the identical std call.
#[verifier::external_body]
pub fn verif_str_into_string(s: &str) -> (r: String)
    ensures r@ == s@,
{ s.into() }

// T-std (same statement as in prelude/std_ondemand.rs): `Result::unwrap_or`
pub assume_specification<T, E>[ Result::<T, E>::unwrap_or ](a: Result<T, E>, d: T) -> (r: T)
    ensures (a matches Ok(x) ==> r == x), (a is Err ==> r == d);

// ---- `&PathBuf` used where `&Path` is expected (deref coercion) ---------------------------------------
/// `Path::to_path_buf`: the owned copy of a borrowed path
pub uninterp spec fn path_owned(p: &std::path::Path) -> std::path::PathBuf;

/// T-std: `impl Deref for PathBuf { type Target = Path }` returns the path the buffer holds (Verus accepts
/// the implicit `deref` call but leaves it unspecified). Same statement as in prelude/aff_maps.rs.
pub assume_specification[ <std::path::PathBuf as core::ops::Deref>::deref ](p: &std::path::PathBuf) -> (r: &std::path::Path)
    ensures path_owned(r) == *p;
