// Group `langclosures`: VERIFIED wrappers (nothing trusted in this file) around the std shims of
// prelude/tagnorm_norm.rs. Included inside `verus! { .. }` after the spec functions copied from
// groups/normalise.rs (`first_occ`, `occurs_at`, `sp`, `blanked_at`, `same_len_and_newlines`,
// `first_blanked`, `lemma_splice_blanked`, `lemma_has_first`).
//
// Why: the assumed contract of `verif_replacen_str` has a nested quantifier whose instantiation feeds
// itself (every `occurs_at(s, p, pat)` term yields a skolem `occurs_at(s, q(p), pat)` term). Inside a unit
// with several `replacen` calls a FAILING obligation then runs into the resource limit instead of being
// reported. The wrapper below has the identical body (the shim call), is verified against the shim's
// contract, and hands the units one opaque predicate instead.

/// `out` is `inp` with the first occurrence of `pat` (if any) replaced by `to`
#[verifier::opaque]
pub open spec fn replaced_first(inp: Seq<u8>, out: Seq<u8>, pat: Seq<u8>, to: Seq<u8>) -> bool {
    &&& ((forall|q: int| !#[trigger] occurs_at(inp, q, pat)) ==> out == inp)
    &&& (forall|p: int| #[trigger] first_occ(inp, p, pat) ==> out == inp.subrange(0, p) + to + inp.subrange(p + pat.len(), inp.len() as int))
}

/// Rule E13: `s.replacen(pat, to, 1)` -> `langc_replacen(s, pat, to, 1)`; the body IS the E13 shim call
/// (`verif_replacen_str`, whose external body is `s.replacen(pat, to, n)`); the contract is PROVED.
pub fn langc_replacen(s: &str, pat: &str, to: &str, n: usize) -> (r: String)
    requires
        n == 1, // [std.replacen.shim.pre.first_match_only]
        utf8(pat@).len() > 0, // [std.replacen.shim.pre.non_empty_pattern]
    ensures
        replaced_first(utf8(s@), utf8(r@), utf8(pat@), utf8(to@)),
{
    let r = verif_replacen_str(s, pat, to, n);
    proof {
        reveal(replaced_first);
        assert forall|p: int| #[trigger] first_occ(utf8(s@), p, utf8(pat@)) implies
            utf8(r@) == utf8(s@).subrange(0, p) + utf8(to@) + utf8(s@).subrange(p + utf8(pat@).len(), utf8(s@).len() as int) by {
            assert(occurs_at(utf8(s@), p, utf8(pat@)));
        }
    }
    r
}

/// the pattern occurs at offset 0: the result is the replacement followed by the rest (proved)
pub proof fn lemma_replaced_at_start(inp: Seq<u8>, out: Seq<u8>, pat: Seq<u8>, to: Seq<u8>)
    requires replaced_first(inp, out, pat, to), occurs_at(inp, 0, pat)
    ensures out == inp.subrange(0, 0) + to + inp.subrange(pat.len() as int, inp.len() as int)
{
    reveal(replaced_first);
    assert(first_occ(inp, 0, pat));
}

/// the replacement is as many spaces as the pattern is long (and the pattern has no line break): the first
/// occurrence is blanked, length and line breaks stay (proved)
pub proof fn lemma_replaced_by_spaces(inp: Seq<u8>, out: Seq<u8>, pat: Seq<u8>)
    requires
        replaced_first(inp, out, pat, sp(pat.len())),
        pat.len() > 0,
        forall|j: int| 0 <= j < pat.len() ==> #[trigger] pat[j] != 0x0au8,
    ensures
        first_blanked(inp, out, pat),
        same_len_and_newlines(inp, out),
{
    reveal(replaced_first);
    let n = pat.len() as int;
    assert forall|p: int| #[trigger] first_occ(inp, p, pat) implies blanked_at(inp, out, p, n) by {
        lemma_splice_blanked(inp, out, p, n);
    }
    if exists|q: int| #[trigger] occurs_at(inp, q, pat) {
        let q0 = choose|q: int| #[trigger] occurs_at(inp, q, pat);
        lemma_has_first(inp, pat, q0);
        let p = choose|p: int| #[trigger] first_occ(inp, p, pat);
        assert(blanked_at(inp, out, p, n));
        assert forall|i: int| 0 <= i < inp.len() implies (#[trigger] out[i] == 0x0au8) == (inp[i] == 0x0au8) by {
            if p <= i < p + n { assert(inp.subrange(p, p + n)[i - p] == pat[i - p]); }
        }
    }
}
