// Stand-in for the `anyhow` crate (single-file Verus cannot link crates; DESIGN 2.9, T-ext).
// Rule E1 maps every `anyhow!(..)` / `format!(..)` to `anyhow::verif_err()`: the *text* of an
// error is not verified, only that an error is returned.
mod anyhow {
    use vstd::prelude::*;
    verus! {
    pub struct Error { pub tag: u8 }
    pub type Result<T> = core::result::Result<T, Error>;
    pub fn verif_err() -> Error { Error { tag: 0 } }
    }
}
