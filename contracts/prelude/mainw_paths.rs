// Group `mainwire`, units M2 (`repository_root_path`) and FS1..FS3 (`FileSystemImpl`): the file system
// as uninterpreted specification functions over `PathBuf` VALUES, assumed specifications of the
// non-generic `Path` methods, E13/E3 shims for the generic ones and for the iterator chains, and the
// specification of M2 with its lemmas. A module of its own, OUTSIDE the group's `verus! { .. }` block,
// so that the group can `broadcast use` the lemmas at module level (a module cannot broadcast lemmas
// about functions it defines itself). `PathBuf` is declared by prelude/orch_model.rs, `Path` by
// prelude/mainw_ax.rs; needs prelude/mainw_anyhow.rs and prelude/mainw_ignore.rs.
//
// Nothing here says what a path IS: `ancestors`, `join`, `strip_prefix`, `is_dir`, the contents of a
// file and the directory walk are parameters of every proof (the state of the disk does not change
// during the run: T-ext).
mod mainw_paths {
    use vstd::prelude::*;
    use std::path::{Path, PathBuf};
    use crate::{anyhow, ignore};
    verus! {

// ---- borrowed and owned paths -------------------------------------------------------------------------
/// `Path::to_path_buf`: the owned copy of a borrowed path. Specifications speak about owned values.
pub uninterp spec fn path_owned(p: &Path) -> PathBuf;

/// T-std: `impl Deref for PathBuf { type Target = Path }` returns the path the buffer holds: its owned
/// copy is the buffer again (Verus accepts the implicit `deref` call but leaves it unspecified). Same
/// statement as in prelude/aff_maps.rs.
pub assume_specification[ <PathBuf as core::ops::Deref>::deref ](p: &PathBuf) -> (r: &Path)
    ensures path_owned(r) == *p;

pub assume_specification[ Path::to_path_buf ](p: &Path) -> (r: PathBuf)
    ensures r == path_owned(p);

// T-std: PathBuf is compared by its contents; a clone is equal to the original.
pub assume_specification[ <PathBuf as Clone>::clone ](p: &PathBuf) -> (r: PathBuf)
    ensures r == *p;

// ---- the disk (uninterpreted) -------------------------------------------------------------------------
/// `Path::ancestors`, collected: std doc "Produces an iterator over Path and its ancestors ... if the
/// parent method is used zero or more times": the path itself first, then its parent, and so on.
pub uninterp spec fn ancestors_spec(p: PathBuf) -> Seq<PathBuf>;
/// `base.join(name)` for a text component
pub uninterp spec fn path_join_spec(base: PathBuf, name: Seq<char>) -> PathBuf;
/// `base.join(rel)` for a path
pub uninterp spec fn path_join_path_spec(base: PathBuf, rel: PathBuf) -> PathBuf;
/// `p.strip_prefix(base)`: the rest of `p` below `base`, `None` if `base` is not a prefix of `p`
pub uninterp spec fn path_strip_prefix_spec(p: PathBuf, base: PathBuf) -> Option<PathBuf>;
/// `Path::is_dir`: the path exists on disk and is a directory
pub uninterp spec fn is_dir_spec(p: PathBuf) -> bool;
/// `Path::is_file` / `Path::exists`: their own meanings, so that code calling one of them where the
/// property needs "is a directory" does not verify by accident
pub uninterp spec fn is_file_spec(p: PathBuf) -> bool;
pub uninterp spec fn exists_spec(p: PathBuf) -> bool;
/// `std::fs::read_to_string(p)`: the text of the file, `None` = `Err`
pub uninterp spec fn disk_read_spec(p: PathBuf) -> Option<Seq<char>>;

/// T-std (doc of `Path::ancestors`: "The iterator will always yield at least one value, namely
/// `Some(&self)`"): the first ancestor is the path itself.
pub broadcast axiom fn axiom_ancestors_start_with_self(p: PathBuf)
    ensures (#[trigger] ancestors_spec(p)).len() >= 1 && ancestors_spec(p)[0] == p;

pub assume_specification[ Path::is_dir ](p: &Path) -> (r: bool)
    ensures r == is_dir_spec(path_owned(p));

pub assume_specification[ Path::is_file ](p: &Path) -> (r: bool)
    ensures r == is_file_spec(path_owned(p));

pub assume_specification[ Path::exists ](p: &Path) -> (r: bool)
    ensures r == exists_spec(path_owned(p));

/// E13 shim: `p.join(name)` with a `&str` (`Path::join<P: AsRef<Path>>` is generic: no
/// `assume_specification` for one instantiation). Body = the identical std call.
#[verifier::external_body]
pub fn verif_path_join_str(p: &Path, name: &str) -> (r: PathBuf)
    ensures r == path_join_spec(path_owned(p), name@),
{ p.join(name) }

/// E13 shim: `p.join(rel)` with a `&Path`. Body = the identical std call.
#[verifier::external_body]
pub fn verif_path_join(p: &Path, rel: &Path) -> (r: PathBuf)
    ensures r == path_join_path_spec(path_owned(p), path_owned(rel)),
{ p.join(rel) }

#[verifier::external_type_specification]
#[verifier::external_body]
pub struct ExStripPrefixError(std::path::StripPrefixError);

/// E13 shim: `p.strip_prefix(base)` (`Path::strip_prefix<P: AsRef<Path>>` is generic). Body = the identical std call.
#[verifier::external_body]
pub fn verif_path_strip_prefix<'a>(p: &'a Path, base: &PathBuf) -> (r: Result<&'a Path, std::path::StripPrefixError>)
    ensures
        r matches Ok(x) ==> path_strip_prefix_spec(path_owned(p), *base) == Some(path_owned(x)),
        r is Err ==> path_strip_prefix_spec(path_owned(p), *base) is None,
{ p.strip_prefix(base) }

// T-std (same statement as in prelude/std_ondemand.rs): `Result::unwrap_or`
pub assume_specification<T, E>[ Result::<T, E>::unwrap_or ](a: Result<T, E>, d: T) -> (r: T)
    ensures (a matches Ok(x) ==> r == x), (a is Err ==> r == d);

#[verifier::external_type_specification]
#[verifier::external_body]
pub struct ExIoError(std::io::Error);

/// E13 shim: `std::fs::read_to_string(p)` (generic over `AsRef<Path>`) for an owned path. Body = the identical std call.
#[verifier::external_body]
pub fn verif_fs_read_to_string(p: PathBuf) -> (r: Result<String, std::io::Error>)
    ensures
        r matches Ok(s) ==> disk_read_spec(p) == Some(s@),
        r is Err ==> disk_read_spec(p) is None,
{ std::fs::read_to_string(p) }

// ---- M2: `current_path.ancestors().find(F)` ------------------------------------------------------------
/// Stand-in for `std::path::Ancestors<'a>` (E14: iterator adapters are outside Verus): ghost sequence of
/// the (owned) paths it will yield, in order. Only `find` is used by the unchanged tree; `skip`, `filter`
/// and `last` are specified (std docs of the `Iterator` methods of the same names) so that code calling
/// them instead is decided rather than leaving the verifier's subset.
#[verifier::external_body]
pub struct AncIter<'a> { it: Box<dyn Iterator<Item = &'a Path> + 'a> }

/// E13 shim: `p.ancestors()`. Body = the identical std call.
#[verifier::external_body]
pub fn verif_ancestors<'a>(p: &'a Path) -> (r: AncIter<'a>)
    ensures r.items() == ancestors_spec(path_owned(p)),
{ AncIter { it: Box::new(p.ancestors()) } }

impl<'a> AncIter<'a> {
    pub uninterp spec fn items(&self) -> Seq<PathBuf>;

    /// `Iterator::skip(n)`: "Creates an iterator that skips the first n elements"
    #[verifier::external_body]
    pub fn skip(self, n: usize) -> (r: AncIter<'a>)
        ensures r.items() == (if n <= self.items().len() { self.items().skip(n as int) } else { Seq::empty() }),
    { AncIter { it: Box::new(self.it.skip(n)) } }

    /// `Iterator::last()`: "Consumes the iterator, returning the last element"
    #[verifier::external_body]
    pub fn last(self) -> (r: Option<&'a Path>)
        ensures
            self.items().len() == 0 ==> r is None,
            self.items().len() > 0 ==> (r matches Some(x) && path_owned(x) == self.items().last()),
    { self.it.last() }
}

/// E3 shim for `<ancestors>.find(F)`. Trusted, from the std doc of `Iterator::find` ("Searches for an
/// element of an iterator that satisfies a predicate ... returns the first element for which the
/// closure returns true"; short-circuiting): the result is the FIRST item on which the closure answers
/// true, `None` if it answers false on all of them. `pred` is the closure's own verified postcondition
/// read as a function of the (owned) path.
#[verifier::external_body]
pub fn verif_iter_find<'a, F: FnMut(&&'a Path) -> bool>(it: AncIter<'a>, f: F, Ghost(pred): Ghost<spec_fn(PathBuf) -> bool>) -> (r: Option<&'a Path>)
    requires
        forall|x: &&'a Path| #[trigger] call_requires(f, (x,)),
        forall|x: &&'a Path, b: bool| #[trigger] call_ensures(f, (x,), b) ==> b == pred(path_owned(*x)),
    ensures
        r matches Some(x) ==> exists|i: int| 0 <= i < it.items().len() && #[trigger] it.items()[i] == path_owned(x)
            && pred(path_owned(x)) && (forall|j: int| 0 <= j < i ==> !pred(#[trigger] it.items()[j])),
        r is None ==> forall|i: int| 0 <= i < it.items().len() ==> !pred(#[trigger] it.items()[i]),
{ let mut it = it; it.it.find(f) }

/// E3 shim for `<ancestors>.filter(F)` (std doc: "yields only the elements for which the closure returns true")
#[verifier::external_body]
pub fn verif_iter_filter<'a, F: FnMut(&&'a Path) -> bool + 'a>(it: AncIter<'a>, f: F, Ghost(pred): Ghost<spec_fn(PathBuf) -> bool>) -> (r: AncIter<'a>)
    requires
        forall|x: &&'a Path| #[trigger] call_requires(f, (x,)),
        forall|x: &&'a Path, b: bool| #[trigger] call_ensures(f, (x,), b) ==> b == pred(path_owned(*x)),
    ensures
        r.items() == it.items().filter(pred),
{ AncIter { it: Box::new(it.it.filter(f)) } }

// ---- FS3: `ignore::Walk::new(root).filter_map(F)` ------------------------------------------------------
/// E14: the iterator returned by `FileSystem::walk` (`impl Iterator<Item = anyhow::Result<PathBuf>>`,
/// a return-position `impl Trait` is outside Verus): ghost sequence of the items it will still yield.
/// Same stand-in as in prelude/blocks_parse.rs.
#[verifier::external_body]
pub struct WalkIter { it: Box<dyn Iterator<Item = anyhow::Result<PathBuf>>> }

impl WalkIter {
    pub uninterp spec fn pending(&self) -> Seq<anyhow::Result<PathBuf>>;
}

/// the `Some` items of a sequence, in order (same definition as in prelude/blocks_parse.rs)
pub open spec fn somes<T>(s: Seq<Option<T>>) -> Seq<T>
    decreases s.len()
{
    if s.len() == 0 {
        Seq::empty()
    } else {
        match s.last() {
            Some(x) => somes(s.drop_last()).push(x),
            None => somes(s.drop_last()),
        }
    }
}

/// E3 shim: `Walk::new(root).filter_map(F)` (iterator adapters and `impl Iterator` are outside Verus).
/// Trusted (std doc of `Iterator::filter_map`: "Creates an iterator that both filters and maps ...
/// yields only the values for which the supplied closure returns Some(value)"; lazily, in order): the
/// closure is applied once to every entry of the walk, in order, and the items are the `Some` payloads
/// it returned. Phrased with `call_ensures` of the *verified* closure.
#[verifier::external_body]
pub fn verif_walk_filter_map<F: FnMut(Result<ignore::DirEntry, ignore::Error>) -> Option<anyhow::Result<PathBuf>>>(walk: ignore::Walk, f: F) -> (r: WalkIter)
    requires
        forall|e: Result<ignore::DirEntry, ignore::Error>| #[trigger] call_requires(f, (e,)),
    ensures
        exists|outs: Seq<Option<anyhow::Result<PathBuf>>>| outs.len() == walk.entries().len()
            && (forall|i: int| 0 <= i < outs.len() ==> call_ensures(f, (walk.entries()[i],), #[trigger] outs[i]))
            && r.pending() == somes(outs),
{ unimplemented!() }

// ---- M2: specification, from the statements of C15 / C20 ------------------------------------------------
/// C15 "wherever blockwatch is started inside the repository": a repository root is a directory that has a
/// `.git` ENTRY - a directory in a plain clone, a FILE in a linked worktree or a submodule - or a `.hg` directory
pub open spec fn is_repo_root(p: PathBuf) -> bool {
    exists_spec(path_join_spec(p, ".git"@)) || is_dir_spec(path_join_spec(p, ".hg"@))
}

/// T-std (docs of `Path::is_dir` / `Path::is_file`: "Returns true if the path exists on disk and is pointing at a
/// directory / a regular file"): what is a directory or a file exists.
pub broadcast axiom fn axiom_dir_or_file_exists(p: PathBuf)
    ensures (#[trigger] is_dir_spec(p) ==> exists_spec(p)) && (#[trigger] is_file_spec(p) ==> exists_spec(p)); // [M2.axiom.dir_or_file_exists]

/// both layouts count: `.git` as a directory (plain clone) and `.git` as a file (linked worktree, submodule)
pub proof fn lemma_git_directory_or_file_counts(p: PathBuf)
    ensures
        is_dir_spec(path_join_spec(p, ".git"@)) ==> is_repo_root(p), // [M2.lemma.git_directory_counts]
        is_file_spec(path_join_spec(p, ".git"@)) ==> is_repo_root(p), // [M2.lemma.git_file_counts]
{
    axiom_dir_or_file_exists(path_join_spec(p, ".git"@));
}

/// `root` is the NEAREST ancestor of `start` (the path itself included) that is a repository root
pub open spec fn nearest_repo_root(start: PathBuf, root: PathBuf) -> bool {
    exists|i: int| 0 <= i < ancestors_spec(start).len() && #[trigger] ancestors_spec(start)[i] == root
        && is_repo_root(root) && (forall|j: int| 0 <= j < i ==> !is_repo_root(#[trigger] ancestors_spec(start)[j]))
}

/// no ancestor of `start` (the path itself included) is a repository root
pub open spec fn no_repo_root(start: PathBuf) -> bool {
    forall|i: int| 0 <= i < ancestors_spec(start).len() ==> !is_repo_root(#[trigger] ancestors_spec(start)[i])
}

/// `repository_root_path` as a function (`None` = `Err`)
pub open spec fn repo_root_spec(start: PathBuf) -> Option<PathBuf> {
    if no_repo_root(start) { None } else { Some(choose|root: PathBuf| nearest_repo_root(start, root)) }
}

/// the nearest root is unique, so `repo_root_spec` is THE root
pub proof fn lemma_nearest_root_unique(start: PathBuf, r1: PathBuf, r2: PathBuf)
    requires nearest_repo_root(start, r1), nearest_repo_root(start, r2),
    ensures r1 == r2,
{
    let anc = ancestors_spec(start);
    let i1 = choose|i: int| 0 <= i < anc.len() && #[trigger] anc[i] == r1 && is_repo_root(r1) && (forall|j: int| 0 <= j < i ==> !is_repo_root(#[trigger] anc[j]));
    let i2 = choose|i: int| 0 <= i < anc.len() && #[trigger] anc[i] == r2 && is_repo_root(r2) && (forall|j: int| 0 <= j < i ==> !is_repo_root(#[trigger] anc[j]));
    if i1 < i2 { assert(!is_repo_root(anc[i1])); }
    if i2 < i1 { assert(!is_repo_root(anc[i2])); }
}

/// (proved) whoever establishes the relation has computed `repo_root_spec`
pub broadcast proof fn lemma_nearest_root_is_spec(start: PathBuf, root: PathBuf)
    requires #[trigger] nearest_repo_root(start, root),
    ensures repo_root_spec(start) == Some(root),
{
    let anc = ancestors_spec(start);
    let i = choose|i: int| 0 <= i < anc.len() && #[trigger] anc[i] == root && is_repo_root(root) && (forall|j: int| 0 <= j < i ==> !is_repo_root(#[trigger] anc[j]));
    assert(is_repo_root(anc[i]));
    assert(!no_repo_root(start));
    let c = choose|c: PathBuf| nearest_repo_root(start, c);
    lemma_nearest_root_unique(start, root, c);
}

/// started in the root itself: the root is the start path (`ancestors` begins with the path itself)
pub proof fn lemma_start_path_counts(start: PathBuf)
    requires is_repo_root(start),
    ensures nearest_repo_root(start, start), // [M2.lemma.start_path_itself_counts]
{
    axiom_ancestors_start_with_self(start);
    assert(ancestors_spec(start)[0] == start);
}

pub broadcast group group_mainw_paths {
    lemma_nearest_root_is_spec,
}

    } // verus!
}
use mainw_paths::*;
