// Group `mainwire`, units M2 (`repository_root_path`) and FS1..FS3 (`FileSystemImpl`): the file system
// as uninterpreted specification functions over `PathBuf` VALUES, assumed specifications of the
// non-generic `Path` methods and E13/E3 shims for the generic ones and for the iterator chains.
// Included *inside* the group's `verus! { .. }` block, after prelude/orch_model.rs (which declares
// `PathBuf`); `Path` is declared by prelude/mainw_ax.rs.
//
// Nothing here says what a path IS: `ancestors`, `join`, `strip_prefix`, `is_dir`, the contents of a
// file and the directory walk are parameters of every proof (the state of the disk does not change
// during the run: T-ext).

// ---- borrowed and owned paths -------------------------------------------------------------------------
/// `Path::to_path_buf`: the owned copy of a borrowed path. Specifications speak about owned values.
pub uninterp spec fn path_owned(p: &Path) -> PathBuf;

/// T-std: `impl Deref for PathBuf { type Target = Path }` returns the path the buffer holds: its owned
/// copy is the buffer again (Verus accepts the implicit `deref` call but leaves it unspecified). Same
/// statement as in prelude/aff_maps.rs.
pub assume_specification[ <PathBuf as core::ops::Deref>::deref ](p: &PathBuf) -> (r: &Path)
    ensures path_owned(r) == *p;

pub assume_specification[ Path::to_path_buf ](p: &Path) -> (r: PathBuf)
    ensures r == path_owned(p);

// T-std: PathBuf is compared by its contents; a clone is equal to the original.
pub assume_specification[ <PathBuf as Clone>::clone ](p: &PathBuf) -> (r: PathBuf)
    ensures r == *p;

// ---- the disk (uninterpreted) -------------------------------------------------------------------------
/// `Path::ancestors`, collected: std doc "Produces an iterator over Path and its ancestors ... if the
/// parent method is used zero or more times": the path itself first, then its parent, and so on.
pub uninterp spec fn ancestors_spec(p: PathBuf) -> Seq<PathBuf>;
/// `base.join(name)` for a text component
pub uninterp spec fn path_join_spec(base: PathBuf, name: Seq<char>) -> PathBuf;
/// `base.join(rel)` for a path
pub uninterp spec fn path_join_path_spec(base: PathBuf, rel: PathBuf) -> PathBuf;
/// `p.strip_prefix(base)`: the rest of `p` below `base`, `None` if `base` is not a prefix of `p`
pub uninterp spec fn path_strip_prefix_spec(p: PathBuf, base: PathBuf) -> Option<PathBuf>;
/// `Path::is_dir`: the path exists on disk and is a directory
pub uninterp spec fn is_dir_spec(p: PathBuf) -> bool;
/// `Path::is_file` / `Path::exists`: their own meanings, so that code calling one of them where the
/// property needs "is a directory" does not verify by accident
pub uninterp spec fn is_file_spec(p: PathBuf) -> bool;
pub uninterp spec fn exists_spec(p: PathBuf) -> bool;
/// `std::fs::read_to_string(p)`: the text of the file, `None` = `Err`
pub uninterp spec fn disk_read_spec(p: PathBuf) -> Option<Seq<char>>;

/// T-std (doc of `Path::ancestors`: "The iterator will always yield at least one value, namely
/// `Some(&self)`"): the first ancestor is the path itself.
pub broadcast axiom fn axiom_ancestors_start_with_self(p: PathBuf)
    ensures (#[trigger] ancestors_spec(p)).len() >= 1 && ancestors_spec(p)[0] == p;

pub assume_specification[ Path::is_dir ](p: &Path) -> (r: bool)
    ensures r == is_dir_spec(path_owned(p));

pub assume_specification[ Path::is_file ](p: &Path) -> (r: bool)
    ensures r == is_file_spec(path_owned(p));

pub assume_specification[ Path::exists ](p: &Path) -> (r: bool)
    ensures r == exists_spec(path_owned(p));

/// E13 shim: `p.join(name)` with a `&str` (`Path::join<P: AsRef<Path>>` is generic: no
/// `assume_specification` for one instantiation). Body = the identical std call.
#[verifier::external_body]
pub fn verif_path_join_str(p: &Path, name: &str) -> (r: PathBuf)
    ensures r == path_join_spec(path_owned(p), name@),
{ p.join(name) }

/// E13 shim: `p.join(rel)` with a `&Path`. Body = the identical std call.
#[verifier::external_body]
pub fn verif_path_join(p: &Path, rel: &Path) -> (r: PathBuf)
    ensures r == path_join_path_spec(path_owned(p), path_owned(rel)),
{ p.join(rel) }

#[verifier::external_type_specification]
#[verifier::external_body]
pub struct ExStripPrefixError(std::path::StripPrefixError);

/// E13 shim: `p.strip_prefix(base)` (`Path::strip_prefix<P: AsRef<Path>>` is generic). Body = the identical std call.
#[verifier::external_body]
pub fn verif_path_strip_prefix<'a>(p: &'a Path, base: &PathBuf) -> (r: Result<&'a Path, std::path::StripPrefixError>)
    ensures
        r matches Ok(x) ==> path_strip_prefix_spec(path_owned(p), *base) == Some(path_owned(x)),
        r is Err ==> path_strip_prefix_spec(path_owned(p), *base) is None,
{ p.strip_prefix(base) }

// T-std (std_ondemand.rs): `Result::unwrap_or`, `Option::ok_or_else`
pub assume_specification<T, E>[ Result::<T, E>::unwrap_or ](a: Result<T, E>, d: T) -> (r: T)
    ensures (a matches Ok(x) ==> r == x), (a is Err ==> r == d);

pub assume_specification<T, E, F: FnOnce() -> E>[ Option::<T>::ok_or_else ](a: Option<T>, f: F) -> (r: Result<T, E>)
    requires a is None ==> call_requires(f, ()),
    ensures (a matches Some(x) ==> r == Ok::<T, E>(x)), (a is None ==> r is Err);

#[verifier::external_type_specification]
#[verifier::external_body]
pub struct ExIoError(std::io::Error);

/// E13 shim: `std::fs::read_to_string(p)` (generic over `AsRef<Path>`) for an owned path. Body = the identical std call.
#[verifier::external_body]
pub fn verif_fs_read_to_string(p: PathBuf) -> (r: Result<String, std::io::Error>)
    ensures
        r matches Ok(s) ==> disk_read_spec(p) == Some(s@),
        r is Err ==> disk_read_spec(p) is None,
{ std::fs::read_to_string(p) }

// ---- M2: `current_path.ancestors().find(F)` ------------------------------------------------------------
/// E3 shim (iterator adapters are outside Verus; body = the identical std chain). Trusted, from the std
/// doc of `Iterator::find` ("Searches for an element of an iterator that satisfies a predicate ...
/// returns the first element for which the closure returns true; short-circuiting"): the result is the
/// FIRST ancestor on which the closure answers true, `None` if it answers false on all of them.
/// `pred` is the closure's own verified postcondition read as a function of the (owned) path.
#[verifier::external_body]
pub fn verif_ancestors_find<'a, F: FnMut(&&'a Path) -> bool>(p: &'a Path, f: F, Ghost(pred): Ghost<spec_fn(PathBuf) -> bool>) -> (r: Option<&'a Path>)
    requires
        forall|x: &&'a Path| #[trigger] call_requires(f, (x,)),
        forall|x: &&'a Path, b: bool| #[trigger] call_ensures(f, (x,), b) ==> b == pred(path_owned(*x)),
    ensures
        r matches Some(x) ==> exists|i: int| 0 <= i < ancestors_spec(path_owned(p)).len() && #[trigger] ancestors_spec(path_owned(p))[i] == path_owned(x)
            && pred(path_owned(x)) && (forall|j: int| 0 <= j < i ==> !pred(#[trigger] ancestors_spec(path_owned(p))[j])),
        r is None ==> forall|i: int| 0 <= i < ancestors_spec(path_owned(p)).len() ==> !pred(#[trigger] ancestors_spec(path_owned(p))[i]),
{ p.ancestors().find(f) }

// ---- FS3: `ignore::Walk::new(root).filter_map(F)` ------------------------------------------------------
/// E14: the iterator returned by `FileSystem::walk` (`impl Iterator<Item = anyhow::Result<PathBuf>>`,
/// a return-position `impl Trait` is outside Verus): ghost sequence of the items it will still yield.
/// Same stand-in as in prelude/blocks_parse.rs.
#[verifier::external_body]
pub struct WalkIter { it: Box<dyn Iterator<Item = anyhow::Result<PathBuf>>> }

impl WalkIter {
    pub uninterp spec fn pending(&self) -> Seq<anyhow::Result<PathBuf>>;
}

/// the `Some` items of a sequence, in order (same definition as in prelude/blocks_parse.rs)
pub open spec fn somes<T>(s: Seq<Option<T>>) -> Seq<T>
    decreases s.len()
{
    if s.len() == 0 {
        Seq::empty()
    } else {
        match s.last() {
            Some(x) => somes(s.drop_last()).push(x),
            None => somes(s.drop_last()),
        }
    }
}

/// E3 shim: `Walk::new(root).filter_map(F)` (iterator adapters and `impl Iterator` are outside Verus).
/// Trusted (std doc of `Iterator::filter_map`: "Creates an iterator that both filters and maps ...
/// yields only the values for which the supplied closure returns Some(value)"; lazily, in order): the
/// closure is applied once to every entry of the walk, in order, and the items are the `Some` payloads
/// it returned. Phrased with `call_ensures` of the *verified* closure.
#[verifier::external_body]
pub fn verif_walk_filter_map<F: FnMut(Result<ignore::DirEntry, ignore::Error>) -> Option<anyhow::Result<PathBuf>>>(walk: ignore::Walk, f: F) -> (r: WalkIter)
    requires
        forall|e: Result<ignore::DirEntry, ignore::Error>| #[trigger] call_requires(f, (e,)),
    ensures
        exists|outs: Seq<Option<anyhow::Result<PathBuf>>>| outs.len() == walk.entries().len()
            && (forall|i: int| 0 <= i < outs.len() ==> call_ensures(f, (walk.entries()[i],), #[trigger] outs[i]))
            && r.pending() == somes(outs),
{ unimplemented!() }
