// On-demand assumed specifications of std functions (T-std). An entry is appended to a generated
// file ONLY when Verus rejects that file with "`<key>` is not supported" — i.e. when changed code
// calls a std function the unchanged tree does not use — so that the change is *decided* instead of
// leaving the verifier's subset. Each spec is the std documentation of the function, stated over
// vstd's views; every injected entry appears in the evidence's trusted base.
//
//@ondemand core::option::impl&%0::or
pub assume_specification<T>[ Option::<T>::or ](a: Option<T>, b: Option<T>) -> (r: Option<T>)
    ensures r == (if a is Some { a } else { b });
//@ondemand core::option::impl&%0::or_else
pub assume_specification<T, F: FnOnce() -> Option<T>>[ Option::<T>::or_else ](a: Option<T>, f: F) -> (r: Option<T>)
    requires a is None ==> call_requires(f, ()),
    ensures (a is Some ==> r == a), (a is None ==> call_ensures(f, (), r));
//@ondemand core::option::impl&%0::and_then
pub assume_specification<T, U, F: FnOnce(T) -> Option<U>>[ Option::<T>::and_then ](a: Option<T>, f: F) -> (r: Option<U>)
    requires a matches Some(x) ==> call_requires(f, (x,)),
    ensures (a matches Some(x) ==> call_ensures(f, (x,), r)), (a is None ==> r is None);
//@ondemand core::option::impl&%0::filter
pub assume_specification<T, P: FnOnce(&T) -> bool>[ Option::<T>::filter ](a: Option<T>, p: P) -> (r: Option<T>)
    requires a matches Some(x) ==> call_requires(p, (&x,)),
    ensures (a matches Some(x) ==> (call_ensures(p, (&x,), true) ==> r == a) && (call_ensures(p, (&x,), false) ==> r is None)), (a is None ==> r is None), (r is Some ==> r == a);
//@ondemand core::option::impl&%0::unwrap_or_else
pub assume_specification<T, F: FnOnce() -> T>[ Option::<T>::unwrap_or_else ](a: Option<T>, f: F) -> (r: T)
    requires a is None ==> call_requires(f, ()),
    ensures (a matches Some(x) ==> r == x), (a is None ==> call_ensures(f, (), r));
//@ondemand core::option::impl&%0::ok_or
pub assume_specification<T, E>[ Option::<T>::ok_or ](a: Option<T>, e: E) -> (r: Result<T, E>)
    ensures (a matches Some(x) ==> r == Ok::<T, E>(x)), (a is None ==> r == Err::<T, E>(e));
//@ondemand core::option::impl&%0::ok_or_else
pub assume_specification<T, E, F: FnOnce() -> E>[ Option::<T>::ok_or_else ](a: Option<T>, f: F) -> (r: Result<T, E>)
    requires a is None ==> call_requires(f, ()),
    ensures (a matches Some(x) ==> r == Ok::<T, E>(x)), (a is None ==> r is Err);
//@ondemand core::option::impl&%0::is_some_and
pub assume_specification<T, F: FnOnce(T) -> bool>[ Option::<T>::is_some_and ](o: Option<T>, f: F) -> (r: bool)
    requires o matches Some(x) ==> call_requires(f, (x,)),
    ensures (o matches Some(x) ==> call_ensures(f, (x,), r)), (o is None ==> !r);
//@ondemand core::option::impl&%0::is_none_or
pub assume_specification<T, F: FnOnce(T) -> bool>[ Option::<T>::is_none_or ](o: Option<T>, f: F) -> (r: bool)
    requires o matches Some(x) ==> call_requires(f, (x,)),
    ensures (o matches Some(x) ==> call_ensures(f, (x,), r)), (o is None ==> r);
//@ondemand core::option::impl&%0::map_or
pub assume_specification<T, U, F: FnOnce(T) -> U>[ Option::<T>::map_or ](o: Option<T>, default: U, f: F) -> (r: U)
    requires o matches Some(x) ==> call_requires(f, (x,)),
    ensures (o matches Some(x) ==> call_ensures(f, (x,), r)), (o is None ==> r == default);
//@ondemand core::option::impl&%0::xor
pub assume_specification<T>[ Option::<T>::xor ](a: Option<T>, b: Option<T>) -> (r: Option<T>)
    ensures r == (if a is Some && b is None { a } else if a is None && b is Some { b } else { None });
//@ondemand core::result::impl&%0::ok
pub assume_specification<T, E>[ Result::<T, E>::ok ](a: Result<T, E>) -> (r: Option<T>)
    ensures (a matches Ok(x) ==> r == Some(x)), (a is Err ==> r is None);
//@ondemand core::result::impl&%0::err
pub assume_specification<T, E>[ Result::<T, E>::err ](a: Result<T, E>) -> (r: Option<E>)
    ensures (a matches Err(x) ==> r == Some(x)), (a is Ok ==> r is None);
//@ondemand core::result::impl&%0::unwrap_or
pub assume_specification<T, E>[ Result::<T, E>::unwrap_or ](a: Result<T, E>, d: T) -> (r: T)
    ensures (a matches Ok(x) ==> r == x), (a is Err ==> r == d);
//@ondemand core::result::impl&%0::unwrap_or_default
pub assume_specification<T: Default, E>[ Result::<T, E>::unwrap_or_default ](a: Result<T, E>) -> (r: T)
    ensures a matches Ok(x) ==> r == x;
//@ondemand core::result::impl&%0::and_then
pub assume_specification<T, E, U, F: FnOnce(T) -> Result<U, E>>[ Result::<T, E>::and_then ](a: Result<T, E>, f: F) -> (r: Result<U, E>)
    requires a matches Ok(x) ==> call_requires(f, (x,)),
    ensures (a matches Ok(x) ==> call_ensures(f, (x,), r)), (a matches Err(e) ==> r == Err::<U, E>(e));
//@ondemand core::result::impl&%0::is_ok_and
pub assume_specification<T, E, F: FnOnce(T) -> bool>[ Result::<T, E>::is_ok_and ](a: Result<T, E>, f: F) -> (r: bool)
    requires a matches Ok(x) ==> call_requires(f, (x,)),
    ensures (a matches Ok(x) ==> call_ensures(f, (x,), r)), (a is Err ==> !r);
//@ondemand core::num::impl&%11::saturating_sub
pub assume_specification[ usize::saturating_sub ](a: usize, b: usize) -> (r: usize)
    ensures r == (if a >= b { a - b } else { 0 });
//@ondemand core::num::impl&%11::saturating_add
pub assume_specification[ usize::saturating_add ](a: usize, b: usize) -> (r: usize)
    ensures r == (if a + b <= usize::MAX { a + b } else { usize::MAX as int });
//@ondemand core::num::impl&%11::abs_diff
pub assume_specification[ usize::abs_diff ](a: usize, b: usize) -> (r: usize)
    ensures r == (if a >= b { a - b } else { b - a });
//@ondemand std::ffi::os_str::impl&%21::eq_ignore_ascii_case
pub uninterp spec fn verif_osstr_eq_ignore_ascii_case_spec<S>(a: &std::ffi::OsStr, b: S) -> bool;
#[verifier::allow(undeclared_external_trait)]
pub assume_specification<S: AsRef<std::ffi::OsStr>>[ std::ffi::OsStr::eq_ignore_ascii_case ](a: &std::ffi::OsStr, b: S) -> (r: bool)
    ensures r == verif_osstr_eq_ignore_ascii_case_spec(a, b);
//@ondemand alloc::str::impl&%5::to_lowercase
pub uninterp spec fn verif_to_lowercase_spec(s: Seq<char>) -> Seq<char>;
pub assume_specification[ str::to_lowercase ](s: &str) -> (r: String)
    ensures r@ == verif_to_lowercase_spec(s@);
//@ondemand alloc::str::impl&%5::to_uppercase
pub uninterp spec fn verif_to_uppercase_spec(s: Seq<char>) -> Seq<char>;
pub assume_specification[ str::to_uppercase ](s: &str) -> (r: String)
    ensures r@ == verif_to_uppercase_spec(s@);
//@ondemand alloc::str::impl&%5::to_ascii_lowercase
pub uninterp spec fn verif_to_ascii_lowercase_spec(s: Seq<char>) -> Seq<char>;
pub assume_specification[ str::to_ascii_lowercase ](s: &str) -> (r: String)
    ensures r@ == verif_to_ascii_lowercase_spec(s@);
//@ondemand core::str::impl&%0::eq_ignore_ascii_case
pub uninterp spec fn verif_str_eq_ignore_ascii_case_spec(a: Seq<char>, b: Seq<char>) -> bool;
pub assume_specification[ str::eq_ignore_ascii_case ](a: &str, b: &str) -> (r: bool)
    ensures r == verif_str_eq_ignore_ascii_case_spec(a@, b@);
//@ondemand core::str::impl&%0::trim_ascii
pub uninterp spec fn verif_trim_ascii_spec(s: Seq<char>) -> Seq<char>;
pub assume_specification<'a>[ str::trim_ascii ](s: &'a str) -> (r: &'a str)
    ensures r@ == verif_trim_ascii_spec(s@);
//@ondemand core::str::impl&%0::trim_start
pub uninterp spec fn verif_trim_start_spec(s: Seq<char>) -> Seq<char>;
pub assume_specification<'a>[ str::trim_start ](s: &'a str) -> (r: &'a str)
    ensures r@ == verif_trim_start_spec(s@);
//@ondemand core::str::impl&%0::trim_end
pub uninterp spec fn verif_trim_end_spec(s: Seq<char>) -> Seq<char>;
pub assume_specification<'a>[ str::trim_end ](s: &'a str) -> (r: &'a str)
    ensures r@ == verif_trim_end_spec(s@);
//@ondemand core::str::impl&%0::trim
pub uninterp spec fn verif_trim_spec(s: Seq<char>) -> Seq<char>;
pub assume_specification<'a>[ str::trim ](s: &'a str) -> (r: &'a str)
    ensures r@ == verif_trim_spec(s@);
//@ondemand std::ffi::os_str::OsStr
#[verifier::external_type_specification]
#[verifier::external_body]
pub struct VerifOnDemandExOsStr(std::ffi::OsStr);
//@ondemand std::path::Path
#[verifier::external_type_specification]
#[verifier::external_body]
pub struct VerifOnDemandExPath(std::path::Path);
//@ondemand core::result::impl&%0::map_or
pub assume_specification<T, E, U, F: FnOnce(T) -> U>[ Result::<T, E>::map_or ](a: Result<T, E>, default: U, f: F) -> (r: U)
    requires a matches Ok(x) ==> call_requires(f, (x,)),
    ensures (a matches Ok(x) ==> call_ensures(f, (x,), r)), (a is Err ==> r == default);
//@ondemand core::result::impl&%0::map_or_else
pub assume_specification<T, E, U, D: FnOnce(E) -> U, F: FnOnce(T) -> U>[ Result::<T, E>::map_or_else ](a: Result<T, E>, d: D, f: F) -> (r: U)
    requires (a matches Ok(x) ==> call_requires(f, (x,))), (a matches Err(e) ==> call_requires(d, (e,))),
    ensures (a matches Ok(x) ==> call_ensures(f, (x,), r)), (a matches Err(e) ==> call_ensures(d, (e,), r));
//@ondemand core::result::impl&%0::unwrap_or_else
pub assume_specification<T, E, F: FnOnce(E) -> T>[ Result::<T, E>::unwrap_or_else ](a: Result<T, E>, f: F) -> (r: T)
    requires a matches Err(e) ==> call_requires(f, (e,)),
    ensures (a matches Ok(x) ==> r == x), (a matches Err(e) ==> call_ensures(f, (e,), r));
