// Group `mainwire`, units A1..A5 (accessors of `flags::Args`): specification functions written from
// the statements of C14 / C15 / C16, and the E3 shims for the `.iter().map(..).collect()` chains.
// Included *inside* the group's `verus! { .. }` block; needs prelude/mainw_ax.rs (OsString,
// `osstring_of`), prelude/tstr_mod.rs (`&str` key model) and prelude/mainw_globset.rs.

// ---- A1: the -E map ---------------------------------------------------------------------------------
/// the map built by inserting the first `n` pairs in order (a later pair with an equal key wins);
/// same definition as `pairs_to_map` of prelude/blocks_table.rs
pub open spec fn mainw_pairs_to_map<K, V>(s: Seq<(K, V)>, n: int) -> Map<K, V>
    decreases n
{
    if n <= 0 { Map::empty() } else { mainw_pairs_to_map(s, n - 1).insert(s[n - 1].0, s[n - 1].1) }
}

/// C16: "`-E ext=known`": the (key, value) list as a map, keys and values converted with
/// `OsString::from`, a later `-E` for the same key overriding an earlier one
pub open spec fn ext_map_upto(exts: Seq<(String, String)>, n: int) -> Map<OsString, OsString>
    decreases n
{
    if n <= 0 { Map::empty() } else { ext_map_upto(exts, n - 1).insert(osstring_of(exts[n - 1].0@), osstring_of(exts[n - 1].1@)) }
}

pub open spec fn ext_map(exts: Seq<(String, String)>) -> Map<OsString, OsString> {
    ext_map_upto(exts, exts.len() as int)
}

/// C16 / A1: "later entries overriding earlier ones": the value under a key is the value of the LAST
/// `-E` entry with that key
pub proof fn lemma_ext_map_later_entry_wins(exts: Seq<(String, String)>, n: int, i: int)
    requires
        0 <= i < n <= exts.len(),
        forall|j: int| i < j < n ==> osstring_of((#[trigger] exts[j]).0@) != osstring_of(exts[i].0@),
    ensures
        ext_map_upto(exts, n).contains_key(osstring_of(exts[i].0@)), // [A1.lemma.later_entry_overrides_earlier]
        ext_map_upto(exts, n)[osstring_of(exts[i].0@)] == osstring_of(exts[i].1@),
    decreases n,
{
    if i < n - 1 {
        lemma_ext_map_later_entry_wins(exts, n - 1, i);
        assert(osstring_of(exts[n - 1].0@) != osstring_of(exts[i].0@));
    }
}

/// `outs` is, entry by entry, the converted pair list of `exts`
pub open spec fn is_ext_pairs(outs: Seq<(OsString, OsString)>, exts: Seq<(String, String)>) -> bool {
    outs.len() == exts.len()
        && forall|i: int| 0 <= i < exts.len() ==> (#[trigger] outs[i]).0 == osstring_of(exts[i].0@) && outs[i].1 == osstring_of(exts[i].1@)
}

/// inserting the converted pairs in order builds `ext_map`
pub proof fn lemma_pairs_ext_map(outs: Seq<(OsString, OsString)>, exts: Seq<(String, String)>, n: int)
    requires is_ext_pairs(outs, exts), 0 <= n <= exts.len(),
    ensures mainw_pairs_to_map(outs, n) == ext_map_upto(exts, n),
    decreases n,
{
    if n > 0 {
        lemma_pairs_ext_map(outs, exts, n - 1);
        assert(outs[n - 1].0 == osstring_of(exts[n - 1].0@));
    }
}

/// E13 shim: `OsString::from(x)` for a `&String` (an instance of the blanket
/// `impl<T: ?Sized + AsRef<OsStr>> From<&T> for OsString`, which cannot take an
/// `assume_specification` for one instantiation). Same shim as in contracts/groups/flags.rs.
#[verifier::external_body]
pub fn verif_osstring_from(s: &String) -> (r: OsString)
    ensures r == osstring_of(s@),
{ OsString::from(s) }

/// E3 shim: `v.iter().map(F).collect()` into a `HashMap` (Verus rejects iterator adapters; the body is
/// the same std chain). Trusted (std docs of `slice::Iter`, `Iterator::map`, `FromIterator for HashMap`
/// = `extend`: "inserts ... in order; a later pair with an equal key replaces the value"): the closure
/// is called once on every element, in order, and the pairs it returned are inserted in that order.
/// Phrased with `call_ensures` of the *verified* closure.
#[verifier::external_body]
pub fn verif_iter_map_collect_map<T, K: std::cmp::Eq + std::hash::Hash, V, F: FnMut(&T) -> (K, V)>(v: &Vec<T>, f: F) -> (r: HashMap<K, V>)
    requires
        forall|i: int| 0 <= i < v@.len() ==> call_requires(f, (&#[trigger] v@[i],)),
    ensures
        vstd::std_specs::hash::obeys_key_model::<K>() ==> exists|outs: Seq<(K, V)>| outs.len() == v@.len()
            && (forall|i: int| 0 <= i < v@.len() ==> call_ensures(f, (&v@[i],), #[trigger] outs[i]))
            && r@ == mainw_pairs_to_map(outs, outs.len() as int),
{ v.iter().map(f).collect() }

// ---- A2 / A3: the --disable / --enable name sets ---------------------------------------------------
/// the name occurs in the list (strings compared by content, as `str == str` does)
pub open spec fn name_in_list(names: Seq<String>, name: Seq<char>) -> bool {
    exists|i: int| 0 <= i < names.len() && (#[trigger] names[i])@ == name
}

/// C14: `set` is the SET of the listed names: a name is a member iff it is listed, however often.
/// (A relation instead of a function `Seq<String> -> Set<&str>`: this vstd's `Set` is finite by
/// construction and has no comprehension; by set extensionality the relation fixes the set.)
pub open spec fn is_name_set<'a>(set: Set<&'a str>, names: Seq<String>) -> bool {
    forall|s: &'a str| #[trigger] set.contains(s) <==> name_in_list(names, s@)
}

/// the relation determines the set
pub proof fn lemma_name_set_unique<'a>(s1: Set<&'a str>, s2: Set<&'a str>, names: Seq<String>)
    requires is_name_set(s1, names), is_name_set(s2, names),
    ensures s1 == s2,
{
    assert(s1 =~= s2);
}

/// C14: "repeating a flag composes as set union": the set of a concatenated flag list is the union
pub proof fn lemma_name_set_union<'a>(sa: Set<&'a str>, sb: Set<&'a str>, sab: Set<&'a str>, a: Seq<String>, b: Seq<String>)
    requires is_name_set(sa, a), is_name_set(sb, b), is_name_set(sab, a + b),
    ensures sab == sa.union(sb), // [A2.lemma.repeated_flag_is_set_union]
{
    let ab = a + b;
    assert forall|s: &'a str| sab.contains(s) <==> (sa.contains(s) || sb.contains(s)) by {
        if name_in_list(ab, s@) {
            let i = choose|i: int| 0 <= i < ab.len() && (#[trigger] ab[i])@ == s@;
            if i < a.len() { assert(a[i]@ == s@); } else { assert(b[i - a.len()]@ == s@); }
        }
        if name_in_list(a, s@) {
            let i = choose|i: int| 0 <= i < a.len() && (#[trigger] a[i])@ == s@;
            assert(ab[i]@ == s@);
        }
        if name_in_list(b, s@) {
            let i = choose|i: int| 0 <= i < b.len() && (#[trigger] b[i])@ == s@;
            assert(ab[a.len() + i]@ == s@);
        }
    }
    assert(sab =~= sa.union(sb));
}

/// E3 shim: `v.iter().map(AsRef::as_ref).collect()` into a `HashSet<&str>` (iterator adapters and the
/// path `AsRef::as_ref` used as a function are outside Verus; the body is the same std chain).
/// Trusted (std docs: `<String as AsRef<str>>::as_ref` is the string's text; `FromIterator for
/// HashSet` inserts every item): the set of the texts of the elements.
#[verifier::external_body]
pub fn verif_iter_as_ref_collect_set<'a>(v: &'a Vec<String>) -> (r: HashSet<&'a str>)
    ensures
        is_name_set(r@, v@),
{ v.iter().map(AsRef::as_ref).collect() }

// ---- A4 / A5: the glob sets ---------------------------------------------------------------------------
/// the texts of a list of strings
pub open spec fn str_views(v: Seq<String>) -> Seq<Seq<char>> {
    Seq::new(v.len(), |i: int| v[i]@)
}

/// shim: `Vec::extend(Vec)` (vstd has no specification for `Extend`). std doc of `Extend for Vec`:
/// appends all items of the iterator, in order. Same shim as in contracts/groups/detect.rs.
#[verifier::external_body]
pub fn verif_vec_extend<T>(v: &mut Vec<T>, other: Vec<T>)
    ensures final(v)@ == old(v)@ + other@,
{
    v.extend(other)
}
