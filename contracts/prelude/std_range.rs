// T-std: assumed specifications of std items that vstd (0.2026.09.13) leaves unspecified.
// Written from the std documentation. Each is exercised by a positive and a negative client in
// contracts/groups/std_clients.rs on every run (vacuity guard).

pub assume_specification<Idx>[ RangeInclusive::<Idx>::start ](r: &RangeInclusive<Idx>) -> (s: &Idx)
    ensures *s == r@.start;

pub assume_specification<Idx>[ RangeInclusive::<Idx>::end ](r: &RangeInclusive<Idx>) -> (s: &Idx)
    ensures *s == r@.end;

/// "f returns a non-Equal ordering for x" in terms of the closure's postcondition.
pub open spec fn returns_non_equal<'a, T, F: FnMut(&'a T) -> Ordering>(f: F, x: &'a T) -> bool {
    exists|o: Ordering| o != Ordering::Equal && #[trigger] call_ensures(f, (x,), o)
}

// <[T]>::binary_search_by — std doc: "The comparator function should return an order code that
// indicates whether its argument is Less, Equal or Greater the desired target. If the slice is not
// sorted or if the comparator function does not implement an order consistent with the sort order
// of the underlying slice, the returned result is unspecified and meaningless."
// The consistency is a *precondition* here, so every caller must prove it.
pub assume_specification<'a, T, F: FnMut(&'a T) -> Ordering>[ <[T]>::binary_search_by ](s: &'a [T], f: F) -> (r: Result<usize, usize>)
    requires
        forall|i: int| 0 <= i < s@.len() ==> #[trigger] call_requires(f, (&s@[i],)), // [std.binary_search_by.pre.callable]
        forall|i: int, j: int, ri: Ordering, rj: Ordering| #![trigger call_ensures(f, (&s@[i],), ri), call_ensures(f, (&s@[j],), rj)] // [std.binary_search_by.pre.consistent]
            0 <= i < j < s@.len() && call_ensures(f, (&s@[i],), ri) && call_ensures(f, (&s@[j],), rj)
            ==> (ri == Ordering::Greater ==> rj == Ordering::Greater) && (rj == Ordering::Less ==> ri == Ordering::Less),
    ensures
        r matches Ok(i) ==> i < s@.len() && call_ensures(f, (&s@[i as int],), Ordering::Equal),
        r is Err ==> forall|i: int| 0 <= i < s@.len() ==> returns_non_equal(f, &#[trigger] s@[i]),
;

pub assume_specification<T, U, F: FnOnce(T) -> U>[ Option::<T>::map_or ](o: Option<T>, default: U, f: F) -> (r: U)
    requires o matches Some(x) ==> call_requires(f, (x,)),
    ensures (o matches Some(x) ==> call_ensures(f, (x,), r)), (o is None ==> r == default);
