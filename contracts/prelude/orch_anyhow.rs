// Stand-in for the `anyhow` crate for group `flags` (a superset of prelude/anyhow.rs: it adds the
// `Context` extension trait on `Option`). Single-file Verus cannot link crates (DESIGN 2.9, T-ext).
// Rule E1: `anyhow!(..)` / `bail!(..)` / `format!(..)` lose their text; only *that* an error is
// returned is verified.
mod anyhow {
    use vstd::prelude::*;
    verus! {
    pub struct Error { pub tag: u8 }
    pub type Result<T> = core::result::Result<T, Error>;
    pub fn verif_err() -> Error { Error { tag: 0 } }

    /// E1: the text a `format!(..)` would have produced
    pub struct Msg { pub tag: u8 }
    pub fn verif_msg() -> Msg { Msg { tag: 0 } }

    /// `anyhow::Context::with_context` for `Option<T>` (anyhow source: `match self { Some(ok) =>
    /// Ok(ok), None => Err(Error::msg(context())) }`).
    pub trait Context<T>: Sized {
        spec fn as_option(self) -> Option<T>;

        fn with_context<C, F: FnOnce() -> C>(self, f: F) -> (r: Result<T>)
            requires
                self.as_option() is None ==> call_requires(f, ()),
            ensures
                r is Ok <==> self.as_option() is Some,
                r matches Ok(v) ==> self.as_option() == Some(v),
        ;
    }

    impl<T> Context<T> for Option<T> {
        open spec fn as_option(self) -> Option<T> { self }

        fn with_context<C, F: FnOnce() -> C>(self, f: F) -> (r: Result<T>)
        {
            match self {
                Some(ok) => Ok(ok),
                None => { let _c = f(); Err(verif_err()) }
            }
        }
    }
    }
}
