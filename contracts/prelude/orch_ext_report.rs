// Stand-ins for the external crates / std I/O used by `process_violations` (group report; DESIGN
// 2.9, T-ext). Included *outside* the group's `verus! { .. }` block, instead of orch_ext.rs.
//
// serde_json (rule E2): a JSON value is opaque. `to_value(d)` is a fixed (uninterpreted) function `json_of`
// of the diagnostic's five fields (ASSUMED never to fail for this struct, see the shim). `to_writer_pretty`
// fails exactly when a map KEY is not a string for serde (`crate::JsonKey`, prelude/report_printable.rs) or
// the writer fails (`crate::stderr_write_ok`, uninterpreted). The JSON text, the field names and the numeric
// encoding of the severity are NOT verified.
mod serde_json {
    use vstd::prelude::*;
    use std::collections::HashMap;
    use std::path::PathBuf;
    verus! {
//@include prelude/orch_serde_types.rs

    /// E1: `?` on a `serde_json::Error` in a function returning `anyhow::Result` (anyhow's blanket
    /// `From<E: std::error::Error>`); which error comes out is not verified.
    impl From<Error> for crate::anyhow::Error {
        #[verifier::external_body]
        fn from(e: Error) -> crate::anyhow::Error { crate::anyhow::verif_err() }
    }

    pub uninterp spec fn json_of(range: crate::ViolationRange, code: Seq<char>, message: Seq<char>, severity: crate::BlockSeverity, data: Option<Value>) -> Value;

    /// `serde_json::to_value::<SimpleDiagnostic>` (generic over `T: Serialize` in the real crate).
    /// TRUSTED ASSUMPTION (T-ext, serde / serde_json): the call returns `Ok` for this struct. `to_value` fails only
    /// where `T`'s `Serialize` impl fails or a map has a key that is not a string; `SimpleDiagnostic` derives
    /// `Serialize` over named (string) fields holding `usize` positions, two `&str`, a field-less `repr` enum and an
    /// `Option<serde_json::Value>` (already a JSON value): none of these can fail and there is no map with a
    /// non-string key. The value is a fixed (uninterpreted) function of the five fields (E2).
    #[verifier::external_body]
    pub fn to_value<'a>(d: crate::SimpleDiagnostic<'a>) -> (r: Result<Value>)
        ensures r matches Ok(v) && v == json_of(*d.range, d.code@, d.message@, d.severity, *d.data),
    { unimplemented!() }

    /// `serde_json::to_writer_pretty(&mut stderr, &map)` (generic over `W: io::Write`, `T: ?Sized + Serialize` in the
    /// real crate), at the two shapes `process_violations` has had: `&HashMap<String, Vec<Value>>` (after
    /// 6239843) and `&HashMap<PathBuf, Vec<Value>>` (before). The output itself is not modelled.
    /// TRUSTED ASSUMPTION (T-ext, serde_json `ser.rs` / serde `impl Serialize for Path`): the call fails exactly
    /// when (a) some KEY cannot be written as the name of an object member (`JsonKey::key_serialisable`: never
    /// for `String`; for `PathBuf` when the path is not valid Unicode: "path contains invalid UTF-8 characters"),
    /// or (b) the writer fails (`stderr_write_ok`, uninterpreted: the world decides). The VALUES are
    /// `serde_json::Value`s, whose serialisation cannot fail by itself.
    #[verifier::external_body]
    pub fn to_writer_pretty<K: crate::JsonKey>(w: &mut std::io::StderrLock<'static>, v: &HashMap<K, Vec<Value>>) -> (r: Result<()>)
        requires
            // C11 "stderr is ONE JSON object": nothing has been written through this writer yet
            crate::stderr_docs(*old(w)) == 0 && crate::stderr_newlines(*old(w)) == 0, // [V8.call.report_is_the_only_document]
        ensures
            r is Ok <==> crate::keys_serialisable(v@) && crate::stderr_write_ok(v@),
            crate::stderr_docs(*final(w)) == crate::stderr_docs(*old(w)) + 1 && crate::stderr_newlines(*final(w)) == crate::stderr_newlines(*old(w)),
    { unimplemented!() }
    }
}

// `std::process` (main.rs: `use std::{env, fs, process};`)
mod process {
    use vstd::prelude::*;
    verus! {
    /// `std::process::exit` never returns (std doc: "Terminates the current process with the specified
    /// exit code. This function will never return"), hence `ensures false`: code after the call is
    /// unreachable, and the call site is an obligation of its own in the group (V8.post.exit1_only_if_error).
    #[verifier::external_body]
    pub fn exit(code: i32) -> !
        requires
            // in `process_violations` every exit goes through `exit_reported` (the rewrite of `process::exit(1)`): any
            // other exit call (another status, or one the rewrite does not reach) is not allowed by C11
            false, // [V8.call.exit_must_be_status_1_after_the_report]
        ensures false
    { std::process::exit(code) }

    /// Rule E2: `process::exit(code)` in `process_violations`, with the stderr writer handed over as a witness of what
    /// has been printed. C11: the process may exit early only with status 1 and only AFTER the complete report (one
    /// JSON document and its newline) has gone to stderr.
    #[verifier::external_body]
    pub fn exit_reported(code: i32, w: &std::io::StderrLock<'static>) -> !
        requires
            code == 1, // [V8.call.exit_status_is_1]
            crate::stderr_docs(*w) == 1 && crate::stderr_newlines(*w) == 1, // [V8.call.exit_only_after_the_report]
        ensures false
    { std::process::exit(code) }
    }
}
