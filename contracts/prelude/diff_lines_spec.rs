// Specification layer of D-b (hunk walk of src/diff_parser.rs), DESIGN Appendix A.1.
// Written from property C01 ("a block counts as modified exactly when the diff adds, edits or
// deletes a line lying between its start-tag comment and its end-tag comment"), not from the code.
// Needs prelude/diff_unidiff.rs, LineChange, ranges_wf / lc_wf.

// Option::is_some_and — std doc: "Returns true if the option is a Some and the value inside of it
// matches a predicate."
pub assume_specification<T, F: FnOnce(T) -> bool>[ Option::<T>::is_some_and ](o: Option<T>, f: F) -> (r: bool)
    requires
        o matches Some(x) ==> call_requires(f, (x,)), // [std.is_some_and.pre.callable]
    ensures
        o is None ==> !r,
        o matches Some(x) ==> call_ensures(f, (x,), r),
;

pub open spec fn hunk_lines(f: PatchedFile, h: int) -> Seq<Line> {
    f.spec_hunks()[h].spec_lines()
}

// ---- T-ext, part 1: what every unwrap relies on -------------------------------------------
/// `PatchedFile::parse_hunk` gives every `+` line a target number and every `-` line a source
/// number (unidiff-0.4.0 lib.rs, the `match line_type` in parse_hunk).
pub open spec fn line_numbered(l: Line) -> bool {
    &&& kind(l) == Kind::Add ==> l.target_line_no is Some
    &&& kind(l) == Kind::Rem ==> l.source_line_no is Some
}

pub open spec fn file_numbered(f: PatchedFile) -> bool {
    forall|h: int, k: int| 0 <= h < f.spec_hunks().len() && 0 <= k < hunk_lines(f, h).len()
        ==> line_numbered(#[trigger] hunk_lines(f, h)[k])
}

// ---- T-ext, part 2: git-shaped hunks (wf_file of A.1) --------------------------------------
/// git's convention: a zero-length side names the line *before* the site
pub open spec fn src_first(h: Hunk) -> int {
    if h.source_length == 0 { h.source_start + 1 } else { h.source_start as int }
}
pub open spec fn tgt_first(h: Hunk) -> int {
    if h.target_length == 0 { h.target_start + 1 } else { h.target_start as int }
}
/// next old-file (source) line number before position k of the hunk (a marker line is no line: it
/// does not advance the cursor)
pub open spec fn cs(h: Hunk, k: int) -> int
    decreases k
{
    if k <= 0 { src_first(h) } else {
        cs(h, k - 1) + if kind(h.spec_lines()[k - 1]) == Kind::Ctx || kind(h.spec_lines()[k - 1]) == Kind::Rem { 1int } else { 0int }
    }
}
/// next new-file (target) line number before position k of the hunk (a marker line is no line)
pub open spec fn ct(h: Hunk, k: int) -> int
    decreases k
{
    if k <= 0 { tgt_first(h) } else {
        ct(h, k - 1) + if kind(h.spec_lines()[k - 1]) == Kind::Ctx || kind(h.spec_lines()[k - 1]) == Kind::Add { 1int } else { 0int }
    }
}

// ---- marker lines (`\ No newline at end of file`) ---------------------------------------------
// A line of kind Other is git's marker "the line before me has no final newline". It is NOT a line
// of either file: property C01 speaks of lines the diff "adds, edits or deletes", and the marker is
// none. Every specification function below therefore treats a marker line as ABSENT: the cursors
// `cs` / `ct` do not advance over it (so `hunk_gap`, the header-length clauses of `hunk_wf` and
// `post_deletion_new_numbering` do not see it), it does not end a group of changed lines (`gstart`),
// it is not counted among the removed lines of its group (`mk` in `paired`, `replace_group`,
// `kf2_carve_out`, `removed_accounted`), a run of removed lines followed by a marker line is
// "followed by" whatever follows the marker (`next_is` in `pure_del_run`, hence in
// `kf1_carve_out`), and it is never the origin of an entry (`entry_ok`). What is specified for a
// hunk with marker lines is what is specified for the same hunk with the marker lines deleted; this
// is PROVED (not assumed) position by position in prelude/diff_lines_proof.rs,
// `lemma_marker_is_no_line_*`.
//
// T-ext (trusted assumption about git + unidiff-0.4.0, checked on real `git diff` output by the
// conformance harness cex T.unidiff): marker lines occur only between the last removed and the
// first added line of a group; a trailing marker is dropped by unidiff's early break.
//   * git prints the marker directly after the last line of the old file (a `-` or ` ` line) and/or
//     the last line of the new file (a `+` or ` ` line) when that file lacks the final newline;
//     within a group of changed lines it prints all `-` lines before all `+` lines.
//   * unidiff-0.4.0 `parse_hunk` keeps the marker as a `Line` with line_type "\", no source and no
//     target number, advances neither cursor, and STOPS reading the hunk (`break`) as soon as both
//     cursors have reached the ends announced by the `@@` header. A marker that follows the last
//     real line of the hunk (after the last `+`, after a final ` `, after the last `-` of a hunk
//     that adds nothing behind it) is therefore never part of the hunk.
//   * What remains: the old file's last line lacks the newline, it is removed (or re-written), and
//     added lines follow: `-a`, `-b`, `\ No newline at end of file`, `+c`.
/// the marker line at position k is in the one admissible position (T-ext above)
pub open spec fn marker_wf(ls: Seq<Line>, k: int) -> bool {
    // it carries no line number of either file
    &&& ls[k].source_line_no is None && ls[k].target_line_no is None
    // it directly follows a removed line (the last line of the old file) ...
    &&& k > 0 && kind(ls[k - 1]) == Kind::Rem
    // ... it is not the last line of the hunk, and the next line is an added line
    &&& k + 1 < ls.len() && kind(ls[k + 1]) == Kind::Add
}

/// 1 if the line just before position k is a marker line, else 0 (position k - mk(ls, k) is where
/// the lines of the files end before k). Opaque for the solver's sake only (every lemma that needs
/// the definition reveals it): left visible, its case split made the FAILING search of the uncarved
/// KF2 clause in group difflines_kf run into the resource limit instead of failing cleanly.
#[verifier::opaque]
pub open spec fn mk(ls: Seq<Line>, k: int) -> int {
    if k > 0 && kind(ls[k - 1]) == Kind::Other { 1 } else { 0 }
}

/// the first line of either file at or after position e exists and is of kind `kd`: a marker line
/// at e is skipped (`marker_wf`: a marker line is followed by an added line, so there are never two
/// in a row)
pub open spec fn next_is(ls: Seq<Line>, e: int, kd: Kind) -> bool {
    ||| 0 <= e < ls.len() && kind(ls[e]) == kd
    ||| 0 <= e && e + 1 < ls.len() && kind(ls[e]) == Kind::Other && kind(ls[e + 1]) == kd
}

/// line k of the hunk is numbered by the running cursors and is a `+`, `-` or ` ` line, or it is a
/// marker line in the admissible position
pub open spec fn line_wf(h: Hunk, k: int) -> bool {
    let ls = h.spec_lines();
    &&& kind(ls[k]) == Kind::Other ==> marker_wf(ls, k)
    &&& kind(ls[k]) == Kind::Add || kind(ls[k]) == Kind::Ctx
            ==> ls[k].target_line_no is Some && ls[k].target_line_no.unwrap() as int == ct(h, k)
    &&& kind(ls[k]) == Kind::Rem || kind(ls[k]) == Kind::Ctx
            ==> ls[k].source_line_no is Some && ls[k].source_line_no.unwrap() as int == cs(h, k)
    // inside a run of changed lines every removed line precedes every added line
    &&& k > 0 && kind(ls[k]) == Kind::Rem ==> kind(ls[k - 1]) != Kind::Add
}

pub open spec fn hunk_wf(h: Hunk) -> bool {
    let ls = h.spec_lines();
    &&& forall|k: int| 0 <= k < ls.len() ==> #[trigger] line_wf(h, k)
    // the header lengths are the numbers of lines on each side
    &&& cs(h, ls.len() as int) == src_first(h) + h.source_length
    &&& ct(h, ls.len() as int) == tgt_first(h) + h.target_length
}

/// hunks in file order, at least one unchanged line between hunk h and hunk h + 1
pub open spec fn hunk_gap(f: PatchedFile, h: int) -> bool {
    let hs = f.spec_hunks();
    tgt_first(hs[h + 1]) > ct(hs[h], hs[h].spec_lines().len() as int)
}

pub open spec fn file_wf(f: PatchedFile) -> bool {
    let hs = f.spec_hunks();
    &&& forall|h: int| 0 <= h < hs.len() ==> hunk_wf(#[trigger] hs[h])
    &&& forall|h: int| 0 <= h < hs.len() - 1 ==> #[trigger] hunk_gap(f, h)
}

// ---- expected entries ------------------------------------------------------------------------
/// start of the run of changed (non-context) lines that ends just before position k (a marker line
/// is no line: it does not end the run)
pub open spec fn gstart(ls: Seq<Line>, k: int) -> int
    decreases k
{
    if k <= 0 { 0 } else if kind(ls[k - 1]) == Kind::Ctx { k } else { gstart(ls, k - 1) }
}
/// start of the run of added lines that ends just before position k
pub open spec fn fadd(ls: Seq<Line>, k: int) -> int
    decreases k
{
    if k <= 0 { 0 } else if kind(ls[k - 1]) == Kind::Add { fadd(ls, k - 1) } else { k }
}
/// the added line at k is the j-th added line of its group, the group has r removed lines
/// (all before its first added line; a marker line between them and the first added line is no
/// line and is not counted): paired iff j < r
pub open spec fn paired(ls: Seq<Line>, k: int) -> bool {
    k - fadd(ls, k) < (fadd(ls, k) - mk(ls, fadd(ls, k))) - gstart(ls, fadd(ls, k))
}
/// [ks, e) is a maximal run of removed lines that is not followed by an added line (a marker line
/// at e is no line: what follows the run is what follows the marker)
pub open spec fn pure_del_run(ls: Seq<Line>, ks: int, e: int) -> bool {
    &&& 0 <= ks < e <= ls.len()
    &&& ks == 0 || kind(ls[ks - 1]) != Kind::Rem
    &&& forall|j: int| ks <= j < e ==> kind(#[trigger] ls[j]) == Kind::Rem
    &&& !next_is(ls, e, Kind::Rem) && !next_is(ls, e, Kind::Add)
}

/// ghost: the diff line that caused an output entry (`e` = end of the run for a pure deletion)
pub struct Orig { pub h: int, pub k: int, pub e: int }

pub open spec fn has_entry(o: Seq<Orig>, h: int, k: int) -> bool {
    exists|i: int| 0 <= i < o.len() && (#[trigger] o[i]).h == h && o[i].k == k
}

pub open spec fn orig_lt(a: Orig, b: Orig) -> bool {
    a.h < b.h || (a.h == b.h && a.k < b.k)
}

/// entry `e` is what property C01 expects for origin `o`, and nothing else
pub open spec fn entry_ok(f: PatchedFile, e: LineChange, o: Orig) -> bool {
    &&& 0 <= o.h < f.spec_hunks().len()
    &&& 0 <= o.k < hunk_lines(f, o.h).len()
    &&& match kind(hunk_lines(f, o.h)[o.k]) {
            Kind::Add => hunk_lines(f, o.h)[o.k].target_line_no == Some(e.line)
                && (e.ranges is Some <==> paired(hunk_lines(f, o.h), o.k))
                && lc_wf(e),
            Kind::Rem => pure_del_run(hunk_lines(f, o.h), o.k, o.e) && e.ranges is None,
            _ => false,
        }
}

/// (a) every added line has an entry
pub open spec fn post_every_added(f: PatchedFile, o: Seq<Orig>) -> bool {
    forall|h: int, k: int| 0 <= h < f.spec_hunks().len() && 0 <= k < hunk_lines(f, h).len()
        && kind(#[trigger] hunk_lines(f, h)[k]) == Kind::Add ==> has_entry(o, h, k)
}
/// (b) every maximal run of removed lines not followed by an added line has an entry (at its first line)
pub open spec fn post_every_pure_deletion(f: PatchedFile, o: Seq<Orig>) -> bool {
    forall|h: int, ks: int, e: int| 0 <= h < f.spec_hunks().len() && #[trigger] pure_del_run(hunk_lines(f, h), ks, e)
        ==> has_entry(o, h, ks)
}
/// (c) nothing else
pub open spec fn post_nothing_else(f: PatchedFile, out: Seq<LineChange>, o: Seq<Orig>) -> bool {
    &&& o.len() == out.len()
    &&& forall|i: int| 0 <= i < out.len() ==> entry_ok(f, #[trigger] out[i], o[i])
}
/// (d) one entry per origin, in diff order. Opaque for the solver's sake only (the two step lemmas
/// that extend the sequence reveal it): the two-trigger quantifier is quadratic in the number of
/// `o[i]` terms and dominated the FAILING searches of group difflines_kf.
#[verifier::opaque]
pub open spec fn post_origin_increasing(o: Seq<Orig>) -> bool {
    forall|i: int, j: int| 0 <= i < j < o.len() ==> orig_lt(#[trigger] o[i], #[trigger] o[j])
}
/// (iv) a pure deletion is reported at the new-file line that follows the deletion site
pub open spec fn post_deletion_new_numbering(f: PatchedFile, out: Seq<LineChange>, o: Seq<Orig>) -> bool {
    forall|i: int| 0 <= i < out.len() && kind(hunk_lines(f, (#[trigger] o[i]).h)[o[i].k]) == Kind::Rem
        ==> out[i].line == ct(f.spec_hunks()[o[i].h], o[i].k)
}
/// what the code does instead (KF1): the old-file number of the first removed line
pub open spec fn deletion_source_numbering(f: PatchedFile, out: Seq<LineChange>, o: Seq<Orig>) -> bool {
    forall|i: int| 0 <= i < out.len() && kind(hunk_lines(f, (#[trigger] o[i]).h)[o[i].k]) == Kind::Rem
        ==> out[i].line == cs(f.spec_hunks()[o[i].h], o[i].k)
}
/// (v)
pub open spec fn strictly_sorted(out: Seq<LineChange>) -> bool {
    forall|i: int, j: int| 0 <= i < j < out.len() ==> (#[trigger] out[i]).line < (#[trigger] out[j]).line
}

/// KF1 carve-out `zero_net_offset_before_each_pure_deletion`: at the start of every pure-deletion
/// run the old-file cursor equals the new-file cursor.
pub open spec fn kf1_carve_out(f: PatchedFile) -> bool {
    forall|h: int, ks: int, e: int| 0 <= h < f.spec_hunks().len() && #[trigger] pure_del_run(hunk_lines(f, h), ks, e)
        ==> cs(f.spec_hunks()[h], ks) == ct(f.spec_hunks()[h], ks)
}

/// the entry `fold_deleted_lines` pushes
pub open spec fn deletion_entry(l: Line) -> LineChange {
    LineChange { line: l.source_line_no.unwrap(), ranges: None }
}

// ---- every removed line is accounted for (C01: "... or DELETES a line ...") --------------------
/// [gs, re) with re = fa - mk(ls, fa) is a maximal run of removed lines that IS followed by added
/// lines (a marker line between the two runs is no line), [fa, ge) is the maximal run of those added
/// lines: a "replace group" with re - gs removed and ge - fa added lines
pub open spec fn replace_group(ls: Seq<Line>, gs: int, fa: int, ge: int) -> bool {
    &&& 0 <= gs < fa - mk(ls, fa) && fa < ge <= ls.len()
    &&& gs == 0 || kind(ls[gs - 1]) != Kind::Rem
    &&& forall|j: int| gs <= j < fa - mk(ls, fa) ==> kind(#[trigger] ls[j]) == Kind::Rem
    &&& forall|j: int| fa <= j < ge ==> kind(#[trigger] ls[j]) == Kind::Add
    &&& ge == ls.len() || kind(ls[ge]) != Kind::Add
}

/// Some entry reports the surplus deletions of the replace group whose added lines are [fa, ge) of
/// hunk h: a whole-line change (`ranges: None`) on the group's last added line, or a deletion entry
/// (`ranges: None`) at the new-file line that follows the group. ANY such entry satisfies the clause
/// (KF2: today the code produces none).
pub open spec fn surplus_reported(f: PatchedFile, out: Seq<LineChange>, h: int, fa: int, ge: int) -> bool {
    exists|i: int| 0 <= i < out.len() && (#[trigger] out[i]).ranges is None
        && (hunk_lines(f, h)[ge - 1].target_line_no == Some(out[i].line) || out[i].line == ct(f.spec_hunks()[h], ge))
}

/// the removed line at (h, k) is accounted for: paired with an added line of its group (the j-th
/// removed with the j-th added), or its group reports the surplus, or it lies in a pure-deletion
/// run that has its entry
pub open spec fn removed_accounted(f: PatchedFile, out: Seq<LineChange>, o: Seq<Orig>, h: int, k: int) -> bool {
    let ls = hunk_lines(f, h);
    ||| exists|gs: int, fa: int, ge: int| #[trigger] replace_group(ls, gs, fa, ge) && gs <= k < fa - mk(ls, fa)
            && (k - gs < ge - fa || surplus_reported(f, out, h, fa, ge))
    ||| exists|ks: int, e: int| #[trigger] pure_del_run(ls, ks, e) && ks <= k < e && has_entry(o, h, ks)
}

pub open spec fn post_removed_accounted(f: PatchedFile, out: Seq<LineChange>, o: Seq<Orig>) -> bool {
    forall|h: int, k: int| 0 <= h < f.spec_hunks().len() && 0 <= k < hunk_lines(f, h).len()
        && kind(#[trigger] hunk_lines(f, h)[k]) == Kind::Rem ==> removed_accounted(f, out, o, h, k)
}

/// KF2 carve-out: no replace group has more removed than added lines (a marker line is no line)
pub open spec fn kf2_carve_out(f: PatchedFile) -> bool {
    forall|h: int, gs: int, fa: int, ge: int| 0 <= h < f.spec_hunks().len() && #[trigger] replace_group(hunk_lines(f, h), gs, fa, ge)
        ==> (fa - mk(hunk_lines(f, h), fa)) - gs <= ge - fa
}

/// D-b postcondition (A.1 (a)-(d), the carved (iv), the carved "removed lines accounted for"); `o` is the ghost origin sequence
pub open spec fn db_post(f: PatchedFile, out: Seq<LineChange>, o: Seq<Orig>) -> bool {
    &&& post_every_added(f, o)
    &&& post_every_pure_deletion(f, o)
    &&& post_nothing_else(f, out, o)
    &&& post_origin_increasing(o)
    &&& kf1_carve_out(f) ==> post_deletion_new_numbering(f, out, o)
    &&& kf2_carve_out(f) ==> post_removed_accounted(f, out, o)
}

pub proof fn lemma_has_entry_push(o: Seq<Orig>, x: Orig)
    ensures
        forall|h: int, k: int| has_entry(o, h, k) ==> #[trigger] has_entry(o.push(x), h, k),
        has_entry(o.push(x), x.h, x.k),
{
    assert forall|h: int, k: int| has_entry(o, h, k) implies #[trigger] has_entry(o.push(x), h, k) by {
        let i = choose|i: int| 0 <= i < o.len() && (#[trigger] o[i]).h == h && o[i].k == k;
        assert(o.push(x)[i] == o[i]);
    }
    assert(o.push(x)[o.len() as int] == x);
}

/// under the KF1 carve-out the old-file number the code records is the new-file number
pub proof fn lemma_carved_numbering(f: PatchedFile, out: Seq<LineChange>, o: Seq<Orig>)
    requires
        kf1_carve_out(f),
        post_nothing_else(f, out, o),
        deletion_source_numbering(f, out, o),
    ensures
        post_deletion_new_numbering(f, out, o),
{
    assert forall|i: int| 0 <= i < out.len() && kind(hunk_lines(f, (#[trigger] o[i]).h)[o[i].k]) == Kind::Rem
        implies out[i].line == ct(f.spec_hunks()[o[i].h], o[i].k) by {
        assert(entry_ok(f, out[i], o[i]));
        assert(pure_del_run(hunk_lines(f, o[i].h), o[i].k, o[i].e));
    }
}
