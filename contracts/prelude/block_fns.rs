// Functions of `Block` that the validators call, under contract (V9 severity, V5 content line
// position) or with an assumed contract (content slicing: byte offsets come from tree-sitter).

/// T-ext: positions are 1-based rows/columns of a file held in memory (tree-sitter Points + 1),
/// hence at least 1 and at most isize::MAX.
pub open spec fn pos_wf(p: Position) -> bool {
    1 <= p.line <= isize::MAX && 1 <= p.character <= isize::MAX
}

pub open spec fn block_wf(b: Block) -> bool {
    &&& pos_wf(b.content_position_range.start)
    &&& pos_wf(b.content_position_range.end)
    &&& pos_wf(b.start_tag_position_range@.start)
    &&& pos_wf(b.start_tag_position_range@.end)
}

/// the text of the block's content inside its file (T-ext: `content_bytes_range` are byte offsets
/// delivered by tree-sitter, on char boundaries and inside the file)
pub uninterp spec fn content_of(b: Block, source: Seq<char>) -> Seq<char>;

/// 1-based file line of the i-th content line
pub open spec fn content_line_no(b: Block, i: int) -> int {
    b.content_position_range.start.line + i
}

/// bytes that precede the i-th content line on its file line
pub open spec fn content_col_offset(b: Block, i: int) -> int {
    if i == 0 { b.content_position_range.start.character - 1 } else { 0 }
}

pub uninterp spec fn severity_of_str(s: Seq<char>) -> Option<BlockSeverity>;

/// C11: absent attribute => Error; otherwise the parsed value; unparsable => Err
pub open spec fn severity_spec(b: Block) -> Result<BlockSeverity, anyhow::Error> {
    match attr_view(b.attributes@, "severity"@) {
        None => Ok(BlockSeverity::Error),
        Some(s) => match severity_of_str(s) {
            Some(v) => Ok(v),
            None => Err(anyhow::Error { tag: 0 }),
        },
    }
}

/// rule E1: diagnostic message text is not verified
#[verifier::external_body]
pub fn verif_message() -> String { String::new() }

impl BlockSeverity {
    // strum's `EnumString` derive with `ascii_case_insensitive` (T-ext): a function of the text
    #[verifier::external_body]
    pub fn from_str(s: &str) -> (r: Result<BlockSeverity, anyhow::Error>)
        ensures
            (r matches Ok(v) ==> severity_of_str(s@) == Some(v)),
            (r is Err ==> severity_of_str(s@) is None),
    { unimplemented!() }
}

impl Violation {
//@unit id=Vnew file=src/validators/mod.rs fn=<<impl Violation::new>> ret=r
//@contract
        ensures r.range == range, r.code == code, r.message == message, r.severity == severity, r.data == data,
//@end
}

impl ViolationRange {
//@unit id=VRnew file=src/validators/mod.rs fn=<<impl ViolationRange::new>> ret=r
//@contract
        ensures r.start == start, r.end == end,
//@end
}

impl Position {
//@unit id=Pnew file=src/lib.rs fn=<<impl Position::new>> ret=r
//@contract
        ensures r.line == line, r.character == character,
//@end
}

impl Block {

#[verifier::external_body]
//@unit id=Bcontent file=src/blocks.rs fn=<<impl Block::content>> ret=r
//@contract
        ensures r@ == content_of(*self, source@),
//@end

//@unit id=V5 file=src/blocks.rs fn=<<impl Block::content_line_position>> ret=r
//@contract
        requires
            self.content_position_range.start.character >= 1,
            self.content_position_range.start.line + content_line_index <= usize::MAX,
        ensures
            r.0 == content_line_no(*self, content_line_index as int), // [V5.post.line_is_content_line]
            r.1 == content_col_offset(*self, content_line_index as int), // [V5.post.col_offset]
//@end

//@unit id=V9 file=src/blocks.rs fn=<<impl Block::severity>> ret=r
//@contract
        ensures
            (r matches Ok(v) ==> severity_spec(*self) == Ok::<BlockSeverity, anyhow::Error>(v)), // [V9.post.severity]
            (r is Err <==> severity_spec(*self) is Err), // [V9.post.bad_severity_is_err]
//@dropcall rule=E1 name=context optional=1
//@closure rule=E12 find=<<|s|>> optional=1 params=<<|s: &String|>> ret=<<res: anyhow::Result<BlockSeverity>>>
            ensures
                (res matches Ok(v) ==> severity_of_str(s@) == Some(v)),
                (res is Err <==> severity_of_str(s@) is None),
//@end

} // impl Block
