// Shared specification of the OUTER loops of the four line validators' `validate` (group
// `validate_outer`). Included *inside* `verus! { .. }`, after prelude/domain.rs and prelude/aff_maps.rs.
//
// `step(j, before, after)`: what processing block j of a file does to the list filed under that file
// (`after == before` for a block without the validator's attribute; the inner slice's proven contract,
// with the block's own attribute values / content / path as arguments, otherwise).

/// `l` is a list that the first `n` blocks of a file can leave behind, block by block in file order
pub open spec fn acc_ok(step: spec_fn(int, Seq<Violation>, Seq<Violation>) -> bool, n: int, l: Seq<Violation>) -> bool
    decreases n
{
    if n <= 0 {
        l.len() == 0
    } else {
        exists|prev: Seq<Violation>| acc_ok(step, n - 1, prev) && #[trigger] step(n - 1, prev, l)
    }
}

/// The Ok-postcondition of an outer loop, on MAP VIEWS only (no iteration order in sight, C20): only
/// files of the context are reported, and the list of every file is an accumulation, in block order,
/// of the per-block steps of that file.
pub open spec fn outer_ok(ctx: ValidationContext, m: Map<PathBuf, Vec<Violation>>,
    stepf: spec_fn(PathBuf, FileBlocks) -> spec_fn(int, Seq<Violation>, Seq<Violation>) -> bool) -> bool {
    &&& forall|f: PathBuf| #[trigger] m.contains_key(f) ==> ctx.blocks@.contains_key(f)
    &&& forall|f: PathBuf| #[trigger] ctx.blocks@.contains_key(f) ==>
            acc_ok(stepf(f, ctx.blocks@[f]), ctx.blocks@[f].blocks_with_context@.len() as int, map_get_or_empty(m, f))
}

/// every block below `n` took its step
pub proof fn lemma_acc_step(step: spec_fn(int, Seq<Violation>, Seq<Violation>) -> bool, n: int, l: Seq<Violation>, j: int)
    requires acc_ok(step, n, l), 0 <= j < n,
    ensures exists|a: Seq<Violation>, b: Seq<Violation>| #[trigger] step(j, a, b),
    decreases n,
{
    let prev = choose|prev: Seq<Violation>| acc_ok(step, n - 1, prev) && #[trigger] step(n - 1, prev, l);
    if j == n - 1 {
        assert(step(j, prev, l));
    } else {
        lemma_acc_step(step, n - 1, prev, j);
    }
}

/// one more block: extend the accumulation
pub proof fn lemma_acc_extend(step: spec_fn(int, Seq<Violation>, Seq<Violation>) -> bool, n: int, prev: Seq<Violation>, l: Seq<Violation>)
    requires n >= 0, acc_ok(step, n, prev), step(n, prev, l),
    ensures acc_ok(step, n + 1, l),
{
    assert(acc_ok(step, n + 1 - 1, prev) && step(n + 1 - 1, prev, l));
}

/// the files visited so far (loop invariant of the outer `for` over the map entries, any order)
pub open spec fn visited_ok(ents: Seq<(&PathBuf, &FileBlocks)>, e: int, m: Map<PathBuf, Vec<Violation>>,
    stepf: spec_fn(PathBuf, FileBlocks) -> spec_fn(int, Seq<Violation>, Seq<Violation>) -> bool) -> bool {
    &&& forall|f: PathBuf| #[trigger] m.contains_key(f) ==> exists|e2: int| 0 <= e2 < e && *(#[trigger] ents[e2]).0 == f
    &&& forall|e2: int| 0 <= e2 < e ==> acc_ok(stepf(*(#[trigger] ents[e2]).0, *ents[e2].1),
            ents[e2].1.blocks_with_context@.len() as int, map_get_or_empty(m, *ents[e2].0))
}

/// the file being processed (loop invariant of the block loop): other files' entries are exactly those
/// at the start of this file (`m0`), this file had none, its list is an accumulation of the first `j` blocks
pub open spec fn file_ok(f: PathBuf, fb: FileBlocks, j: int, m0: Map<PathBuf, Vec<Violation>>, m: Map<PathBuf, Vec<Violation>>,
    step: spec_fn(int, Seq<Violation>, Seq<Violation>) -> bool) -> bool {
    &&& !m0.contains_key(f)
    &&& forall|k2: PathBuf| k2 != f ==> (m.contains_key(k2) <==> #[trigger] m0.contains_key(k2))
    &&& forall|k2: PathBuf| k2 != f && #[trigger] m0.contains_key(k2) ==> m[k2] == m0[k2]
    &&& acc_ok(step, j, map_get_or_empty(m, f))
}

/// the frame every inner slice must respect: it only touches the list of its own file
pub open spec fn only_touches(f: PathBuf, old_m: Map<PathBuf, Vec<Violation>>, new_m: Map<PathBuf, Vec<Violation>>) -> bool {
    &&& forall|k2: PathBuf| k2 != f && #[trigger] old_m.contains_key(k2) ==> new_m.contains_key(k2) && new_m[k2] == old_m[k2]
    &&& forall|k2: PathBuf| k2 != f && #[trigger] new_m.contains_key(k2) ==> old_m.contains_key(k2)
}

/// E4: once the entries are exhausted, in whatever order, every file of the context has been visited
pub proof fn lemma_visited_all(ctx: ValidationContext, ents: Seq<(&PathBuf, &FileBlocks)>, m: Map<PathBuf, Vec<Violation>>,
    stepf: spec_fn(PathBuf, FileBlocks) -> spec_fn(int, Seq<Violation>, Seq<Violation>) -> bool)
    requires ref_entries_of(ents, ctx.blocks@), visited_ok(ents, ents.len() as int, m, stepf),
    ensures outer_ok(ctx, m, stepf),
{
    assert forall|f: PathBuf| #[trigger] m.contains_key(f) implies ctx.blocks@.contains_key(f) by {
        let e2 = choose|e2: int| 0 <= e2 < ents.len() && *(#[trigger] ents[e2]).0 == f;
        assert(ctx.blocks@.contains_key(*ents[e2].0));
    }
    assert forall|f: PathBuf| #[trigger] ctx.blocks@.contains_key(f) implies
        acc_ok(stepf(f, ctx.blocks@[f]), ctx.blocks@[f].blocks_with_context@.len() as int, map_get_or_empty(m, f)) by {
        let e2 = choose|e2: int| 0 <= e2 < ents.len() && *(#[trigger] ents[e2]).0 == f;
        assert(ctx.blocks@[*ents[e2].0] == *ents[e2].1);
    }
}

/// end of a file: its entry joins the visited ones; the others are unchanged
pub proof fn lemma_file_done(ents: Seq<(&PathBuf, &FileBlocks)>, e: int, m0: Map<PathBuf, Vec<Violation>>, m: Map<PathBuf, Vec<Violation>>,
    stepf: spec_fn(PathBuf, FileBlocks) -> spec_fn(int, Seq<Violation>, Seq<Violation>) -> bool)
    requires
        0 <= e < ents.len(),
        forall|i: int, j: int| 0 <= i < j < ents.len() ==> *(#[trigger] ents[i]).0 != *(#[trigger] ents[j]).0,
        visited_ok(ents, e, m0, stepf),
        file_ok(*ents[e].0, *ents[e].1, ents[e].1.blocks_with_context@.len() as int, m0, m, stepf(*ents[e].0, *ents[e].1)),
    ensures visited_ok(ents, e + 1, m, stepf),
{
    let f = *ents[e].0;
    assert forall|g: PathBuf| #[trigger] m.contains_key(g) implies exists|e2: int| 0 <= e2 < e + 1 && *(#[trigger] ents[e2]).0 == g by {
        if g == f {
            assert(*ents[e].0 == g);
        } else {
            assert(m0.contains_key(g));
            let e2 = choose|e2: int| 0 <= e2 < e && *(#[trigger] ents[e2]).0 == g;
            assert(0 <= e2 < e + 1 && *ents[e2].0 == g);
        }
    }
    assert forall|e2: int| 0 <= e2 < e + 1 implies acc_ok(stepf(*(#[trigger] ents[e2]).0, *ents[e2].1),
            ents[e2].1.blocks_with_context@.len() as int, map_get_or_empty(m, *ents[e2].0)) by {
        if e2 < e {
            let g = *ents[e2].0;
            assert(g != f);
            assert(m.contains_key(g) <==> m0.contains_key(g));
            if m0.contains_key(g) { assert(m[g] == m0[g]); }
            assert(map_get_or_empty(m, g) == map_get_or_empty(m0, g));
        }
    }
}

/// start of a file: it has no entry yet (each key is visited once)
pub proof fn lemma_file_start(ents: Seq<(&PathBuf, &FileBlocks)>, e: int, m0: Map<PathBuf, Vec<Violation>>,
    stepf: spec_fn(PathBuf, FileBlocks) -> spec_fn(int, Seq<Violation>, Seq<Violation>) -> bool)
    requires
        0 <= e < ents.len(),
        forall|i: int, j: int| 0 <= i < j < ents.len() ==> *(#[trigger] ents[i]).0 != *(#[trigger] ents[j]).0,
        visited_ok(ents, e, m0, stepf),
    ensures file_ok(*ents[e].0, *ents[e].1, 0, m0, m0, stepf(*ents[e].0, *ents[e].1)),
{
    let f = *ents[e].0;
    if m0.contains_key(f) {
        let e2 = choose|e2: int| 0 <= e2 < e && *(#[trigger] ents[e2]).0 == f;
        assert(*ents[e2].0 != *ents[e].0);
    }
}

/// a block handled by the inner slice (or skipped): the file invariant moves from j to j + 1
pub proof fn lemma_file_step(f: PathBuf, fb: FileBlocks, j: int, m0: Map<PathBuf, Vec<Violation>>, m1: Map<PathBuf, Vec<Violation>>,
    m2: Map<PathBuf, Vec<Violation>>, step: spec_fn(int, Seq<Violation>, Seq<Violation>) -> bool)
    requires
        j >= 0,
        file_ok(f, fb, j, m0, m1, step),
        only_touches(f, m1, m2),
        step(j, map_get_or_empty(m1, f), map_get_or_empty(m2, f)),
    ensures file_ok(f, fb, j + 1, m0, m2, step),
{
    lemma_acc_extend(step, j, map_get_or_empty(m1, f), map_get_or_empty(m2, f));
    assert forall|k2: PathBuf| k2 != f implies (m2.contains_key(k2) <==> #[trigger] m0.contains_key(k2)) by {
        if m0.contains_key(k2) { assert(m1.contains_key(k2)); }
        if m2.contains_key(k2) { assert(m1.contains_key(k2)); }
    }
    assert forall|k2: PathBuf| k2 != f && #[trigger] m0.contains_key(k2) implies m2[k2] == m0[k2] by {
        assert(m1.contains_key(k2));
    }
}

/// T-ext (prelude/block_fns.rs `block_wf`): every block of the run has 1-based positions; this is the
/// precondition of the inner slices, so the outer loops require it of the whole context
pub open spec fn ctx_blocks_wf(ctx: ValidationContext) -> bool {
    forall|f: PathBuf, j: int| ctx.blocks@.contains_key(f) && 0 <= j < ctx.blocks@[f].blocks_with_context@.len()
        ==> block_wf((#[trigger] ctx.blocks@[f].blocks_with_context@[j]).block)
}

// ---- C02 frame: the modification flags are not an input of the line validators -----------------------------
/// two file records that differ at most in the modification flags of their blocks
pub open spec fn same_but_flags(fb1: FileBlocks, fb2: FileBlocks) -> bool {
    &&& fb1.file_content@ == fb2.file_content@
    &&& fb1.blocks_with_context@.len() == fb2.blocks_with_context@.len()
    &&& forall|j: int| 0 <= j < fb1.blocks_with_context@.len() ==> (#[trigger] fb1.blocks_with_context@[j]).block == fb2.blocks_with_context@[j].block
}

/// step functions that agree below `n` accumulate the same lists
pub proof fn lemma_acc_congruent(step1: spec_fn(int, Seq<Violation>, Seq<Violation>) -> bool,
    step2: spec_fn(int, Seq<Violation>, Seq<Violation>) -> bool, n: int, l: Seq<Violation>)
    requires forall|j: int, a: Seq<Violation>, b: Seq<Violation>| 0 <= j < n ==> #[trigger] step1(j, a, b) == step2(j, a, b),
    ensures acc_ok(step1, n, l) == acc_ok(step2, n, l),
    decreases n,
{
    if n > 0 {
        assert forall|prev: Seq<Violation>| #[trigger] acc_ok(step1, n - 1, prev) == acc_ok(step2, n - 1, prev) by {
            lemma_acc_congruent(step1, step2, n - 1, prev);
        }
        if acc_ok(step1, n, l) {
            let prev = choose|prev: Seq<Violation>| acc_ok(step1, n - 1, prev) && #[trigger] step1(n - 1, prev, l);
            assert(acc_ok(step2, n - 1, prev) && step2(n - 1, prev, l));
        }
        if acc_ok(step2, n, l) {
            let prev = choose|prev: Seq<Violation>| acc_ok(step2, n - 1, prev) && #[trigger] step2(n - 1, prev, l);
            assert(acc_ok(step1, n - 1, prev) && step1(n - 1, prev, l));
        }
    }
}
