// Group `treewalk`: stand-in for the `tree_sitter` crate (locked version 0.26.3) — single-file Verus
// cannot link crates (DESIGN 2.9, T-ext). Included INSIDE the group's `verus! { .. }` block, after
// prelude/treewalk_tree.rs (the ghost tree `GTree`, paths, `sub`).
//
// ASSUMED contract of the dependency, written from the API documentation of
// tree-sitter-0.26.3/binding_rust/lib.rs (sentences quoted at each function). Ghost model:
//   * a `Tree` denotes a finite ordered tree of `Node` values (`Tree::model`);
//   * a `TreeCursor` is (the tree it walks, the path of its current node from the root);
//     the root is the empty path, "the cursor cannot walk outside" the node it was created at.
// Every function body is `unimplemented!()`: nothing here is executed, the bodies of the verified
// units are the text of /repo and call these signatures.

// `pub struct Point { pub row: usize, pub column: usize }` — public-field struct, pasted from the
// locked crate source. Doc: "A position in a multi-line text document, in terms of rows and
// columns. Rows and columns are zero-based."
//@item file=registry:tree-sitter-0.26.3/binding_rust/lib.rs kind=struct name=Point

/// `tree_sitter::Node<'tree>` — "A single node within a syntax [`Tree`]." Opaque; what the units
/// and the node visitors read from a node are the uninterpreted accessors below.
#[verifier::external_body]
pub struct Node<'tree> { _p: core::marker::PhantomData<&'tree ()> }

impl<'tree> Node<'tree> {
    pub uninterp spec fn spec_start_byte(&self) -> usize;
    pub uninterp spec fn spec_end_byte(&self) -> usize;
    pub uninterp spec fn spec_start_position(&self) -> Point;
    pub uninterp spec fn spec_end_position(&self) -> Point;
    pub uninterp spec fn spec_kind(&self) -> Seq<char>;

    /// "Get the byte offset where this node starts."
    #[verifier::external_body]
    pub fn start_byte(&self) -> (r: usize)
        ensures r == self.spec_start_byte(),
    { unimplemented!() }

    /// "Get the byte offset where this node ends."
    #[verifier::external_body]
    pub fn end_byte(&self) -> (r: usize)
        ensures r == self.spec_end_byte(),
    { unimplemented!() }

    /// "Get the byte range of source code that this node represents."
    #[verifier::external_body]
    pub fn byte_range(&self) -> (r: core::ops::Range<usize>)
        ensures r.start == self.spec_start_byte(), r.end == self.spec_end_byte(),
    { unimplemented!() }

    /// "Get this node's start position in terms of rows and columns."
    #[verifier::external_body]
    pub fn start_position(&self) -> (r: Point)
        ensures r == self.spec_start_position(),
    { unimplemented!() }

    /// "Get this node's end position in terms of rows and columns."
    #[verifier::external_body]
    pub fn end_position(&self) -> (r: Point)
        ensures r == self.spec_end_position(),
    { unimplemented!() }

    /// "Get this node's type as a string."
    #[verifier::external_body]
    pub fn kind(&self) -> (r: &'static str)
        ensures r@ == self.spec_kind(),
    { unimplemented!() }
}

/// T-ext bound on positions: a row counts the line breaks before a position and a column the
/// bytes since the last line break, both of a text that is held in memory, so neither exceeds
/// `isize::MAX` (the size limit of a Rust allocation). This is what makes `row + 1` and
/// `column + 1` (1-based positions) free of overflow.
pub open spec fn node_positions_fit(n: Node<'_>) -> bool {
    &&& n.spec_start_position().row <= isize::MAX
    &&& n.spec_start_position().column <= isize::MAX
    &&& n.spec_end_position().row <= isize::MAX
    &&& n.spec_end_position().column <= isize::MAX
}

/// every node of the tree satisfies the bound
pub open spec fn positions_fit(t: GTree<Node<'_>>) -> bool {
    forall|p: Seq<int>| #[trigger] valid(t, p) ==> node_positions_fit(sub(t, p).node)
}

/// `tree_sitter::Tree` — "A tree that represents the syntactic structure of a source code file."
#[verifier::external_body]
pub struct Tree { _p: u8 }

impl Tree {
    /// the finite ordered tree of nodes this value denotes (root = `Tree::root_node`)
    pub uninterp spec fn model<'a>(&'a self) -> GTree<Node<'a>>;

    /// "Create a new [`TreeCursor`] starting from the root of the tree."
    #[verifier::external_body]
    pub fn walk<'a>(&'a self) -> (r: TreeCursor<'a>)
        ensures
            r.tree() == self.model(),
            r.path() == Seq::<int>::empty(),
    { unimplemented!() }
}

/// `tree_sitter::TreeCursor<'cursor>` — "A stateful object for walking a syntax [`Tree`] efficiently."
#[verifier::external_body]
pub struct TreeCursor<'cursor> { _p: core::marker::PhantomData<&'cursor ()> }

impl<'cursor> TreeCursor<'cursor> {
    /// ghost state: the tree being walked (never changes) ...
    pub uninterp spec fn tree(&self) -> GTree<Node<'cursor>>;
    /// ... and the current node, as the child indices from the root (empty = root)
    pub uninterp spec fn path(&self) -> Seq<int>;

    /// "Get the tree cursor's current [`Node`]."
    #[verifier::external_body]
    pub fn node(&self) -> (r: Node<'cursor>)
        ensures r == sub(self.tree(), self.path()).node,
    { unimplemented!() }

    /// "Move this cursor to the first child of its current node. This returns `true` if the cursor
    /// successfully moved, and returns `false` if there were no children."
    #[verifier::external_body]
    pub fn goto_first_child(&mut self) -> (r: bool)
        ensures
            final(self).tree() == old(self).tree(),
            r == (sub(old(self).tree(), old(self).path()).kids.len() > 0),
            r ==> final(self).path() == old(self).path().push(0),
            !r ==> final(self).path() == old(self).path(),
    { unimplemented!() }

    /// "Move this cursor to the next sibling of its current node. This returns `true` if the cursor
    /// successfully moved, and returns `false` if there was no next sibling node. Note that the
    /// node the cursor was constructed with is considered the root of the cursor, and the cursor
    /// cannot walk outside this node."
    #[verifier::external_body]
    pub fn goto_next_sibling(&mut self) -> (r: bool)
        ensures
            final(self).tree() == old(self).tree(),
            r == has_next_sibling(old(self).tree(), old(self).path()),
            r ==> final(self).path() == next_sibling_path(old(self).path()),
            !r ==> final(self).path() == old(self).path(),
    { unimplemented!() }

    /// "Move this cursor to the parent of its current node. This returns `true` if the cursor
    /// successfully moved, and returns `false` if there was no parent node (the cursor was already
    /// on the root node). Note that the node the cursor was constructed with is considered the
    /// root of the cursor, and the cursor cannot walk outside this node."
    #[verifier::external_body]
    pub fn goto_parent(&mut self) -> (r: bool)
        ensures
            final(self).tree() == old(self).tree(),
            r == (old(self).path().len() > 0),
            r ==> final(self).path() == old(self).path().drop_last(),
            !r ==> final(self).path() == old(self).path(),
    { unimplemented!() }
}

/// `tree_sitter::Parser` — "A stateful object that this is used to produce a [`Tree`] based on some
/// source code."
#[verifier::external_body]
pub struct Parser { _p: u8 }

impl Parser {
    /// The value `parse(text, None)` returns in the parser's current configuration (parsing is a
    /// deterministic function of the configured language and the text). `None`: see `parse`.
    pub uninterp spec fn parse_spec(&self, text: Seq<char>) -> Option<Tree>;

    /// "Parse a slice of UTF8 text. [...] Returns a [`Tree`] if parsing succeeded, or `None` if:
    /// * The parser has not yet had a language assigned with [`Parser::set_language`]".
    /// (0.26.3: `parse` itself takes no timeout / cancellation flag / progress callback; those exist
    /// only on `parse_with_options`, which blockwatch does not call.)
    /// The stand-in takes `&str` for `impl AsRef<[u8]>` (the only instantiation in /repo) and
    /// specifies only the non-incremental call (`old_tree` = `None`).
    /// Assumed of the returned tree: the T-ext position bound `positions_fit`.
    #[verifier::external_body]
    pub fn parse(&mut self, text: &str, old_tree: Option<&Tree>) -> (r: Option<Tree>)
        requires old_tree is None,
        ensures
            r == old(self).parse_spec(text@),
            r matches Some(t) ==> positions_fit(t.model()),
    { unimplemented!() }
}

/// Stand-in for `Box<dyn Fn(&Node, &str) -> Option<String>>` (Verus: "dyn with more that one trait"
/// is not supported, i.e. no `dyn Fn`). The visitor is a parameter of the traversal: `visit_spec`
/// is its answer as a function of the node and the source text (T-dyn: the 23 real visitors are
/// closures that read `node.kind()`, `node.byte_range()`, `node.start_position()` and the text,
/// and capture only `&'static str` node kinds — they are pure).
pub trait NodeVisitorFn {
    spec fn visit_spec(&self, node: Node<'_>, source: Seq<char>) -> Option<String>;

    fn call(&self, node: &Node<'_>, source: &str) -> (r: Option<String>)
        ensures r == self.visit_spec(*node, source@);
}

pub type NodeVisitor = Box<dyn NodeVisitorFn>;
