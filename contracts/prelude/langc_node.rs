// Group `langclosures`, shared material (included inside `verus! { .. }` after prelude/tagnorm_bytes.rs
// and prelude/tagnorm_norm.rs): the stand-in for tree-sitter's `Node` as the per-language visitor
// closures see it, and the str-index shim for `source[node.byte_range()]`.
//
// T-ext: `tree_sitter::Node` is an FFI handle (tree-sitter 0.26.3, src/lib.rs: `pub fn kind(&self) ->
// &'static str`, `pub fn byte_range(&self) -> std::ops::Range<usize>`). A closure uses exactly these two
// accessors; both are UNINTERPRETED here: every proof holds for any node kind and any byte range.

/// Stand-in for `tree_sitter::Node` (opaque).
#[verifier::external_body]
pub struct Node { _opaque: () }

impl Node {
    /// the grammar's name of the node's kind (`Node::kind`)
    pub uninterp spec fn kind_spec(&self) -> Seq<char>;
    /// the node's byte range in the parsed source (`Node::byte_range` = start_byte()..end_byte())
    pub uninterp spec fn byte_range_spec(&self) -> Range<usize>;

    #[verifier::external_body]
    pub fn kind(&self) -> (r: &'static str)
        ensures r@ == self.kind_spec()
    { unimplemented!() }

    #[verifier::external_body]
    pub fn byte_range(&self) -> (r: Range<usize>)
        ensures r == self.byte_range_spec()
    { unimplemented!() }
}

/// the bytes of `source` inside the node's byte range
pub open spec fn node_bytes(node: &Node, source: Seq<char>) -> Seq<u8> {
    utf8(source).subrange(node.byte_range_spec().start as int, node.byte_range_spec().end as int)
}

/// the node's source text (what `&source[node.byte_range()]` denotes)
pub open spec fn node_text(node: &Node, source: Seq<char>) -> Seq<char> {
    decode_utf8(node_bytes(node, source))
}

/// T-ext: a node of the tree that was parsed from `source` covers a byte range INSIDE the source whose
/// two ends are char boundaries (tree-sitter nodes of a UTF-8 parse start and end between characters).
/// This is exactly what `source[node.byte_range()]` needs in order not to panic (C04) - it is the
/// labelled precondition `<unit>.pre.node_range_is_char_boundary_range_of_source` of every closure unit.
pub open spec fn node_in_source(node: &Node, source: Seq<char>) -> bool {
    let r = node.byte_range_spec();
    &&& r.start <= r.end <= utf8(source).len()
    &&& byte_boundary(utf8(source), r.start as int)
    &&& byte_boundary(utf8(source), r.end as int)
}

/// Rule E13 shim for `&s[r]` with a `Range<usize>` VALUE as index (`impl Index<Range<usize>> for str`) -
/// std: "Panics if begin or end does not point to the starting byte offset of a character, if begin > end,
/// or if end > len" (=> preconditions). Same contract as `verif_str_range` of prelude/tagnorm_bytes.rs.
#[verifier::external_body]
pub fn verif_str_index<'a>(s: &'a str, r: Range<usize>) -> (t: &'a str)
    requires
        r.start <= r.end <= utf8(s@).len(), // [std.str_index.pre.in_bounds]
        byte_boundary(utf8(s@), r.start as int), // [std.str_index.pre.char_boundary]
        byte_boundary(utf8(s@), r.end as int), // [std.str_index.pre.char_boundary]
    ensures
        utf8(t@) == utf8(s@).subrange(r.start as int, r.end as int),
{ &s[r] }
