// Group `blocksel`, units B5 (`parse_file`) and B7 (`parse_blocks`): data types pasted from /repo,
// the contracts of B3/B4 (verified in group `intervals`), T-dyn traits, and the E3/E14 shims.
// Included *inside* the group's `verus! { .. }` block, after prelude/blocks_sel.rs.

//@item file=src/lib.rs kind=struct name=Position
//@item file=src/diff_parser.rs kind=struct name=LineChange
//@item file=src/blocks.rs kind=struct name=Block
//@item file=src/blocks.rs kind=struct name=BlockWithContext
//@item file=src/blocks.rs kind=struct name=FileBlocks
//@item file=src/blocks.rs kind=enum name=BlocksFilter

// ---- B3 / B4: specification functions COPIED from contracts/groups/intervals.rs --------------------
// (cross-group modularity: single-file Verus cannot import another group. The two stubs below carry
// exactly the postconditions `B3.post.exists_hit` / `B4.post.exists_hit` and the preconditions that
// group `intervals` proves on the real text of `Block::content_intersects_with_any` /
// `Block::start_tag_intersects_with_any`. They are pulled from that group's template on every run (//@copyfrom, //@stubof).)
//@copyfrom file=groups/intervals.rs from=<<pub open spec fn ranges_wf>> until=<<impl Block {>>

/// B3's postcondition as a function: some line change of the diff meets the block's content region
pub open spec fn content_hit(b: Block, lcs: Seq<LineChange>) -> bool {
    exists|i: int| 0 <= i < lcs.len() && hits_half_open(b.content_position_range.start, b.content_position_range.end, #[trigger] lcs[i])
}

/// B4's postcondition as a function: some line change of the diff meets the start tag span
pub open spec fn tag_hit(b: Block, lcs: Seq<LineChange>) -> bool {
    exists|i: int| 0 <= i < lcs.len() && hits_closed(b.start_tag_position_range@.start, b.start_tag_position_range@.end, #[trigger] lcs[i])
}

pub open spec fn lcs_wf(lcs: Seq<LineChange>) -> bool {
    forall|i: int| 0 <= i < lcs.len() ==> lc_wf(#[trigger] lcs[i])
}

impl Block {
    // contracts of units B3 / B4, pulled mechanically from group `intervals` where they are proved
//@stubof group=intervals unit=B3

//@stubof group=intervals unit=B4

}

// ---- T-dyn: the grammar behind a `LanguageParser` ---------------------------------------------------
/// The guard returned by `RefCell::borrow_mut` on the stand-in `LanguageParser`.
#[verifier::external_body]
pub struct ParserRefMut<'a> { g: std::cell::RefMut<'a, Box<dyn std::any::Any>> }

impl<'a> ParserRefMut<'a> {
    /// ghost: the parser this guard was borrowed from
    pub uninterp spec fn of(&self) -> LanguageParser;

    /// `BlocksParser::parse` through the guard. T-dyn: the result is a function of the parser and of
    /// the source text (`parse_spec`; parsers keep no state between files that influences the
    /// result), `None` = `Err`. T-ext: positions delivered by the block parser are 1-based
    /// (`Position` doc; P2/P3 of group `blockpairs` build them as `line + 1`, `column + 1`), which is
    /// what B3/B4 need (`block_wf`).
    #[verifier::external_body]
    pub fn parse(&self, contents: &str) -> (r: anyhow::Result<Vec<Block>>)
        ensures
            r matches Ok(v) ==> self.of().parse_spec(contents@) == Some(v@) && (forall|i: int| 0 <= i < v@.len() ==> block_wf(#[trigger] v@[i])),
            r is Err ==> self.of().parse_spec(contents@) is None,
    { unimplemented!() }
}

impl LanguageParser {
    /// ghost: `parse` as a function of the source text; `None` = `Err` (e.g. unbalanced tags, C12)
    pub uninterp spec fn parse_spec(&self, src: Seq<char>) -> Option<Seq<Block>>;

    /// `Rc<RefCell<..>>::borrow_mut()` (through `Rc: Deref`). Not modelled: the panic on an already
    /// borrowed cell (the only borrow of a parser is the temporary in `parse_file`).
    #[verifier::external_body]
    pub fn borrow_mut(&self) -> (g: ParserRefMut<'_>)
        ensures g.of() == *self,
    { unimplemented!() }
}

// ---- T-dyn: `FileSystem`, `PathChecker` --------------------------------------------------------------
/// E14: the iterator returned by `FileSystem::walk` (`impl Iterator<Item = anyhow::Result<PathBuf>>`,
/// a return-position `impl Trait` is outside Verus): ghost sequence of the items it will still yield.
#[verifier::external_body]
pub struct WalkIter { it: Box<dyn Iterator<Item = anyhow::Result<PathBuf>>> }

impl WalkIter {
    pub uninterp spec fn pending(&self) -> Seq<anyhow::Result<PathBuf>>;

    /// Rust's definition of `for`: `next()` until `None`
    #[verifier::external_body]
    pub fn next(&mut self) -> (r: Option<anyhow::Result<PathBuf>>)
        ensures
            old(self).pending().len() == 0 ==> r is None && final(self).pending() == old(self).pending(),
            old(self).pending().len() > 0 ==> r == Some(old(self).pending()[0]) && final(self).pending() == old(self).pending().skip(1),
    { self.it.next() }
}

pub trait FileSystem {
    /// ghost: `read_to_string` as a function of the path (`None` = `Err`). T-dyn: the files do not
    /// change during the run.
    spec fn read_spec(&self, path: PathBuf) -> Option<Seq<char>>;
    /// ghost: the items `walk()` yields, in the order it yields them (`Err` items included)
    spec fn walk_spec(&self) -> Seq<anyhow::Result<PathBuf>>;
    /// ghost permission: the run is entitled to read this file. A *precondition* of `read_to_string`,
    /// so every caller has to prove that the file it reads is one it may read (C15/C16: files out of
    /// scope or without a grammar are never even opened).
    spec fn may_read(&self, path: PathBuf) -> bool;

    fn read_to_string(&self, path: &Path) -> (r: anyhow::Result<String>)
        requires
            self.may_read(*path), // [FS.read.pre.only_files_in_scope_with_grammar]
        ensures
            r matches Ok(s) ==> self.read_spec(*path) == Some(s@),
            r is Err ==> self.read_spec(*path) is None,
    ;

    fn walk(&self) -> (r: WalkIter)
        ensures r.pending() == self.walk_spec(),
    ;
}

pub trait PathChecker {
    spec fn allow_spec(&self, path: PathBuf) -> bool;
    spec fn ignore_spec(&self, path: PathBuf) -> bool;

    fn should_allow(&self, path: &Path) -> (r: bool)
        ensures r == self.allow_spec(*path),
    ;

    fn should_ignore(&self, path: &Path) -> (r: bool)
        ensures r == self.ignore_spec(*path),
    ;
}

// ---- E3 shim: `v.into_iter().filter_map(F).collect()` -------------------------------------------------
/// the `Some` items of a sequence, in order
pub open spec fn somes<T>(s: Seq<Option<T>>) -> Seq<T>
    decreases s.len()
{
    if s.len() == 0 {
        Seq::empty()
    } else {
        match s.last() {
            Some(x) => somes(s.drop_last()).push(x),
            None => somes(s.drop_last()),
        }
    }
}

/// Verus rejects iterator adapters, so the chain is a shim whose body is the same std chain. Trusted
/// (std docs of `Vec::into_iter`, `Iterator::filter_map`, `collect`): the closure is called once on
/// every element, in order, and the result is the sequence of the `Some` payloads it returned, in
/// order. Phrased with `call_ensures` of the *verified* closure.
#[verifier::external_body]
pub fn verif_filter_map_collect<T, U, F: FnMut(T) -> Option<U>>(v: Vec<T>, f: F) -> (r: Vec<U>)
    requires
        forall|i: int| 0 <= i < v@.len() ==> call_requires(f, (#[trigger] v@[i],)),
    ensures
        exists|outs: Seq<Option<U>>| outs.len() == v@.len()
            && (forall|i: int| 0 <= i < v@.len() ==> call_ensures(f, (v@[i],), #[trigger] outs[i]))
            && r@ == somes(outs),
{ v.into_iter().filter_map(f).collect() }

// ---- C02: which blocks of a file are listed / validated -----------------------------------------------
/// the selection closure of `parse_file` as a function (C02: "exactly those whose start tag or
/// content the diff touches"; with path arguments — filter `All` — every block)
pub open spec fn select_block(b: Block, lcs: Seq<LineChange>, filter: BlocksFilter) -> Option<BlockWithContext> {
    if filter is All || content_hit(b, lcs) || tag_hit(b, lcs) {
        Some(BlockWithContext { block: b, _is_start_tag_modified: tag_hit(b, lcs), is_content_modified: content_hit(b, lcs) })
    } else {
        None
    }
}

pub open spec fn select_blocks(blocks: Seq<Block>, lcs: Seq<LineChange>, filter: BlocksFilter) -> Seq<BlockWithContext> {
    somes(Seq::new(blocks.len(), |i: int| select_block(blocks[i], lcs, filter)))
}

/// What `parse_file` does with one file, as a function of its inputs.
pub enum FileOutcome {
    /// `Err(..)`: the file could not be read or its tags do not balance (C12)
    Fails,
    /// `Ok(None)`: no grammar for this file name (C16); the file is not read
    Skipped,
    /// `Ok(Some(FileBlocks { file_content, blocks_with_context }))`
    Parsed { content: Seq<char>, blocks: Seq<BlockWithContext> },
}

pub open spec fn parse_file_spec<FS: FileSystem>(path: PathBuf, lcs: Seq<LineChange>, filter: BlocksFilter, fs: &FS,
    parsers: Map<OsString, LanguageParser>, extra: Map<OsString, OsString>) -> FileOutcome {
    match grammar_for(path, parsers, extra) {
        None => FileOutcome::Skipped,
        Some(g) => match fs.read_spec(path) {
            None => FileOutcome::Fails,
            Some(src) => match g.parse_spec(src) {
                None => FileOutcome::Fails,
                Some(blocks) => FileOutcome::Parsed { content: src, blocks: select_blocks(blocks, lcs, filter) },
            },
        },
    }
}

pub open spec fn outcome_of(r: anyhow::Result<Option<FileBlocks>>) -> FileOutcome {
    match r {
        Err(_) => FileOutcome::Fails,
        Ok(None) => FileOutcome::Skipped,
        Ok(Some(fb)) => FileOutcome::Parsed { content: fb.file_content@, blocks: fb.blocks_with_context@ },
    }
}

// ---- rule E4: `for (k, v) in M` over a hash map (consuming) --------------------------------------------
// Rust's definition of `for`: `M.into_iter()` + `next()` until `None`. vstd has no specification for
// `hash_map::IntoIter`. Trusted, from the std doc of `HashMap::into_iter` ("an iterator visiting all
// key-value pairs in arbitrary order"): the pairs form a duplicate-free sequence, in ARBITRARY
// order, whose map view is `M@` (same statement as `entries_raw` of prelude/orch_maps.rs).
pub open spec fn blocks_entries<K, V>(ents: Seq<(K, V)>, m: Map<K, V>) -> bool {
    &&& forall|i: int| 0 <= i < ents.len() ==> m.contains_key((#[trigger] ents[i]).0) && m[ents[i].0] == ents[i].1
    &&& forall|i: int, j: int| 0 <= i < j < ents.len() ==> (#[trigger] ents[i]).0 != (#[trigger] ents[j]).0
    &&& forall|k: K| m.contains_key(k) ==> exists|i: int| 0 <= i < ents.len() && (#[trigger] ents[i]).0 == k
}

#[verifier::external_body]
#[verifier::reject_recursive_types(K)]
#[verifier::reject_recursive_types(V)]
pub struct EntriesIter<K, V> { it: std::collections::hash_map::IntoIter<K, V> }

impl<K, V> EntriesIter<K, V> {
    /// ghost: the pairs `next` will still yield
    pub uninterp spec fn pending(&self) -> Seq<(K, V)>;

    #[verifier::external_body]
    pub fn next(&mut self) -> (r: Option<(K, V)>)
        ensures
            old(self).pending().len() == 0 ==> r is None && final(self).pending() == old(self).pending(),
            old(self).pending().len() > 0 ==> r == Some(old(self).pending()[0]) && final(self).pending() == old(self).pending().skip(1),
    { self.it.next() }
}

#[verifier::external_body]
pub fn verif_map_into_iter<K, V>(m: HashMap<K, V>) -> (r: EntriesIter<K, V>)
    ensures
        vstd::std_specs::hash::obeys_key_model::<K>() ==> blocks_entries(r.pending(), m@),
{ EntriesIter { it: m.into_iter() } }

// T-std: PathBuf is compared by its contents; a clone is equal to the original.
pub assume_specification[ <PathBuf as Clone>::clone ](p: &PathBuf) -> (r: PathBuf)
    ensures r == *p;

/// E13 shim: `Option<Vec<T>>::as_deref()` (vstd has no specification; generic over `Deref`). std doc:
/// "Converts from Option<T> (or &Option<T>) to Option<&T::Target>", for `Vec<T>` the target is the
/// slice of the same elements.
#[verifier::external_body]
pub fn verif_opt_vec_as_deref<T>(o: &Option<Vec<T>>) -> (r: Option<&[T]>)
    ensures
        o is None ==> r is None,
        o matches Some(v) ==> (r matches Some(s) && s@ == v@),
{ o.as_deref() }
