    #[verifier::external_body]
    pub struct Value { _opaque: u8 }
    #[verifier::external_body]
    pub struct Error { _opaque: u8 }
    pub type Result<T> = core::result::Result<T, Error>;
