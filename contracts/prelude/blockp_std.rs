// T-std additions of group `blockpairs`: `<[T]>::sort_by`, structure of `RangeInclusive`,
// spec-level `Rc::new`.

// T-std `<[T]>::sort_by` — std doc: "Sorts the slice in ascending order with a comparison function,
// preserving initial order of equal elements. [...] May panic if the implementation of `compare`
// does not implement a total order", where total order means: exactly one of a<b, a==b, a>b
// (with cmp(b,a) the reverse of cmp(a,b)) and `<`, `==`, `>` transitive. The total-order demand
// is a *precondition* here (C04: no panic), so the caller must prove it for its closure.
pub open spec fn ord_reverse(o: Ordering) -> Ordering {
    match o { Ordering::Less => Ordering::Greater, Ordering::Equal => Ordering::Equal, Ordering::Greater => Ordering::Less }
}
pub open spec fn cmp_ret<T, F: FnMut(&T, &T) -> Ordering>(f: F, a: &T, b: &T, o: Ordering) -> bool {
    call_ensures(f, (a, b), o)
}

pub assume_specification<T, F: FnMut(&T, &T) -> Ordering>[ <[T]>::sort_by ](s: &mut [T], f: F)
    requires
        forall|a: &T, b: &T| #[trigger] call_requires(f, (a, b)), // [std.sort_by.pre.callable]
        forall|a: &T, b: &T, o1: Ordering, o2: Ordering| #![trigger cmp_ret(f, a, b, o1), cmp_ret(f, b, a, o2)] // [std.sort_by.pre.antisymmetric]
            cmp_ret(f, a, b, o1) && cmp_ret(f, b, a, o2) ==> o2 == ord_reverse(o1),
        forall|a: &T, b: &T, c: &T, o1: Ordering, o2: Ordering, o3: Ordering| #![trigger cmp_ret(f, a, b, o1), cmp_ret(f, b, c, o2), cmp_ret(f, a, c, o3)] // [std.sort_by.pre.transitive]
            cmp_ret(f, a, b, o1) && cmp_ret(f, b, c, o2) && cmp_ret(f, a, c, o3) && o1 == o2 ==> o3 == o1,
    ensures
        final(s)@.len() == old(s)@.len(),
        final(s)@.to_multiset() == old(s)@.to_multiset(), // permutation
        forall|i: int, j: int| #![trigger final(s)@[i], final(s)@[j]] 0 <= i < j < final(s)@.len() ==> // sorted w.r.t. the comparator
            exists|o: Ordering| #[trigger] cmp_ret(f, &final(s)@[i], &final(s)@[j], o) && o != Ordering::Greater,
;


// `RangeInclusive<T>` is the struct { start, end, exhausted } (core::ops::range), and vstd's view of
// it has exactly these three fields: a value is determined by its view. (vstd gives the view but
// no extensionality; needed to say that a computed range *equals* a specified one.)
pub broadcast axiom fn axiom_range_inclusive_ext<T>(a: RangeInclusive<T>, b: RangeInclusive<T>)
    ensures (#[trigger] a@ == #[trigger] b@) ==> a == b;

/// spec-level `a..=b`
pub open spec fn range_incl_spec<T>(a: T, b: T) -> RangeInclusive<T> {
    choose|r: RangeInclusive<T>| (#[trigger] r@).start == a && r@.end == b && !r@.exhausted
}

/// spec-level `Rc::new(c)` (Verus erases `Rc` in specifications: an Rc *is* its pointee)
pub open spec fn rc_val<T>(r: Rc<T>) -> T { *r }
pub open spec fn rc_of<T>(c: T) -> Rc<T> { choose|r: Rc<T>| #[trigger] rc_val(r) == c }
