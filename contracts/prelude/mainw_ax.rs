// Group `mainwire`: std types without a vstd specification and the axioms about them. A module of its
// own, *outside* the group's `verus! { }` block, so that the group can `broadcast use` the axioms at
// module level (a function-level `broadcast use` does not reach loop bodies, and a module cannot
// broadcast its own axioms). Same statements as prelude/blocks_ax.rs / contracts/groups/flags.rs, which
// cannot be included here because they also declare `PathBuf` (declared by prelude/orch_model.rs).
mod mainw_ax {
    use vstd::prelude::*;
    use std::ffi::OsString;
    verus! {
    #[verifier::external_type_specification]
    #[verifier::external_body]
    pub struct ExOsString(OsString);

    #[verifier::external_type_specification]
    #[verifier::external_body]
    pub struct ExPath(std::path::Path);

    /// T-std: `OsString`'s `Hash`/`Eq` are deterministic and agree with each other (std doc of `Hash`:
    /// "k1 == k2 -> hash(k1) == hash(k2)"; an `OsString` hashes and compares its bytes). vstd needs this
    /// to give `HashMap<OsString, _>` its `Map` view.
    pub broadcast axiom fn axiom_mainw_osstring_key_model()
        ensures #[trigger] vstd::std_specs::hash::obeys_key_model::<OsString>();

    /// T-std: `&OsString` hashes and compares like the `OsString` it points to, deterministically.
    pub broadcast axiom fn axiom_mainw_osstring_ref_key_model<'a>()
        ensures #[trigger] vstd::std_specs::hash::obeys_key_model::<&'a OsString>();

    /// T-std: `HashSet<&OsString>::contains(&OsString)` goes through `&OsString: Borrow<OsString>`, for
    /// which vstd leaves "contains the borrowed key" uninterpreted. A reference borrows as its referent, so
    /// this is plain membership (references are transparent in specifications).
    pub broadcast axiom fn axiom_mainw_contains_ref_osstring<'a>(s: Set<&'a OsString>, q: &OsString)
        ensures #[trigger] vstd::std_specs::hash::set_contains_borrowed_key::<&'a OsString, OsString>(s, q) <==> s.contains(q);

    /// `OsString::from(&str)` / `OsString::from(&String)`: a function of the text
    pub uninterp spec fn osstring_of(s: Seq<char>) -> OsString;

    pub broadcast group group_mainw_ax {
        axiom_mainw_osstring_key_model,
        axiom_mainw_osstring_ref_key_model,
        axiom_mainw_contains_ref_osstring,
    }
    }
}
use mainw_ax::*;
