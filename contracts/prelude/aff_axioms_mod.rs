// T-std axioms of group `affects` / `validate_outer`, in a module of their own so that the main module
// can `broadcast use` them at module level (see prelude/tstr_mod.rs for why). Included OUTSIDE `verus!`.
mod affx {
    use vstd::prelude::*;
    use std::path::PathBuf;
    verus! {
    /// T-std: `PathBuf`'s `Hash`/`Eq` are deterministic and agree with each other (std doc of `Hash`:
    /// "k1 == k2 -> hash(k1) == hash(k2)"; `PathBuf` hashes and compares its components). vstd needs this
    /// to give `HashMap<PathBuf, _>` its `Map` view. Same axiom as prelude/orch_model.rs.
    pub broadcast axiom fn axiom_aff_pathbuf_key_model()
        ensures #[trigger] vstd::std_specs::hash::obeys_key_model::<PathBuf>();

    /// T-std: the key of `named_modified_blocks` is the tuple `(PathBuf, String)`. std implements `Hash`,
    /// `PartialEq`, `Eq` for tuples component-wise ("impl<T: Hash, U: Hash> Hash for (T, U)": hashes the
    /// components in order; equality is component-wise), so the tuple obeys the key model whenever both
    /// components do (PathBuf: axiom above; String: prelude/tstr_mod.rs `axiom_string_key_model`).
    pub broadcast axiom fn axiom_aff_path_string_key_model()
        ensures #[trigger] vstd::std_specs::hash::obeys_key_model::<(PathBuf, String)>();

    /// T-std: a `String` *is* its contents: two Strings with the same chars are the same key / value
    /// (`impl PartialEq for String` compares the bytes). Counterpart of `axiom_str_view_injective` for
    /// `&str` in prelude/tstr_mod.rs; needed because `name.to_string()` (insertion) and
    /// `affected_block_name.clone()` (lookup) are different `String` values with equal views.
    pub broadcast axiom fn axiom_aff_string_view_injective(a: String, b: String)
        ensures (#[trigger] a@ == #[trigger] b@) ==> a == b;

    pub broadcast group group_affx {
        axiom_aff_pathbuf_key_model,
        axiom_aff_path_string_key_model,
        axiom_aff_string_view_injective,
    }
    }
}
