// T-str / T-std axioms and uninterpreted functions, in a module of their own so that the main
// module can `broadcast use` them at module level (a function-level `broadcast use` is not visible
// inside loop bodies, and a module cannot broadcast axioms it defines itself).
mod tstr {
    use vstd::prelude::*;
    use vstd::string::*;
    verus! {
    /// `str::trim`: the input without leading and trailing Unicode whitespace.
    pub uninterp spec fn trim_spec(s: Seq<char>) -> Seq<char>;
    /// number of *bytes* `str::trim` removes at the front (column arithmetic)
    pub uninterp spec fn trim_lead(s: Seq<char>) -> nat;
    /// ... and the front offsets of `trim_start` / `trim_ascii`: functions of their own (on an all-whitespace
    /// string `trim` returns the empty slice at offset 0, `trim_start` and `trim_ascii` at offset len; found by
    /// the conformance harness T.strings)
    pub uninterp spec fn trim_start_lead(s: Seq<char>) -> nat;
    pub uninterp spec fn trim_ascii_lead(s: Seq<char>) -> nat;
    /// UTF-8 length in bytes of a string view
    pub uninterp spec fn blen(s: Seq<char>) -> nat;
    /// `str::lines`: split at '\n', one trailing '\r' removed per line, no final empty line.
    pub uninterp spec fn lines_of(s: Seq<char>) -> Seq<Seq<char>>;
    /// byte offset of sub-slice `a` inside `b` when `a` was obtained from `b` by trimming/slicing
    pub uninterp spec fn str_offset_in(a: &str, b: &str) -> nat;
    // Neighbouring std functions get their *own* uninterpreted meaning, so that code which calls
    // one of them where the property needs `trim` does not verify by accident.
    pub uninterp spec fn trim_start_spec(s: Seq<char>) -> Seq<char>;
    pub uninterp spec fn trim_end_spec(s: Seq<char>) -> Seq<char>;
    /// `str::trim_ascii` removes ASCII whitespace only: a different function from `trim`
    pub uninterp spec fn trim_ascii_spec(s: Seq<char>) -> Seq<char>;
    /// `usize::from_str`: a function of the text (optional '+', ASCII digits, fits usize)
    pub uninterp spec fn parse_usize_spec(s: Seq<char>) -> Option<usize>;
    /// attribute lookup by contents in a HashMap<String, String>
    pub uninterp spec fn attr(m: Map<String, String>, k: Seq<char>) -> Option<String>;

    /// std doc of `lines`: "An empty string returns an empty iterator".
    pub broadcast axiom fn axiom_lines_of_empty(s: Seq<char>)
        requires s.len() == 0
        ensures (#[trigger] lines_of(s)).len() == 0;

    /// `str`'s Hash/Eq are functions of the contents: &str obeys the key model ...
    pub broadcast axiom fn axiom_str_key_model()
        ensures #[trigger] vstd::std_specs::hash::obeys_key_model::<&str>();
    /// ... and two &str with equal contents are the same key.
    pub broadcast axiom fn axiom_str_view_injective(a: &str, b: &str)
        ensures (#[trigger] a@ == #[trigger] b@) ==> a == b;
    /// String's Hash/Eq are functions of its contents
    pub broadcast axiom fn axiom_string_key_model()
        ensures #[trigger] vstd::std_specs::hash::obeys_key_model::<String>();

    /// vstd's `str::len` is `spec_bytes().len()`; `blen` is the same number as a function of the view;
    /// a str is at most isize::MAX bytes long (std doc of slices).
    pub broadcast axiom fn axiom_blen(s: &str)
        ensures #[trigger] s.spec_bytes().len() == blen(s@), s.spec_bytes().len() <= isize::MAX;

    // vstd specifies `get`/`contains_key` with a borrowed key through the uninterpreted predicates
    // `contains_borrowed_key` / `maps_borrowed_key_to_value`; for Key = String, Q = str they are
    // tied to the string contents here (`String: Borrow<str>` hashes and compares like the str).
    pub broadcast axiom fn axiom_attr_contains(m: Map<String, String>, k: &str)
        ensures
            #[trigger] vstd::std_specs::hash::contains_borrowed_key::<String, String, str>(m, k) <==> attr(m, k@) is Some;
    pub broadcast axiom fn axiom_attr_maps(m: Map<String, String>, k: &str, v: String)
        ensures
            #[trigger] vstd::std_specs::hash::maps_borrowed_key_to_value::<String, String, str>(m, k, v) <==> attr(m, k@) == Some(v);

    pub broadcast group group_tstr {
        axiom_lines_of_empty,
        axiom_str_key_model,
        axiom_str_view_injective,
        axiom_string_key_model,
        axiom_blen,
        axiom_attr_contains,
        axiom_attr_maps,
    }
    }
}
use tstr::*;
