// T-str additions for P2 (`BlockStart::source_position_at`). Needs prelude/tstr_mod.rs (blen, lines_of;
// included before `verus!`). prelude/strings.rs is NOT needed (its module-level `broadcast use` slows
// the pairing lemmas down).
//
// A text is viewed as Seq<char> (vstd's view of str); std's slicing and `rfind` speak in *byte
// offsets* of the UTF-8 encoding. The link between the two is kept abstract (uninterpreted
// functions) and described by the axioms below, each a general fact about UTF-8 / std, none
// specific to block tags.

/// `s.is_char_boundary(n)`
pub uninterp spec fn char_boundary(t: Seq<char>, n: nat) -> bool;
/// view of `&s[..n]` (meaningful when n is a char boundary <= blen)
pub uninterp spec fn prefix_at(t: Seq<char>, n: nat) -> Seq<char>;
/// the char whose encoding starts at byte offset n (meaningful when n is a char boundary < blen)
pub uninterp spec fn char_at(t: Seq<char>, n: nat) -> char;

/// `char::len_utf8`
pub open spec fn char_len(c: char) -> nat {
    if (c as u32) < 0x80 { 1 } else if (c as u32) < 0x800 { 2 } else if (c as u32) < 0x10000 { 3 } else { 4 }
}

/// number of '\n' in a text
pub open spec fn newline_count(t: Seq<char>) -> nat
    decreases t.len()
{
    if t.len() == 0 { 0 } else { newline_count(t.drop_last()) + if t.last() == '\n' { 1nat } else { 0nat } }
}

/// `s.rfind(c)`: byte offset of the last occurrence of `c`
pub uninterp spec fn rfind_char_spec(t: Seq<char>, c: char) -> Option<usize>;

/// number of '\n' among the first p bytes of t
pub open spec fn newlines_before(t: Seq<char>, p: nat) -> nat { newline_count(prefix_at(t, p)) }
/// byte offset of the last '\n' among the first p bytes of t
pub open spec fn last_newline_before(t: Seq<char>, p: nat) -> Option<usize> { rfind_char_spec(prefix_at(t, p), '\n') }

/// UTF-8: the prefix that ends after the char starting at boundary n is the prefix at n plus
/// that char; its end is a boundary again.
pub broadcast axiom fn axiom_prefix_step(t: Seq<char>, n: nat)
    requires char_boundary(t, n), n < blen(t),
    ensures
        char_boundary(t, n + char_len(char_at(t, n))),
        n + char_len(char_at(t, n)) <= blen(t),
        #[trigger] prefix_at(t, n + char_len(char_at(t, n))) == prefix_at(t, n).push(char_at(t, n));

/// UTF-8: every char takes at least one byte.
pub broadcast axiom fn axiom_chars_le_bytes(t: Seq<char>)
    ensures t.len() <= #[trigger] blen(t);

/// std doc of `str::lines`: "Lines are split at line endings that are either newlines (\n) or
/// sequences of a carriage return followed by a line feed (\r\n). [...] The final line ending is
/// optional. A string that ends with a final line ending will return the same lines as an
/// otherwise identical string without a final line ending." Hence: one line per '\n', plus one
/// for a non-empty remainder after the last '\n'.
pub broadcast axiom fn axiom_lines_count(t: Seq<char>)
    ensures (#[trigger] lines_of(t)).len() == newline_count(t) + if t.len() > 0 && t.last() != '\n' { 1nat } else { 0nat };

/// std doc of `str::rfind`: "Returns the byte index for the first character of the last match of
/// the pattern in this string slice. Returns None if the pattern doesn't match."
pub broadcast axiom fn axiom_rfind_char(t: Seq<char>, c: char)
    ensures
        (#[trigger] rfind_char_spec(t, c)) is None <==> !t.contains(c),
        rfind_char_spec(t, c) matches Some(q) ==> q + char_len(c) <= blen(t);

/// `&s[..n]` — std: panics if n is past the end or not on a char boundary (=> preconditions).
#[verifier::external_body]
pub fn verif_str_prefix<'a>(s: &'a str, n: usize) -> (r: &'a str)
    requires
        n <= blen(s@), // [std.str_index.pre.in_bounds]
        char_boundary(s@, n as nat), // [std.str_index.pre.char_boundary]
    ensures
        r@ == prefix_at(s@, n as nat),
        blen(r@) == n,
{ &s[..n] }

/// `s.lines().count()`
#[verifier::external_body]
pub fn verif_lines_count(s: &str) -> (r: usize)
    ensures r == lines_of(s@).len()
{ s.lines().count() }

/// `s.find(c)`: byte offset of the FIRST occurrence — its own uninterpreted function, so that code
/// which calls `find` where the property needs the last newline does not verify by accident.
pub uninterp spec fn find_char_spec(t: Seq<char>, c: char) -> Option<usize>;

#[verifier::external_body]
pub fn verif_find_char(s: &str, c: char) -> (r: Option<usize>)
    ensures r == find_char_spec(s@, c)
{ s.find(c) }

/// `s.rfind(c)` for a `char` pattern (E13: `rfind` is Pattern-generic)
#[verifier::external_body]
pub fn verif_rfind_char(s: &str, c: char) -> (r: Option<usize>)
    ensures r == rfind_char_spec(s@, c)
{ s.rfind(c) }

/// no '\n' counted <=> no '\n' contained (proved, not assumed)
pub proof fn lemma_newline_count_zero(t: Seq<char>)
    ensures newline_count(t) == 0 <==> !t.contains('\n'),
    decreases t.len()
{
    if t.len() > 0 {
        lemma_newline_count_zero(t.drop_last());
        if t.last() == '\n' {
            assert(t[t.len() - 1] == '\n');
        } else if t.contains('\n') {
            let i = choose|i: int| 0 <= i < t.len() && t[i] == '\n';
            assert(t.drop_last()[i] == '\n');
        } else if t.drop_last().contains('\n') {
            let i = choose|i: int| 0 <= i < t.drop_last().len() && t.drop_last()[i] == '\n';
            assert(t[i] == '\n');
        }
    }
}

pub proof fn lemma_newline_count_le_len(t: Seq<char>)
    ensures newline_count(t) <= t.len(),
    decreases t.len()
{
    if t.len() > 0 { lemma_newline_count_le_len(t.drop_last()); }
}
