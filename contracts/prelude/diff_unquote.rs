// Specification and stand-ins for Dq `unquote_git_path` (src/diff_parser.rs). Included inside verus!.
//
// git writes a path with "unusual" bytes in double quotes with C-style escapes (git-config(1),
// core.quotePath: "... by enclosing the pathname in double-quotes and escaping those characters with
// backslashes in the same way C escapes control characters (e.g. \t for TAB, \n for LF, \\ for
// backslash) or bytes with values larger than 0x80 (e.g. octal \302\265 ...)"; quote.c
// `unquote_c_style`: escapes a b f n r t v, `\\`, `\"`, and exactly three octal digits \NNN with
// N1 in 0..3).

/// UTF-8 encoding of a string view (uninterpreted; std: a `str` IS its UTF-8 bytes)
pub uninterp spec fn utf8_bytes(s: Seq<char>) -> Seq<u8>;
/// the path is wrapped in double quotes: `path.strip_prefix('"').and_then(|p| p.strip_suffix('"'))`
pub open spec fn strip_quotes_spec(s: Seq<char>) -> Option<Seq<char>> {
    if s.len() >= 2 && s[0] == '"' && s.last() == '"' { Some(s.subrange(1, s.len() - 1)) } else { None }
}

/// E13 shim: the identical std expression (two Pattern-generic calls and a closure in between)
#[verifier::external_body]
pub fn verif_strip_quotes<'a>(path: &'a str) -> (r: Option<&'a str>)
    ensures
        r is Some <==> strip_quotes_spec(path@) is Some,
        r matches Some(q) ==> strip_quotes_spec(path@) == Some(q@),
{ path.strip_prefix('"').and_then(|path| path.strip_suffix('"')) }

/// the single-letter C escapes
pub open spec fn esc_byte(c: u8) -> Option<u8> {
    if c == 0x61 { Some(0x07u8) }        // \a
    else if c == 0x62 { Some(0x08u8) }   // \b
    else if c == 0x74 { Some(0x09u8) }   // \t
    else if c == 0x6e { Some(0x0au8) }   // \n
    else if c == 0x76 { Some(0x0bu8) }   // \v
    else if c == 0x66 { Some(0x0cu8) }   // \f
    else if c == 0x72 { Some(0x0du8) }   // \r
    else { None }
}

/// one more octal digit read at position idx of p (a byte that is not an octal digit, or the end
/// of the input, leaves the value as it is — see `c_unquote_spec`)
pub open spec fn oct_step(v: int, p: Seq<u8>, idx: int) -> int {
    if idx < p.len() && 0x30 <= p[idx] <= 0x37 { v * 8 + (p[idx] - 0x30) } else { v }
}
/// value after reading j (0, 1, 2) further octal digits from p
pub open spec fn oct_after(v0: int, p: Seq<u8>, j: int) -> int {
    if j <= 0 { v0 } else if j == 1 { oct_step(v0, p, 0) } else { oct_step(oct_step(v0, p, 0), p, 1) }
}
pub open spec fn min_int(a: int, b: int) -> int { if a <= b { a } else { b } }

/// C-unquoting of the bytes between the quotes.
/// On every sequence git's `unquote_c_style` accepts (`git_quoted_wf`) this is git's rule. git
/// REJECTS the rest; blockwatch reads on, and for those inputs — which git never writes — the three
/// lenient branches are taken over from the code, they are not part of the property: an unknown
/// escaped byte stands for itself, a byte that is not an octal digit where the 2nd/3rd digit is
/// expected is skipped, a trailing lone backslash stands for itself.
pub open spec fn c_unquote_spec(s: Seq<u8>) -> Seq<u8>
    decreases s.len()
{
    if s.len() == 0 {
        Seq::<u8>::empty()
    } else if s[0] != 0x5c {
        seq![s[0]] + c_unquote_spec(s.skip(1))
    } else if s.len() == 1 {
        seq![0x5cu8]
    } else if esc_byte(s[1]) is Some {
        seq![esc_byte(s[1]).unwrap()] + c_unquote_spec(s.skip(2))
    } else if 0x30 <= s[1] <= 0x33 {
        seq![oct_after(s[1] - 0x30, s.skip(2), 2) as u8] + c_unquote_spec(s.skip(2).skip(min_int(2, s.len() - 2)))
    } else {
        seq![s[1]] + c_unquote_spec(s.skip(2))
    }
}

/// what git's `unquote_c_style` accepts
pub open spec fn git_quoted_wf(s: Seq<u8>) -> bool
    decreases s.len()
{
    if s.len() == 0 { true }
    else if s[0] != 0x5c { s[0] != 0x22 && git_quoted_wf(s.skip(1)) }
    else if s.len() == 1 { false }
    else if esc_byte(s[1]) is Some || s[1] == 0x5c || s[1] == 0x22 { git_quoted_wf(s.skip(2)) }
    else if 0x30 <= s[1] <= 0x33 {
        s.len() >= 4 && 0x30 <= s[2] <= 0x37 && 0x30 <= s[3] <= 0x37 && git_quoted_wf(s.skip(4))
    } else { false }
}

/// the path as git meant it: its BYTES (a file name need not be valid UTF-8; git writes such bytes as
/// octal escapes). C15: "diff paths are resolved exactly as git wrote them".
pub open spec fn unquote_bytes_spec(path: Seq<char>) -> Seq<u8> {
    match strip_quotes_spec(path) {
        Some(inner) => c_unquote_spec(utf8_bytes(inner)),
        None => utf8_bytes(path),
    }
}

// ---- stand-ins ----------------------------------------------------------------------------------
/// E14/E6: `str::bytes()` + `next()` until `None`; ghost `pending` = the bytes still to come
#[verifier::external_body]
pub struct DiffBytes<'a> { it: std::str::Bytes<'a> }

impl<'a> DiffBytes<'a> {
    pub uninterp spec fn pending(&self) -> Seq<u8>;

    #[verifier::external_body]
    pub fn next(&mut self) -> (r: Option<u8>)
        ensures
            old(self).pending().len() == 0 ==> r is None && final(self).pending() == old(self).pending(),
            old(self).pending().len() > 0 ==> r == Some(old(self).pending()[0]) && final(self).pending() == old(self).pending().skip(1),
    { self.it.next() }
}

/// `s.bytes()`: "An iterator over the bytes of a string slice" (std)
#[verifier::external_body]
pub fn verif_str_bytes<'a>(s: &'a str) -> (r: DiffBytes<'a>)
    ensures r.pending() == utf8_bytes(s@),
{ DiffBytes { it: s.bytes() } }

/// `s.as_bytes().to_vec()`: the UTF-8 bytes of the text (std: a `str` IS its UTF-8 bytes)
#[verifier::external_body]
pub fn verif_str_to_byte_vec(s: &str) -> (r: Vec<u8>)
    ensures r@ == utf8_bytes(s@),
{ s.as_bytes().to_vec() }

// ---- proof helpers (verified) -------------------------------------------------------------------
pub proof fn lemma_push_concat(a: Seq<u8>, x: u8, r: Seq<u8>)
    ensures a + (seq![x] + r) == a.push(x) + r,
{
    assert(a + (seq![x] + r) =~= a.push(x) + r);
}

/// sanity of the specification: a quoted path without backslashes is its inner text
pub proof fn lemma_unquote_no_backslash(b: Seq<u8>)
    requires forall|i: int| 0 <= i < b.len() ==> #[trigger] b[i] != 0x5c,
    ensures c_unquote_spec(b) == b,
    decreases b.len()
{
    if b.len() > 0 {
        assert forall|i: int| 0 <= i < b.skip(1).len() implies #[trigger] b.skip(1)[i] != 0x5c by {
            assert(b.skip(1)[i] == b[i + 1]);
        }
        lemma_unquote_no_backslash(b.skip(1));
        assert(seq![b[0]] + b.skip(1) =~= b);
    } else {
        assert(b =~= Seq::<u8>::empty());
    }
}

pub proof fn lemma_unquote_plain(path: Seq<char>)
    requires
        strip_quotes_spec(path) is Some,
        forall|i: int| 0 <= i < utf8_bytes(strip_quotes_spec(path).unwrap()).len() ==> #[trigger] utf8_bytes(strip_quotes_spec(path).unwrap())[i] != 0x5c,
    ensures
        unquote_bytes_spec(path) == utf8_bytes(strip_quotes_spec(path).unwrap()),
{
    lemma_unquote_no_backslash(utf8_bytes(strip_quotes_spec(path).unwrap()));
}

/// sanity of the specification: `\303\251` is the two bytes C3 A9 (é)
pub proof fn lemma_unquote_octal_example()
    ensures c_unquote_spec(seq![0x5cu8, 0x33, 0x30, 0x33, 0x5c, 0x32, 0x35, 0x31]) =~= seq![0xc3u8, 0xa9u8],
{
    let s = seq![0x5cu8, 0x33, 0x30, 0x33, 0x5c, 0x32, 0x35, 0x31];
    let t = s.skip(2).skip(2);
    assert(t =~= seq![0x5cu8, 0x32, 0x35, 0x31]);
    assert(s.skip(2) =~= seq![0x30u8, 0x33, 0x5c, 0x32, 0x35, 0x31]);
    assert(t.skip(2) =~= seq![0x35u8, 0x31]);
    assert(t.skip(2).skip(2) =~= Seq::<u8>::empty());
    reveal_with_fuel(c_unquote_spec, 4);
}
