// Group `blockpairs`, shared material: repo types of the block parser, `#[derive(Clone)]` of
// Position, ghost identity of `Rc` allocations.

//@item file=src/lib.rs kind=struct name=Position
//@item file=src/language_parsers/mod.rs kind=struct name=Comment
//@item file=src/blocks.rs kind=struct name=Block
//@item file=src/block_parser.rs kind=enum name=PartialBlock
//@item file=src/block_parser.rs kind=struct name=BlockStart
//@item file=src/block_parser.rs kind=struct name=BlockEnd

// `#[derive(Clone)]` on `struct Position { line: usize, character: usize }` (src/lib.rs:11; the
// attribute is stripped by rule E11). The derive expands to a field-wise clone; for two `usize`
// fields that is a copy. Written out so that Verus checks the body instead of trusting a spec.
impl Clone for Position {
    fn clone(&self) -> (r: Self)
        ensures r == *self
    {
        Position { line: self.line, character: self.character }
    }
}

// T-std `Rc::ptr_eq` — std doc: "Returns true if the two Rcs point to the same allocation".
// `rc_id` is the ghost identity of the allocation. CAVEAT (see blockpairs.notes.md, A1): Verus
// erases `Rc` in specifications, so `rc_id` is a function of the *pointee value*; the assumption
// therefore includes "equal comment values => same allocation". That holds for the `Rc<Comment>`
// values of this pipeline: block_parser.rs:97 wraps every comment in exactly one `Rc::new`, all
// other handles are `Rc::clone`s of it, and two different comments of one file differ in
// `source_range` (T-ext).
pub uninterp spec fn rc_id<T: ?Sized, A: core::alloc::Allocator>(r: &Rc<T, A>) -> int;

pub assume_specification<T: ?Sized, A: core::alloc::Allocator>[ Rc::<T, A>::ptr_eq ](a: &Rc<T, A>, b: &Rc<T, A>) -> (r: bool)
    ensures r == (rc_id(a) == rc_id(b));

// `#[derive(PartialEq, Eq, PartialOrd, Ord)]` on Position (src/lib.rs:11, stripped by E11). std doc
// of the derive: "When derived on structs, it will produce a lexicographic ordering based on the
// top-to-bottom declaration order of the struct's members." Written out and *verified* against
// `pos_cmp`; what is trusted is that this text is what the derive expands to.
spec fn pos_cmp(a: Position, b: Position) -> Ordering {
    if a.line < b.line { Ordering::Less } else if a.line > b.line { Ordering::Greater }
    else if a.character < b.character { Ordering::Less } else if a.character > b.character { Ordering::Greater }
    else { Ordering::Equal }
}
spec fn pos_le(a: Position, b: Position) -> bool { pos_cmp(a, b) != Ordering::Greater }

impl PartialEqSpecImpl for Position {
    closed spec fn obeys_eq_spec() -> bool { true }
    closed spec fn eq_spec(&self, other: &Self) -> bool { *self == *other }
}
impl PartialOrdSpecImpl for Position {
    closed spec fn obeys_partial_cmp_spec() -> bool { true }
    closed spec fn partial_cmp_spec(&self, other: &Self) -> Option<Ordering> { Some(pos_cmp(*self, *other)) }
}
impl OrdSpecImpl for Position {
    closed spec fn obeys_cmp_spec() -> bool { true }
    closed spec fn cmp_spec(&self, other: &Self) -> Ordering { pos_cmp(*self, *other) }
}
impl PartialEq for Position {
    fn eq(&self, other: &Self) -> (r: bool) { self.line == other.line && self.character == other.character }
}
impl Eq for Position {}
impl PartialOrd for Position {
    fn partial_cmp(&self, other: &Self) -> (r: Option<Ordering>) { Some(self.cmp(other)) }
}
impl Ord for Position {
    fn cmp(&self, other: &Self) -> (r: Ordering) {
        if self.line < other.line { Ordering::Less } else if self.line > other.line { Ordering::Greater }
        else if self.character < other.character { Ordering::Less } else if self.character > other.character { Ordering::Greater }
        else { Ordering::Equal }
    }
}

