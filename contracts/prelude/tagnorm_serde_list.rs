// Stand-in for serde_json as used by `FileBlocks::to_serializable_report` (group `listreport`; DESIGN
// 2.9, T-ext). Included *outside* the group's `verus! { .. }` block, instead of orch_ext.rs.
//
// Rule E2: a JSON value is opaque. `json!({"name": N, "line": L, "column": C, "is_content_modified": M,
// "attributes": A})` becomes the constructor `verif_json_listing(N, L, C, M, &A)` (the five
// expressions stay the repo's text). What is recorded about the value it builds:
//   * `payload(v)`: the five fields it was built from (so two listings with different fields are
//     different values, and a listing "carries" its block's data);
//   * `v == json_listing(payload(v))`: the value is a function of the five fields;
//   * `u64_at(v, "line")`: what `v["line"].as_u64()` returns (serde_json: a number built from a
//     `usize` is a `u64` number; `as_u64` returns it).
// The JSON text, the key names and the encoding of the attribute map are NOT verified.
mod serde_json {
    use vstd::prelude::*;
    use std::collections::HashMap;
    verus! {
//@include prelude/orch_serde_types.rs

    /// the five fields of one `list` entry
    pub struct Listing {
        pub name: Seq<char>,
        pub line: nat,
        pub column: nat,
        pub is_content_modified: bool,
        pub attributes: Map<String, String>,
    }

    pub uninterp spec fn payload(v: Value) -> Listing;
    pub uninterp spec fn json_listing(l: Listing) -> Value;
    /// `v[key].as_u64()`
    pub uninterp spec fn u64_at(v: Value, key: Seq<char>) -> Option<u64>;

    /// E2: `serde_json::json!({ "name": .., "line": .., "column": .., "is_content_modified": .., "attributes": .. })`
    /// (`json!` serialises each value by reference, hence `&HashMap`)
    #[verifier::external_body]
    pub fn verif_json_listing(name: &str, line: usize, column: usize, is_content_modified: bool, attributes: &HashMap<String, String>) -> (r: Value)
        ensures
            payload(r) == (Listing { name: name@, line: line as nat, column: column as nat, is_content_modified, attributes: attributes@ }),
            r == json_listing(payload(r)),
            u64_at(r, "line"@) == Some(line as u64),
    { unimplemented!() }

    /// E13: `v[key].as_u64()` (`Index<&str> for Value` then `Value::as_u64`)
    #[verifier::external_body]
    pub fn verif_index_as_u64(v: &Value, key: &str) -> (r: Option<u64>)
        ensures r == u64_at(*v, key@)
    { unimplemented!() }
    }
}
