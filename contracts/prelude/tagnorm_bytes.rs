// Byte-level string layer for the groups `tagscan` and `normalise` (included inside `verus! { .. }`;
// the group file needs `use vstd::utf8::*; use vstd::string::*;`).
//
// vstd 0.2026.09.13 has a *defined* UTF-8 model: `s.spec_bytes() == encode_utf8(s@)` (open spec fn),
// with proved lemmas (`encode_utf8_concat`, `encode_utf8_valid_utf8`, `encode_utf8_decode_utf8`,
// `valid_utf8_split`, `is_char_boundary_iff_not_is_continuation_byte`, ...). Everything below is
// stated over `utf8(s@)`, the UTF-8 bytes of a text: byte offsets are then plain sequence indices,
// which is what `str::find`, slicing and `len` speak about. Nothing about UTF-8 is assumed here: the
// few facts needed (an ASCII char is one byte; after an ASCII byte comes a char boundary; a `&str`
// sub-slice starts on a char boundary) are PROVED below from vstd's lemmas.
// Trusted in this file: only the shims, each an `external_body` whose body is the identical std call.

/// UTF-8 bytes of a text (`s.as_bytes()`); for a `&str` this is `s.spec_bytes()` by vstd's definition.
pub open spec fn utf8(t: Seq<char>) -> Seq<u8> { encode_utf8(t) }

/// UTF-8 continuation byte `10xxxxxx`
pub open spec fn is_cont(b: u8) -> bool { 0x80 <= b <= 0xBF }

/// `str::is_char_boundary(n)` exactly as std computes it (core/src/str/mod.rs): 0 and len are
/// boundaries, otherwise the byte at n must not be a continuation byte. Slicing panics iff an end
/// point is out of bounds or not such a boundary.
pub open spec fn byte_boundary(b: Seq<u8>, n: int) -> bool {
    n == 0 || n == b.len() || (0 < n < b.len() && !is_cont(b[n]))
}

/// the byte string `p` occurs in `b` at offset `q`
pub open spec fn occurs_at(b: Seq<u8>, q: int, p: Seq<u8>) -> bool {
    0 <= q && q + p.len() <= b.len() && b.subrange(q, q + p.len()) == p
}

// ---- proved UTF-8 facts ---------------------------------------------------------------------------

pub proof fn lemma_cont_bits(b: u8)
    ensures is_cont(b) == is_continuation_byte(b)
{
}

/// std's run-time boundary test agrees with vstd's `is_char_boundary`
pub proof fn lemma_boundary_is_vstd(t: Seq<char>, n: int)
    requires 0 <= n <= utf8(t).len()
    ensures byte_boundary(utf8(t), n) == is_char_boundary(utf8(t), n)
{
    encode_utf8_valid_utf8(t);
    is_char_boundary_start_end_of_seq(utf8(t));
    if 0 < n < utf8(t).len() {
        is_char_boundary_iff_not_is_continuation_byte(utf8(t), n);
        lemma_cont_bits(utf8(t)[n]);
    }
}

/// an ASCII char is encoded as the one byte with its code
pub proof fn lemma_ascii_scalar(c: char)
    requires (c as u32) < 128
    ensures encode_scalar(c as u32) == seq![c as u8]
{
    let x = c as u32;
    assert((x & 127) as u8 == x as u8) by (bit_vector) requires x < 128;
    assert(encode_scalar(x) =~= seq![c as u8]);
}

pub proof fn lemma_utf8_one(c: char)
    requires (c as u32) < 128
    ensures utf8(seq![c]) == seq![c as u8]
{
    lemma_ascii_scalar(c);
    encode_utf8_push(Seq::<char>::empty(), c);
    assert(Seq::<char>::empty().push(c) =~= seq![c]);
    assert(encode_utf8(Seq::<char>::empty()) =~= Seq::<u8>::empty());
}

pub proof fn lemma_utf8_two(c: char, d: char)
    requires (c as u32) < 128, (d as u32) < 128
    ensures utf8(seq![c, d]) == seq![c as u8, d as u8]
{
    lemma_utf8_one(c);
    lemma_ascii_scalar(d);
    encode_utf8_push(seq![c], d);
    assert(seq![c].push(d) =~= seq![c, d]);
}

/// the text of a `&str` whose bytes are `b[n..]` starts on a char boundary of `b` (a str is valid
/// UTF-8, and valid UTF-8 does not start with a continuation byte)
pub proof fn lemma_substr_starts_on_boundary(b: Seq<u8>, n: int, r: Seq<char>)
    requires 0 <= n <= b.len(), utf8(r) == b.subrange(n, b.len() as int)
    ensures byte_boundary(b, n)
{
    if 0 < n < b.len() {
        encode_utf8_valid_utf8(r);
        is_char_boundary_start_end_of_seq(utf8(r));
        is_char_boundary_iff_not_is_continuation_byte(utf8(r), 0);
        lemma_cont_bits(utf8(r)[0]);
        assert(utf8(r)[0] == b[n]);
    }
}

/// same for the end of a sub-slice `b[..n]` when the rest `b[n..]` is a str as well
pub proof fn lemma_after_ascii_is_boundary(t: Seq<char>, p: int)
    requires 0 <= p < utf8(t).len(), utf8(t)[p] < 0x80
    ensures byte_boundary(utf8(t), p + 1)
{
    let b = utf8(t);
    if p + 1 < b.len() {
        encode_utf8_valid_utf8(t);
        assert(!is_cont(b[p]));
        lemma_boundary_is_vstd(t, p);
        assert(is_char_boundary(b, p));
        valid_utf8_split(b, p);
        let s = b.subrange(p, b.len() as int);
        assert(valid_utf8(s));
        assert(s[0] == b[p]);
        // vstd: the first scalar of `s` has width 1, so offset 1 is a boundary of `s`
        assert(is_char_boundary(s, 1)) by {
            reveal_with_fuel(is_char_boundary, 3);
            assert(is_leading_byte_width_1(s[0])) by {
                let x = s[0];
                assert(is_leading_byte_width_1(x)) by (bit_vector) requires x < 0x80u8;
            }
        }
        is_char_boundary_iff_not_is_continuation_byte(s, 1);
        lemma_cont_bits(s[1]);
        assert(s[1] == b[p + 1]);
    }
}

// ---- shims (rule E13): external_body = the identical std call ------------------------------------------

/// `&s[a..]` — std: panics if `a` is past the end or not on a char boundary (=> preconditions)
#[verifier::external_body]
pub fn verif_str_from<'a>(s: &'a str, a: usize) -> (r: &'a str)
    requires
        a <= utf8(s@).len(), // [std.str_index.pre.in_bounds]
        byte_boundary(utf8(s@), a as int), // [std.str_index.pre.char_boundary]
    ensures
        utf8(r@) == utf8(s@).subrange(a as int, utf8(s@).len() as int),
{ &s[a..] }

/// `&s[..b]`
#[verifier::external_body]
pub fn verif_str_to<'a>(s: &'a str, b: usize) -> (r: &'a str)
    requires
        b <= utf8(s@).len(), // [std.str_index.pre.in_bounds]
        byte_boundary(utf8(s@), b as int), // [std.str_index.pre.char_boundary]
    ensures
        utf8(r@) == utf8(s@).subrange(0, b as int),
{ &s[..b] }

/// `&s[a..b]` — std: panics if `a > b`, `b` is past the end, or either is not on a char boundary
#[verifier::external_body]
pub fn verif_str_range<'a>(s: &'a str, a: usize, b: usize) -> (r: &'a str)
    requires
        a <= b <= utf8(s@).len(), // [std.str_index.pre.in_bounds]
        byte_boundary(utf8(s@), a as int), // [std.str_index.pre.char_boundary]
        byte_boundary(utf8(s@), b as int), // [std.str_index.pre.char_boundary]
    ensures
        utf8(r@) == utf8(s@).subrange(a as int, b as int),
{ &s[a..b] }

/// `s.find(pat)` for a `&str` pattern — std: "Returns the byte index of the first character of this
/// string slice that matches the pattern. Returns None if the pattern doesn't match." A `&str`
/// pattern matches where its bytes occur (UTF-8 is self-synchronising: such an occurrence always
/// starts on a char boundary).
#[verifier::external_body]
pub fn verif_find_str(s: &str, pat: &str) -> (r: Option<usize>)
    ensures
        r matches Some(p) ==> occurs_at(utf8(s@), p as int, utf8(pat@))
            && forall|q: int| 0 <= q < p ==> !#[trigger] occurs_at(utf8(s@), q, utf8(pat@)),
        r is None ==> forall|q: int| !#[trigger] occurs_at(utf8(s@), q, utf8(pat@)),
{ s.find(pat) }

/// `s.rfind(pat)` for a `&str` pattern — std: "Returns the byte index for the first character of the
/// last match of the pattern in this string slice."
#[verifier::external_body]
pub fn verif_rfind_str(s: &str, pat: &str) -> (r: Option<usize>)
    ensures
        r matches Some(p) ==> occurs_at(utf8(s@), p as int, utf8(pat@))
            && forall|q: int| p < q ==> !#[trigger] occurs_at(utf8(s@), q, utf8(pat@)),
        r is None ==> forall|q: int| !#[trigger] occurs_at(utf8(s@), q, utf8(pat@)),
{ s.rfind(pat) }
