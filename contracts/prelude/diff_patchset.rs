// T-ext / T-std for D-a `line_changes_from_diff`: `unidiff::PatchSet` (opaque stand-in: its parser
// is external, DESIGN section 4 "not extracted") and `std::path::PathBuf`.
// Needs prelude/anyhow.rs (outside verus!), prelude/diff_unidiff.rs, prelude/diff_lines_spec.rs,
// prelude/diff_parse_hunk.rs.

#[verifier::external_type_specification]
#[verifier::external_body]
pub struct ExPathBuf(std::path::PathBuf);

/// T-std: `PathBuf`'s `Hash`/`Eq` are deterministic and agree with each other (std doc of `Hash`:
/// "k1 == k2 -> hash(k1) == hash(k2)"). vstd needs this to give `HashMap<PathBuf, _>` its `Map` view.
pub broadcast axiom fn axiom_diff_pathbuf_key_model()
    ensures #[trigger] vstd::std_specs::hash::obeys_key_model::<std::path::PathBuf>();

/// `PathBuf::from(&str)`: a function of the text. Deliberately uninterpreted and *not* assumed
/// injective (`PathBuf` equality is component-wise: "a//b" == "a/b").
pub uninterp spec fn path_of(s: Seq<char>) -> std::path::PathBuf;

/// `<&str as Into<PathBuf>>::into` / `<String as Into<PathBuf>>::into` (E13: `Into` is generic over
/// the target type). The path is a function of the text.
pub trait VerifIntoPath {
    spec fn ptext(&self) -> Seq<char>;
    fn into_pb(self) -> (r: std::path::PathBuf)
        ensures r == path_of(self.ptext());
}

impl<'a> VerifIntoPath for &'a str {
    open spec fn ptext(&self) -> Seq<char> { (*self)@ }
    #[verifier::external_body]
    fn into_pb(self) -> (r: std::path::PathBuf) { self.into() }
}

impl<'a> VerifIntoPath for &'a String {
    open spec fn ptext(&self) -> Seq<char> { (*self)@ }
    #[verifier::external_body]
    fn into_pb(self) -> (r: std::path::PathBuf) { self.into() }
}

impl VerifIntoPath for String {
    open spec fn ptext(&self) -> Seq<char> { self@ }
    #[verifier::external_body]
    fn into_pb(self) -> (r: std::path::PathBuf) { self.into() }
}

pub fn verif_str_into_pathbuf<T: VerifIntoPath>(s: T) -> (r: std::path::PathBuf)
    ensures r == path_of(s.ptext()),
{ s.into_pb() }

/// stand-in for `unidiff::PatchSet` (private field `files: Vec<PatchedFile>`)
#[verifier::external_body]
pub struct PatchSet { files: Vec<PatchedFile> }

impl PatchSet {
    pub uninterp spec fn spec_files(&self) -> Seq<PatchedFile>;
}

/// what `PatchSet::from_str` makes of a diff text: `None` = parse error. Uninterpreted: the
/// parser is outside the verified code ("any ordinary diff git emits is accepted" is NOT proved).
pub uninterp spec fn parse_patch(text: Seq<char>) -> Option<Seq<PatchedFile>>;

/// E1/E14 shim for `PatchSet::from_str(s)?`-style use: the error value is converted to
/// `anyhow::Error` (text not verified).
/// T-ext: every hunk of every parsed file is `hunk_parsed` (`file_parsed`). `hunk_parsed` is not a
/// guess about the crate: it is the postcondition of unidiff-0.4.0 `PatchedFile::parse_hunk` PROVED on
/// the crate's text (unit X.parse_hunk, group unidiffparse: every line gets exactly the numbers of
/// its kind from the running cursors). What this clause still ASSUMES is the wiring around it:
/// `PatchSet::from_str` = `parse`, which creates hunks nowhere but in `parse_hunk` (called once per
/// `@@` line with the lines behind it), pushes the returned hunk unchanged and clones the finished
/// file (`derive(Clone)`); and that the three labelled preconditions of X.parse_hunk hold at that call
/// (header numbers and `enumerate()` indices of an in-memory text do not overflow `usize`).
/// `file_numbered` - what D-b's `unwrap`s need - is DERIVED from it (`lemma_parsed_file_numbered`).
#[verifier::external_body]
pub fn verif_patchset_from_str(s: &str) -> (r: anyhow::Result<PatchSet>)
    ensures
        r matches Ok(ps) ==> parse_patch(s@) == Some(ps.spec_files())
            && forall|i: int| 0 <= i < ps.spec_files().len() ==> file_parsed(#[trigger] ps.spec_files()[i]),
        r is Err ==> parse_patch(s@) is None,
{ unimplemented!() }

/// E14: `for x in patch_set` is `patch_set.into_iter()` + `next()` until `None`; unidiff-0.4.0
/// `impl IntoIterator for PatchSet` is `self.files.into_iter()`: the files in order, each once.
#[verifier::external_body]
pub struct PatchSetIntoIter { it: std::vec::IntoIter<PatchedFile> }

impl PatchSetIntoIter {
    /// ghost: the items `next` will still yield
    pub uninterp spec fn pending(&self) -> Seq<PatchedFile>;

    #[verifier::external_body]
    pub fn next(&mut self) -> (r: Option<PatchedFile>)
        ensures
            old(self).pending().len() == 0 ==> r is None && final(self).pending() == old(self).pending(),
            old(self).pending().len() > 0 ==> r == Some(old(self).pending()[0]) && final(self).pending() == old(self).pending().skip(1),
    { self.it.next() }
}

#[verifier::external_body]
pub fn verif_patchset_into_iter(ps: PatchSet) -> (r: PatchSetIntoIter)
    ensures r.pending() == ps.spec_files(),
{ PatchSetIntoIter { it: ps.files.into_iter() } }

// ---- E13 shims for the two Pattern-generic str methods of D-a. Same specification and body as
// `verif_strip_prefix_str` of prelude/strings.rs; kept local so that this group does not depend on
// the (large, separately evolving) T-str layer for one function.
/// `str::strip_prefix(pat)` — std doc: "Returns a string slice with the prefix removed. If the
/// string starts with the pattern prefix, returns the substring after the prefix, wrapped in Some.
/// Unlike trim_start_matches, this method removes the prefix exactly once."
pub open spec fn diff_strip_prefix_spec(s: Seq<char>, p: Seq<char>) -> Option<Seq<char>> {
    if p.len() <= s.len() && s.subrange(0, p.len() as int) == p {
        Some(s.subrange(p.len() as int, s.len() as int))
    } else {
        None
    }
}

pub open spec fn diff_opt_view(o: Option<&str>) -> Option<Seq<char>> {
    match o { Some(x) => Some(x@), None => None }
}

#[verifier::external_body]
pub fn verif_diff_strip_prefix<'a>(s: &'a str, p: &str) -> (r: Option<&'a str>)
    ensures diff_opt_view(r) == diff_strip_prefix_spec(s@, p@),
{ s.strip_prefix(p) }

/// `str::trim_start_matches(pat)` — std doc: "Returns a string slice with all prefixes that match
/// a pattern repeatedly removed." Only reachable if the code regresses to it (D3).
pub open spec fn trim_start_matches_spec(s: Seq<char>, p: Seq<char>) -> Seq<char>
    decreases s.len()
{
    if p.len() > 0 && diff_strip_prefix_spec(s, p) is Some { trim_start_matches_spec(diff_strip_prefix_spec(s, p).unwrap(), p) } else { s }
}

#[verifier::external_body]
pub fn verif_diff_trim_start_matches<'a>(s: &'a str, p: &str) -> (r: &'a str)
    ensures r@ == trim_start_matches_spec(s@, p@),
{ s.trim_start_matches(p) }

/// exactly one leading "b/" removed (property C15) -- on the path's bytes (`b` = 0x62, `/` = 0x2f)
pub open spec fn strip_once_bytes(b: Seq<u8>) -> Seq<u8> {
    if b.len() >= 2 && b[0] == 0x62u8 && b[1] == 0x2fu8 { b.skip(2) } else { b }
}

/// `<[u8]>::strip_prefix(b"b/")` (std: "Returns a subslice with the prefix removed ... If the slice does not
/// start with prefix, returns None")
pub open spec fn bytes_strip_b_slash(b: Seq<u8>) -> Option<Seq<u8>> {
    if b.len() >= 2 && b[0] == 0x62u8 && b[1] == 0x2fu8 { Some(b.skip(2)) } else { None }
}

pub open spec fn diff_opt_bytes_view(o: Option<&[u8]>) -> Option<Seq<u8>> {
    match o { Some(x) => Some(x@), None => None }
}

#[verifier::external_body]
pub fn verif_bytes_strip_b_slash<'a>(s: &'a Vec<u8>) -> (r: Option<&'a [u8]>)
    ensures diff_opt_bytes_view(r) == bytes_strip_b_slash(s@),
{ s.strip_prefix(b"b/") }

/// `Option<&[u8]>::unwrap_or(&vec)` (the `&Vec<u8>` argument coerces to a slice)
#[verifier::external_body]
pub fn verif_bytes_unwrap_or<'a>(o: Option<&'a [u8]>, d: &'a Vec<u8>) -> (r: &'a [u8])
    ensures r@ == (match o { Some(x) => x@, None => d@ }),
{ o.unwrap_or(d) }

/// the path that consists of exactly these bytes (`OsStr::from_bytes` on Unix). Uninterpreted.
pub uninterp spec fn path_of_bytes(b: Seq<u8>) -> std::path::PathBuf;

/// `path_from_bytes` of src/diff_parser.rs: two std calls (`OsStr::from_bytes`, `PathBuf::from`) under
/// `#[cfg(unix)]` -- T-std: the path IS the bytes. (The non-Unix variant converts lossily; not modelled.)
#[verifier::external_body]
pub fn path_from_bytes(bytes: &[u8]) -> (r: std::path::PathBuf)
    ensures r == path_of_bytes(bytes@),
{ unimplemented!() }

pub open spec fn da_key(f: PatchedFile) -> std::path::PathBuf {
    path_of_bytes(strip_once_bytes(unquote_bytes_spec(f.target_file@)))
}

/// the key the pre-90ac6cb code used: the target as written in the diff, quotes and escapes included
pub open spec fn da_key_raw(f: PatchedFile) -> std::path::PathBuf {
    path_of_bytes(strip_once_bytes(utf8_bytes(f.target_file@)))
}

/// the file is deleted by the diff: git (and every unified diff) names its target `/dev/null`
pub open spec fn deleted_file(f: PatchedFile) -> bool {
    f.target_file@ == "/dev/null"@
}

/// KF3 carve-out: unidiff's `is_removed_file` heuristic (exactly one hunk, target `+0,0`) holds for
/// no file whose target is not `/dev/null`
pub open spec fn kf3_carve_out(files: Seq<PatchedFile>) -> bool {
    forall|i: int| 0 <= i < files.len() && !deleted_file(#[trigger] files[i]) ==> !removed_file(files[i])
}

/// a file contributes nothing ONLY IF it is deleted (C01/C12)
pub open spec fn only_deleted_files_are_skipped(files: Seq<PatchedFile>, m: Map<std::path::PathBuf, Vec<LineChange>>) -> bool {
    forall|i: int| 0 <= i < files.len() && !deleted_file(#[trigger] files[i]) ==> m.contains_key(da_key(files[i]))
}

/// the contract of D-b `line_changes` as one predicate
pub open spec fn db_result(f: PatchedFile, out: Seq<LineChange>) -> bool {
    &&& file_wf(f) ==> exists|origin: Seq<Orig>| db_post(f, out, origin)
    &&& file_wf(f) && kf1_carve_out(f) ==> strictly_sorted(out)
}

/// `j` is the last non-removed file among the first `n` whose key is `key`
pub open spec fn last_file_with_key(files: Seq<PatchedFile>, n: int, key: std::path::PathBuf, j: int) -> bool {
    &&& 0 <= j < n && !removed_file(files[j]) && da_key(files[j]) == key
    &&& forall|j2: int| j < j2 < n && !removed_file(#[trigger] files[j2]) ==> da_key(files[j2]) != key
}
