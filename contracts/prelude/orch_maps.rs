// Shims for hash-map idioms without a vstd specification (rules E4, E5). Included inside `verus! { .. }`.

// ---- rule E4: consuming iteration over a hash map --------------------------------------------------
// `for (k, v) in M` (vstd has no specification for `hash_map::IntoIter`). Trusted, from the std doc
// of `HashMap::into_iter` ("an iterator visiting all key-value pairs in arbitrary order"): the
// pairs form a duplicate-free sequence, in ARBITRARY order, whose map view is `M@`.
pub open spec fn entries_raw<K, V>(ents: Seq<(K, V)>, m: Map<K, V>) -> bool {
    &&& forall|i: int| 0 <= i < ents.len() ==> m.contains_key((#[trigger] ents[i]).0) && m[ents[i].0] == ents[i].1
    &&& forall|i: int, j: int| 0 <= i < j < ents.len() ==> (#[trigger] ents[i]).0 != (#[trigger] ents[j]).0
    &&& forall|k: K| m.contains_key(k) ==> exists|i: int| 0 <= i < ents.len() && (#[trigger] ents[i]).0 == k
}

#[verifier::external_body]
pub fn verif_into_entries<K, V>(m: HashMap<K, V>) -> (r: Vec<(K, V)>)
    ensures
        vstd::std_specs::hash::obeys_key_model::<K>() ==> entries_raw(r@, m@),
{
    m.into_iter().collect()
}

// ---- rule E5: `M.entry(K).or_insert_with(Vec::new).extend(X)` / `M.entry(K).or_default().extend(X)` ----
// vstd has no specification for `Entry::or_insert_with` / `Entry::or_default` nor `Vec::extend`. Trusted, from
// the std docs ("Ensures a value is in the entry by inserting the result of the default function if empty, and
// returns a mutable reference to the value in the entry"; `or_default`: "... by inserting the default value if
// empty", and `Vec::default()` is `Vec::new()`: the two spellings are the same call for a `Vec` value;
// `Extend for Vec` appends in order):
// M' = M[K -> M.get_or(K, []) ++ X], every other key untouched.
// Anchors (in the group templates): `$m.entry(KEY).or_insert_with(Vec::new).extend($v)` (merge, report:V8p) and
// `$m.entry(KEY).or_default().extend($v)` (report:V8p), both -> `verif_map_extend(&mut $m, KEY, $v)`.
#[verifier::external_body]
pub fn verif_map_extend<K: std::cmp::Eq + std::hash::Hash, T>(m: &mut HashMap<K, Vec<T>>, k: K, x: Vec<T>)
    ensures
        vstd::std_specs::hash::obeys_key_model::<K>() ==> {
            &&& final(m)@.dom() == old(m)@.dom().insert(k)
            &&& final(m)@[k]@ == (if old(m)@.contains_key(k) { old(m)@[k]@ } else { Seq::<T>::empty() }) + x@
            &&& forall|k2: K| k2 != k && old(m)@.contains_key(k2) ==> final(m)@[k2] == #[trigger] old(m)@[k2]
        },
{
    m.entry(k).or_insert_with(Vec::new).extend(x)
}
