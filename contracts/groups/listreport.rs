// Group `listreport`: what `blockwatch list` prints.
//   L1  FileBlocks::to_serializable_report (src/blocks.rs)        one listing per block, sorted by line
//   L2  ValidationContext::to_serializable_report (src/validators/mod.rs)   one entry per file, any iteration order
// Properties: C11 ("`list` prints the selected blocks": exactly one listing per block of the file,
// each carrying that block's name, line, column, is_content_modified and attributes), C20 (the
// report is a function of the map view of the context: independent of hash-map iteration order),
// C04 (no arithmetic/bounds failure).
// Trusted: see listreport.notes.md.
use vstd::prelude::*;
use std::cmp::Ordering;
use std::collections::{HashMap, HashSet};
use std::ops::{Range, RangeInclusive};
use std::path::PathBuf;
use std::sync::Arc;

//@include prelude/anyhow.rs
//@include prelude/tagnorm_serde_list.rs

verus! {

broadcast use vstd::std_specs::hash::group_hash_axioms;

//@include prelude/std_range.rs
//@include prelude/orch_model.rs
//@include prelude/tagnorm_listing.rs

// ---------------------------------------------------------------------------------------------
// Specification, written from C11 / C03 "observe_at": "stdout JSON of `blockwatch list` (name, line,
// column, is_content_modified, attributes per block)".

/// `Block::name_display` as a function of the block (the `name` attribute or a placeholder;
/// its body is not in this group: only "it is a pure function of the block" is used).
pub uninterp spec fn name_display_spec(b: Block) -> Seq<char>;

impl Block {
    /// ASSUMED callee contract (blocks.rs:181): a pure accessor.
    #[verifier::external_body]
    pub fn name_display(&self) -> (r: &str)
        ensures r@ == name_display_spec(*self)
    { unimplemented!() }
}

/// the five fields `list` shows for block `b`
pub open spec fn listing_fields(b: BlockWithContext) -> serde_json::Listing {
    serde_json::Listing {
        name: name_display_spec(b.block),
        line: b.block.start_tag_position_range@.start.line as nat,
        column: b.block.start_tag_position_range@.start.character as nat,
        is_content_modified: b.is_content_modified,
        attributes: b.block.attributes@,
    }
}

/// the listing of block `b`
pub open spec fn listing_of(b: BlockWithContext) -> serde_json::Value {
    serde_json::json_listing(listing_fields(b))
}

/// one listing per block, in block order (before sorting)
pub open spec fn listings_of(bs: Seq<BlockWithContext>) -> Seq<serde_json::Value> {
    Seq::new(bs.len(), |i: int| listing_of(bs[i]))
}

/// the sort key of the real closure: `b["line"].as_u64().unwrap_or(0)`
pub open spec fn line_key(v: serde_json::Value) -> u64 {
    match serde_json::u64_at(v, "line"@) {
        Some(x) => x,
        None => 0u64,
    }
}

/// `r` lists the blocks `bs`: position `i` of the report shows block `p[i]`; `p` is a bijection
/// (no block dropped, none shown twice), lines ascend, blocks on the same line keep block order.
pub open spec fn report_witness(p: Seq<int>, bs: Seq<BlockWithContext>, r: Seq<serde_json::Value>) -> bool {
    &&& p.len() == bs.len() && r.len() == bs.len()
    &&& forall|i: int| 0 <= i < p.len() ==> 0 <= #[trigger] p[i] < bs.len()
            && r[i] == listing_of(bs[p[i]]) && serde_json::payload(r[i]) == listing_fields(bs[p[i]])
    &&& forall|i: int, j: int| 0 <= i < j < p.len() ==> #[trigger] p[i] != #[trigger] p[j]
    &&& forall|k: int| 0 <= k < bs.len() ==> #[trigger] perm_hits(p, k)
    &&& forall|i: int, j: int| 0 <= i < j < r.len() ==> serde_json::payload(#[trigger] r[i]).line <= serde_json::payload(#[trigger] r[j]).line
    &&& forall|i: int, j: int| 0 <= i < j < r.len() && serde_json::payload(r[i]).line == serde_json::payload(r[j]).line ==> #[trigger] p[i] < #[trigger] p[j]
}

/// Everything L1 guarantees about the report `r` of file `fb`.
pub open spec fn l1_post(fb: FileBlocks, r: Seq<serde_json::Value>) -> bool {
    &&& r.len() == fb.blocks_with_context@.len()
    &&& r.to_multiset() == listings_of(fb.blocks_with_context@).to_multiset()
    &&& exists|p: Seq<int>| #[trigger] report_witness(p, fb.blocks_with_context@, r)
    &&& r == stable_sort_by_key_spec(listings_of(fb.blocks_with_context@), |v: serde_json::Value| line_key(v))
}

/// line numbers fit `u64` (they are `usize`; true on every supported target)
pub open spec fn lines_fit_u64(fb: FileBlocks) -> bool {
    forall|i: int| 0 <= i < fb.blocks_with_context@.len() ==>
        (#[trigger] fb.blocks_with_context@[i]).block.start_tag_position_range@.start.line <= u64::MAX
}

impl FileBlocks {
//@unit id=L1 file=src/blocks.rs fn=<<impl FileBlocks::to_serializable_report>> ret=r
//@contract
        requires
            lines_fit_u64(*self), // [L1.pre.lines_fit_u64]
        ensures
            r@.len() == self.blocks_with_context@.len() // [L1.post.one_listing_per_block]
                && r@.to_multiset() == listings_of(self.blocks_with_context@).to_multiset(),
            exists|p: Seq<int>| #[trigger] report_witness(p, self.blocks_with_context@, r@), // [L1.post.each_listing_carries_its_block]
            forall|i: int, j: int| 0 <= i < j < r@.len() ==> // [L1.post.sorted_by_line]
                serde_json::payload(#[trigger] r@[i]).line <= serde_json::payload(#[trigger] r@[j]).line,
            r@ == stable_sort_by_key_spec(listings_of(self.blocks_with_context@), |v: serde_json::Value| line_key(v)), // [L1.post.is_function_of_blocks]
            l1_post(*self, r@), // [L1.post.is_spec]
//@foridx rule=E18 find=<<for $a in &self.blocks_with_context>> idx=verif_j
            invariant
                lines_fit_u64(*self),
                verif_j <= self.blocks_with_context@.len(),
                listings@.len() == verif_j, // [L1.inv.one_listing_per_visited_block]
                forall|k: int| 0 <= k < verif_j ==> #[trigger] listings@[k] == listing_of(self.blocks_with_context@[k]) // [L1.inv.listing_of_block_k]
                    && serde_json::payload(listings@[k]) == listing_fields(self.blocks_with_context@[k])
                    && line_key(listings@[k]) == self.blocks_with_context@[k].block.start_tag_position_range@.start.line,
            decreases self.blocks_with_context@.len() - verif_j
//@edit rule=E2 find=<<serde_json::json!({ "name":>>
serde_json::verif_json_listing(
//@edit rule=E2 find=<<, "line":>>
,
//@edit rule=E2 find=<<, "column":>>
,
//@edit rule=E2 find=<<, "is_content_modified":>>
,
//@edit rule=E2 find=<<, "attributes":>>
, &
//@edit rule=E2 find=<<, }));>>
));
//@edit rule=ghost before=<<listings.sort_by_key(>>
        let ghost pre = listings@;
        proof {
            assert(pre =~= listings_of(self.blocks_with_context@));
        }
//@edit rule=E13 find=<<$a[$$s].as_u64()>> count=all
serde_json::verif_index_as_u64($a, $$s)
//@closure rule=E12 find=<<|b|>> params=<<|b: &serde_json::Value|>> ret=<<k: u64>>
            ensures k == line_key(*b), // [L1.closure.key_is_line]
//@chain rule=E13 find=<<.sort_by_key(>> to=verif_sort_by_key_u64 recvprefix=<<&mut >> extra=<<Ghost(|v: serde_json::Value| line_key(v))>>
//@edit rule=ghost before=<<listings }>>
        proof {
            let bs = self.blocks_with_context@;
            let keyf = |v: serde_json::Value| line_key(v);
            let p = choose|p: Seq<int>| #[trigger] stable_sort_witness(p, pre, listings@, keyf);
            assert forall|i: int| 0 <= i < p.len() implies serde_json::payload(#[trigger] listings@[i]).line == line_key(listings@[i]) by { // [L1.proof.sort_key_is_the_listed_line]
                assert(listings@[i] == pre[p[i]]);
            }
            assert(report_witness(p, bs, listings@)); // [L1.proof.sorted_listings_show_each_block_once]
        }
//@end
}

// ---------------------------------------------------------------------------------------------
// L2 — the per-file map. C20: the postcondition speaks about the map VIEW of `self.blocks` only, and
// the loop is verified for an ARBITRARY enumeration order of the hash map (rule E4).

/// Everything L2 guarantees: exactly the files of the context, each with a report that satisfies L1's contract.
pub open spec fn l2_post(ctx: ValidationContext, report: Map<PathBuf, Vec<serde_json::Value>>) -> bool {
    &&& forall|f: PathBuf| report.contains_key(f) <==> ctx.blocks@.contains_key(f)
    &&& forall|f: PathBuf| #[trigger] ctx.blocks@.contains_key(f) ==> l1_post(ctx.blocks@[f], report[f]@)
}

/// loop invariants of L2 (as typed predicates: the map's value type is inferred from them)
pub open spec fn l2_files_so_far(report: Map<PathBuf, Vec<serde_json::Value>>, ents: Seq<(&PathBuf, &FileBlocks)>, n: int) -> bool {
    forall|f: PathBuf| report.contains_key(f) <==> exists|i: int| 0 <= i < n && *(#[trigger] ents[i]).0 == f
}
pub open spec fn l2_reports_so_far(report: Map<PathBuf, Vec<serde_json::Value>>, ents: Seq<(&PathBuf, &FileBlocks)>, n: int) -> bool {
    forall|i: int| 0 <= i < n ==> l1_post(*(#[trigger] ents[i]).1, report[*ents[i].0]@)
}

/// T-arith for every file of the context
pub open spec fn ctx_lines_fit_u64(ctx: ValidationContext) -> bool {
    forall|f: PathBuf| #[trigger] ctx.blocks@.contains_key(f) ==> lines_fit_u64(ctx.blocks@[f])
}

/// C20: two runs over the same context (whatever their hash seeds / iteration orders) print the same
/// report: L2's postcondition determines every file's list.
pub proof fn lemma_l2_order_independent(ctx: ValidationContext, r1: Map<PathBuf, Vec<serde_json::Value>>, r2: Map<PathBuf, Vec<serde_json::Value>>)
    requires
        l2_post(ctx, r1),
        l2_post(ctx, r2),
    ensures
        r1.dom() == r2.dom(), // [L2.lemma.same_files]
        forall|f: PathBuf| #[trigger] r1.contains_key(f) ==> r1[f]@ == r2[f]@, // [L2.lemma.same_listings]
{
    assert(r1.dom() =~= r2.dom());
    assert forall|f: PathBuf| #[trigger] r1.contains_key(f) implies r1[f]@ == r2[f]@ by {
        assert(ctx.blocks@.contains_key(f));
    }
}

impl ValidationContext {
//@unit id=L2 file=src/validators/mod.rs fn=<<impl ValidationContext::to_serializable_report>> ret=r
//@contract
        requires
            ctx_lines_fit_u64(*self), // [L2.pre.lines_fit_u64]
        ensures
            forall|f: PathBuf| r@.contains_key(f) <==> self.blocks@.contains_key(f), // [L2.post.one_entry_per_file]
            forall|f: PathBuf| #[trigger] self.blocks@.contains_key(f) ==> l1_post(self.blocks@[f], r@[f]@), // [L2.post.entry_is_the_files_report]
            l2_post(*self, r@), // [L2.post.is_spec]
//@edit rule=ghost before=<<let mut report>>
        broadcast use axiom_pathbuf_key_model;
//@edit rule=E4 find=<<for ($a, $b) in &self.blocks>>
        let verif_entries = verif_entries_ref(&self.blocks);
        let ghost ents = verif_entries@;
        for ($a, $b) in it: verif_entries
            invariant
                l2_files_so_far(report@, ents, it.index@ as int), // [L2.inv.files_so_far]
                l2_reports_so_far(report@, ents, it.index@ as int), // [L2.inv.each_entry_is_its_files_report]
                ctx_lines_fit_u64(*self),
                vstd::std_specs::hash::obeys_key_model::<PathBuf>(),
                it.seq() == ents,
                entries_ref_raw(ents, self.blocks@),
//@edit rule=ghost before=<<report.insert(>>
            proof {
                // whatever report of this file is inserted under this file's path, the invariants extend by one entry
                let report0 = report@;
                let n = it.index@ as int;
                assert(ents[n] == (path, file_blocks));
                let k = *ents[n].0;
                assert forall|v: Vec<serde_json::Value>| l1_post(*ents[n].1, v@) implies
                    l2_files_so_far(#[trigger] report0.insert(k, v), ents, n + 1) && l2_reports_so_far(report0.insert(k, v), ents, n + 1) by {
                    let rep = report0.insert(k, v);
                    assert forall|f: PathBuf| rep.contains_key(f) <==> exists|i: int| 0 <= i < n + 1 && *(#[trigger] ents[i]).0 == f by {
                        if report0.contains_key(f) {
                            let i = choose|i: int| 0 <= i < n && *(#[trigger] ents[i]).0 == f;
                            assert(0 <= i < n + 1 && *ents[i].0 == f);
                        }
                        if f == k { assert(0 <= n < n + 1 && *ents[n].0 == f); }
                    }
                    assert forall|i: int| 0 <= i < n + 1 implies l1_post(*(#[trigger] ents[i]).1, rep[*ents[i].0]@) by {
                        if i < n { assert(*ents[i].0 != *ents[n].0); }
                    }
                }
            }
//@edit rule=ghost before=<<report }>>
        proof {
            // E4: whatever the enumeration order was, every file of the map has been visited once
            assert forall|f: PathBuf| report@.contains_key(f) <==> self.blocks@.contains_key(f) by { // [L2.proof.any_order_covers_every_file]
                if report@.contains_key(f) {
                    let i = choose|i: int| 0 <= i < ents.len() && *(#[trigger] ents[i]).0 == f;
                    assert(self.blocks@.contains_key(*ents[i].0));
                }
            }
            assert forall|f: PathBuf| #[trigger] self.blocks@.contains_key(f) implies l1_post(self.blocks@[f], report@[f]@) by {
                let i = choose|i: int| 0 <= i < ents.len() && *(#[trigger] ents[i]).0 == f;
                assert(self.blocks@[*ents[i].0] == *ents[i].1);
                assert(l1_post(*ents[i].1, report@[*ents[i].0]@));
            }
        }
//@end
}

} // verus!
fn main() {}
