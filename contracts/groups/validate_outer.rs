// Group `validate_outer`: the OUTER loops (files x blocks, attribute lookup, argument preparation) of
// the four line validators' `validate`, with the already-verified inner part replaced by a CALL
// (rule SLICE-CALL) to an `external_body` stub that carries, textually, the inner slice's proven contract:
//   VO2  KeepUniqueValidator::validate   inner: V2  v2_loop               (group keep_unique)
//   VO3  LinePatternValidator::validate  inner: V3  v3_loop               (group line_pattern)
//   VO4  LineCountValidator::validate    inner: V4p parse_constraint, V4 v4_check (group line_count)
//   VO1  KeepSortedValidator::validate   inner: V1d v1_prefix, V1 v1_loop (group keep_sorted)
// Properties: C06-C09 (closes "validate passes the right things to the loop"), C13 (inner Err => Err),
// C20 (any hash iteration order), C02 (frame: the result does not depend on the modification flags).
use vstd::prelude::*;
use std::cmp::Ordering;
use std::collections::{HashMap, HashSet};
use std::ops::{Range, RangeInclusive};
use std::path::{Path, PathBuf};
use std::sync::Arc;

//@include prelude/anyhow.rs
//@include prelude/tstr_mod.rs
//@include prelude/regex.rs
//@include prelude/aff_axioms_mod.rs
use regex::Regex;

verus! {

//@include prelude/std_range.rs
//@include prelude/strings.rs
//@include prelude/sorting.rs
//@include prelude/domain.rs
//@include prelude/block_fns.rs
//@include prelude/aff_maps.rs
//@item file=src/validators/mod.rs kind=struct name=ValidationContext
//@include prelude/aff_outer.rs

// ==== keep-unique ===============================================================================================
mod ku {
use super::*;
broadcast use {vstd::std_specs::hash::group_hash_axioms, tstr::group_tstr, affx::group_affx};

//@item file=src/validators/keep_unique.rs kind=struct name=KeepUniqueValidator
//@copyfrom file=groups/keep_unique.rs from=<<// ---- specification>> until=<<impl KeepUniqueValidator {>>

/// the block carries the validator's attribute
spec fn ku_has(b: BlockWithContext) -> bool {
    attr_view(b.block.attributes@, "keep-unique"@) is Some
}

spec fn ku_pattern(b: BlockWithContext) -> Seq<char> {
    match attr_view(b.block.attributes@, "keep-unique"@) { Some(p) => p, None => Seq::empty() }
}

/// `re` is the regex argument made from the block's OWN attribute value: none for an empty value,
/// else the compiled value (or the compile error)
spec fn ku_re_ok(b: BlockWithContext, re: Option<Result<regex::Regex, regex::Error>>) -> bool {
    if ku_pattern(b).len() == 0 {
        re is None
    } else {
        match re {
            Some(Ok(r)) => regex::compile_spec(ku_pattern(b)) == Some(r),
            Some(Err(_)) => regex::compile_spec(ku_pattern(b)) is None,
            None => false,
        }
    }
}

/// V2's proven contract, given that it returned Ok, read on the list of the block's own file
spec fn ku_inner_ok(b: BlockWithContext, fb: FileBlocks, re: Option<Result<regex::Regex, regex::Error>>, before: Seq<Violation>, after: Seq<Violation>) -> bool {
    let content = content_of(b.block, fb.file_content@);
    &&& ((forall|i: int| !#[trigger] is_dup(keys_of(re, content), i)) && !(re matches Some(Err(_))) ==> after == before)
    &&& ((exists|i: int| #[trigger] is_dup(keys_of(re, content), i)) ==> exists|i: int, v: Violation| first_dup(keys_of(re, content), i)
            && after == before.push(v) && #[trigger] key_range_ok(v, b.block, re, content, i) && v.code@ == "keep-unique"@)
    &&& !((re matches Some(Err(_))) && lines_of(content).len() > 0)
}

/// what block `j` of a file does to the file's list
spec fn ku_step(fb: FileBlocks, j: int, before: Seq<Violation>, after: Seq<Violation>) -> bool {
    let b = fb.blocks_with_context@[j];
    if !ku_has(b) {
        after == before // [VO2.post.other_blocks_untouched]
    } else {
        exists|re: Option<Result<regex::Regex, regex::Error>>| #[trigger] ku_re_ok(b, re) && ku_inner_ok(b, fb, re, before, after)
    }
}

spec fn ku_stepf() -> spec_fn(PathBuf, FileBlocks) -> spec_fn(int, Seq<Violation>, Seq<Violation>) -> bool {
    |f: PathBuf, fb: FileBlocks| (|j: int, a: Seq<Violation>, b: Seq<Violation>| ku_step(fb, j, a, b))
}

/// C13: some block carries an uncompilable keep-unique regex and has at least one content line
spec fn ku_must_err(ctx: ValidationContext) -> bool {
    exists|f: PathBuf, j: int| ctx.blocks@.contains_key(f) && 0 <= j < ctx.blocks@[f].blocks_with_context@.len()
        && ku_has(#[trigger] ctx.blocks@[f].blocks_with_context@[j])
        && ku_pattern(ctx.blocks@[f].blocks_with_context@[j]).len() > 0
        && regex::compile_spec(ku_pattern(ctx.blocks@[f].blocks_with_context@[j])) is None
        && lines_of(content_of(ctx.blocks@[f].blocks_with_context@[j].block, ctx.blocks@[f].file_content@)).len() > 0
}

impl KeepUniqueValidator {

//@stubof group=keep_unique unit=V2
        forall|k2: PathBuf| k2 != *file_path && #[trigger] final(violations)@.contains_key(k2) ==> old(violations)@.contains_key(k2), // [V2.stub.no_new_files_assumed]

#[verifier::loop_isolation(false)]
//@unit id=VO2 file=src/validators/keep_unique.rs fn=<<impl ValidatorSync for KeepUniqueValidator::validate>>
//@sig rule=E7 was=<<fn validate(&self, context: Arc<validators::ValidationContext>,) -> anyhow::Result<HashMap<PathBuf, Vec<Violation>>>>>
    fn validate(&self, context: Arc<ValidationContext>) -> (r: anyhow::Result<HashMap<PathBuf, Vec<Violation>>>)
//@contract
        requires
            ctx_blocks_wf(*context),
        ensures
            // the result is, per file and in block order, the accumulation of what V2 yields for every
            // block that carries `keep-unique` (called with that block's own regex, content and path);
            // other blocks contribute nothing; any hash iteration order
            r matches Ok(m) ==> outer_ok(*context, m@, ku_stepf()), // [VO2.post.result_is_accumulation_of_inner_results]
            // an inner Err is never swallowed
            ku_must_err(*context) ==> r is Err, // [VO2.post.err_propagates]
//@replaceslice rule=SLICE-CALL from=<<let mut seen>> to_block_end=1
Self::v2_loop(block_with_context, file_blocks, file_path, re, &mut violations)?;
//@edit rule=E19 find=<<let mut violations = HashMap::new()>>
let mut violations: HashMap<PathBuf, Vec<Violation>> = HashMap::new()
//@edit rule=ghost before=<<let mut violations>>
        broadcast use affx::group_affx;
//@edit rule=ghost before=<<for block_with_context in &file_blocks.blocks_with_context>>
            let ghost v0 = violations@;
            proof {
                assert(verif_ents@[it.index@ as int] == (file_path, file_blocks));
                lemma_file_start(verif_ents@, it.index@ as int, v0, ku_stepf());
            }
//@edit rule=E4 find=<<for (file_path, file_blocks) in &context.blocks>>
        let verif_ents = verif_ref_entries(&context.blocks);
        for (file_path, file_blocks) in it: verif_ents
            invariant
                ref_entries_of(verif_ents@, context.blocks@),
                ctx_blocks_wf(*context),
                visited_ok(verif_ents@, it.index@ as int, violations@, ku_stepf()),
//@foridx rule=E18 find=<<for block_with_context in &file_blocks.blocks_with_context>> idx=verif_j
                invariant
                    verif_j <= file_blocks.blocks_with_context@.len(),
                    0 <= it.index@ < verif_ents@.len(),
                    verif_ents@[it.index@ as int] == (file_path, file_blocks),
                    file_ok(*file_path, *file_blocks, verif_j as int, v0, violations@, ku_stepf()(*file_path, *file_blocks)),
                decreases file_blocks.blocks_with_context@.len() - verif_j,
//@edit rule=ghost after=<<verif_j = verif_j + 1;>>
                let ghost m1 = violations@;
                proof {
                    assert(*block_with_context == file_blocks.blocks_with_context@[verif_j - 1]);
                    assert(context.blocks@.contains_key(*file_path) && context.blocks@[*file_path] == *file_blocks);
                    assert(block_wf(context.blocks@[*file_path].blocks_with_context@[verif_j - 1].block));
                    if !ku_has(*block_with_context) {
                        lemma_file_step(*file_path, *file_blocks, verif_j - 1, v0, m1, m1, ku_stepf()(*file_path, *file_blocks));
                    }
                }
//@chain rule=E13 find=<<.cloned() .unwrap_or_default()>> to=verif_cloned_or_default count=all optional=1
//@edit rule=ghost before=<<Self::v2_loop(>>
                let ghost re0 = re;
                proof { assert(ku_has(*block_with_context) && ku_re_ok(*block_with_context, re0)); } // [VO2.proof.args_are_the_blocks_own]
//@edit rule=ghost after=<<file_path, re, &mut violations)?;>>
                proof {
                    assert(ku_inner_ok(*block_with_context, *file_blocks, re0, map_get_or_empty(m1, *file_path), map_get_or_empty(violations@, *file_path))); // [VO2.proof.inner_contract_gives_step]
                    lemma_file_step(*file_path, *file_blocks, verif_j - 1, v0, m1, violations@, ku_stepf()(*file_path, *file_blocks));
                }
//@edit rule=ghost before=<<} Ok(violations)>>
            proof { lemma_file_done(verif_ents@, it.index@ as int, v0, violations@, ku_stepf()); }
//@edit rule=ghost before=<<Ok(violations)>>
        proof {
            assert(outer_ok(*context, violations@, ku_stepf())) by {
                lemma_visited_all(*context, verif_ents@, violations@, ku_stepf());
            }
            assert(!ku_must_err(*context)) by { // [VO2.proof.must_err_block_cannot_have_stepped]
                if ku_must_err(*context) {
                    let (f, j) = choose|f: PathBuf, j: int| context.blocks@.contains_key(f) && 0 <= j < context.blocks@[f].blocks_with_context@.len()
                        && ku_has(#[trigger] context.blocks@[f].blocks_with_context@[j])
                        && ku_pattern(context.blocks@[f].blocks_with_context@[j]).len() > 0
                        && regex::compile_spec(ku_pattern(context.blocks@[f].blocks_with_context@[j])) is None
                        && lines_of(content_of(context.blocks@[f].blocks_with_context@[j].block, context.blocks@[f].file_content@)).len() > 0;
                    lemma_acc_step(ku_stepf()(f, context.blocks@[f]), context.blocks@[f].blocks_with_context@.len() as int, map_get_or_empty(violations@, f), j);
                }
            }
        }
//@end
} // impl
} // mod ku

} // verus!
fn main() {}
