// Group `validate_outer`: the OUTER loops (files x blocks, attribute lookup, argument preparation) of
// the four line validators' `validate`, with the already-verified inner part replaced by a CALL
// (rule SLICE-CALL) to an `external_body` stub that carries, textually, the inner slice's proven contract:
//   VO2  KeepUniqueValidator::validate   inner: V2  v2_loop               (group keep_unique)
//   VO3  LinePatternValidator::validate  inner: V3  v3_loop               (group line_pattern)
//   VO4  LineCountValidator::validate    inner: V4p parse_constraint, V4 v4_check (group line_count)
//   VO1  KeepSortedValidator::validate   inner: V1d v1_prefix, V1 v1_loop (group keep_sorted)
// Properties: C06-C09 (closes "validate passes the right things to the loop"), C13 (inner Err => Err),
// C20 (any hash iteration order), C02 (frame: the result does not depend on the modification flags).
use vstd::prelude::*;
use std::cmp::Ordering;
use std::collections::{HashMap, HashSet};
use std::ops::{Range, RangeInclusive};
use std::path::{Path, PathBuf};
use std::sync::Arc;

//@include prelude/anyhow.rs
//@include prelude/tstr_mod.rs
//@include prelude/regex.rs
//@include prelude/aff_axioms_mod.rs
use regex::Regex;

verus! {

//@include prelude/std_range.rs
//@include prelude/strings.rs
//@include prelude/sorting.rs
//@include prelude/domain.rs
//@include prelude/block_fns.rs
//@include prelude/aff_maps.rs
//@item file=src/validators/mod.rs kind=struct name=ValidationContext
//@include prelude/aff_outer.rs

// ==== keep-unique ===============================================================================================
mod ku {
use super::*;
broadcast use {vstd::std_specs::hash::group_hash_axioms, tstr::group_tstr, affx::group_affx};

//@item file=src/validators/keep_unique.rs kind=struct name=KeepUniqueValidator
//@copyfrom file=groups/keep_unique.rs from=<<// ---- specification>> until=<<impl KeepUniqueValidator {>>

/// the block carries the validator's attribute
spec fn ku_has(b: BlockWithContext) -> bool {
    attr_view(b.block.attributes@, "keep-unique"@) is Some
}

spec fn ku_pattern(b: BlockWithContext) -> Seq<char> {
    match attr_view(b.block.attributes@, "keep-unique"@) { Some(p) => p, None => Seq::empty() }
}

/// `re` is the regex argument made from the block's OWN attribute value: none for an empty value,
/// else the compiled value (or the compile error)
spec fn ku_re_ok(b: BlockWithContext, re: Option<Result<regex::Regex, regex::Error>>) -> bool {
    if ku_pattern(b).len() == 0 {
        re is None
    } else {
        match re {
            Some(Ok(r)) => regex::compile_spec(ku_pattern(b)) == Some(r),
            Some(Err(_)) => regex::compile_spec(ku_pattern(b)) is None,
            None => false,
        }
    }
}

/// V2's proven contract, given that it returned Ok, read on the list of the block's own file
spec fn ku_inner_ok(b: BlockWithContext, fb: FileBlocks, re: Option<Result<regex::Regex, regex::Error>>, before: Seq<Violation>, after: Seq<Violation>) -> bool {
    let content = content_of(b.block, fb.file_content@);
    &&& ((forall|i: int| !#[trigger] is_dup(keys_of(re, content), i)) && !(re matches Some(Err(_))) ==> after == before)
    &&& ((exists|i: int| #[trigger] is_dup(keys_of(re, content), i)) ==> exists|i: int, v: Violation| first_dup(keys_of(re, content), i)
            && after == before.push(v) && #[trigger] key_range_ok(v, b.block, re, content, i) && v.code@ == "keep-unique"@)
    &&& !((re matches Some(Err(_))) && lines_of(content).len() > 0)
}

/// what block `j` of a file does to the file's list
spec fn ku_step(fb: FileBlocks, j: int, before: Seq<Violation>, after: Seq<Violation>) -> bool {
    let b = fb.blocks_with_context@[j];
    if !ku_has(b) {
        after == before // [VO2.post.other_blocks_untouched]
    } else {
        exists|re: Option<Result<regex::Regex, regex::Error>>| #[trigger] ku_re_ok(b, re) && ku_inner_ok(b, fb, re, before, after)
    }
}

spec fn ku_stepf() -> spec_fn(PathBuf, FileBlocks) -> spec_fn(int, Seq<Violation>, Seq<Violation>) -> bool {
    |f: PathBuf, fb: FileBlocks| (|j: int, a: Seq<Violation>, b: Seq<Violation>| ku_step(fb, j, a, b))
}

/// C13: some block carries an uncompilable keep-unique regex and has at least one content line
spec fn ku_must_err(ctx: ValidationContext) -> bool {
    exists|f: PathBuf, j: int| ctx.blocks@.contains_key(f) && 0 <= j < ctx.blocks@[f].blocks_with_context@.len()
        && ku_has(#[trigger] ctx.blocks@[f].blocks_with_context@[j])
        && ku_pattern(ctx.blocks@[f].blocks_with_context@[j]).len() > 0
        && regex::compile_spec(ku_pattern(ctx.blocks@[f].blocks_with_context@[j])) is None
        && lines_of(content_of(ctx.blocks@[f].blocks_with_context@[j].block, ctx.blocks@[f].file_content@)).len() > 0
}

/// the inner contract does not promise Ok for this block (duplicate key, or regex error)
spec fn ku_block_may_err(b: BlockWithContext, fb: FileBlocks) -> bool {
    exists|re: Option<Result<regex::Regex, regex::Error>>| #[trigger] ku_re_ok(b, re)
        && !((forall|i: int| !#[trigger] is_dup(keys_of(re, content_of(b.block, fb.file_content@)), i)) && !(re matches Some(Err(_))))
}

spec fn ku_may_err(ctx: ValidationContext) -> bool {
    exists|f: PathBuf, j: int| ctx.blocks@.contains_key(f) && 0 <= j < ctx.blocks@[f].blocks_with_context@.len()
        && ku_has(#[trigger] ctx.blocks@[f].blocks_with_context@[j])
        && ku_block_may_err(ctx.blocks@[f].blocks_with_context@[j], ctx.blocks@[f])
}


proof fn lemma_ku_step_frame(fb1: FileBlocks, fb2: FileBlocks, j: int, a: Seq<Violation>, b: Seq<Violation>)
    requires 0 <= j < fb1.blocks_with_context@.len() == fb2.blocks_with_context@.len(), fb1.file_content@ == fb2.file_content@, fb1.blocks_with_context@[j].block == fb2.blocks_with_context@[j].block,
    ensures ku_step(fb1, j, a, b) == ku_step(fb2, j, a, b),
{
    let b1 = fb1.blocks_with_context@[j];
    let b2 = fb2.blocks_with_context@[j];
    assert forall|re: Option<Result<regex::Regex, regex::Error>>| (#[trigger] ku_re_ok(b1, re) && ku_inner_ok(b1, fb1, re, a, b)) == (ku_re_ok(b2, re) && ku_inner_ok(b2, fb2, re, a, b)) by {}
    if ku_has(b1) {
        if ku_step(fb1, j, a, b) {
            let re = choose|re: Option<Result<regex::Regex, regex::Error>>| #[trigger] ku_re_ok(b1, re) && ku_inner_ok(b1, fb1, re, a, b);
            assert(ku_re_ok(b2, re) && ku_inner_ok(b2, fb2, re, a, b));
        }
        if ku_step(fb2, j, a, b) {
            let re = choose|re: Option<Result<regex::Regex, regex::Error>>| #[trigger] ku_re_ok(b2, re) && ku_inner_ok(b2, fb2, re, a, b);
            assert(ku_re_ok(b1, re) && ku_inner_ok(b1, fb1, re, a, b));
        }
    }
}

/// [VO2.lemma.flags_are_not_an_input] C02 frame: which lists the blocks of a file can leave behind does not
/// depend on `is_content_modified` / `_is_start_tag_modified` (no contract mentions them)
proof fn lemma_ku_frame(f: PathBuf, fb1: FileBlocks, fb2: FileBlocks, l: Seq<Violation>)
    requires same_but_flags(fb1, fb2),
    ensures acc_ok(ku_stepf()(f, fb1), fb1.blocks_with_context@.len() as int, l) == acc_ok(ku_stepf()(f, fb2), fb2.blocks_with_context@.len() as int, l),
{
    assert forall|j: int, a: Seq<Violation>, b: Seq<Violation>| 0 <= j < fb1.blocks_with_context@.len()
        implies #[trigger] ku_stepf()(f, fb1)(j, a, b) == ku_stepf()(f, fb2)(j, a, b) by {
        assert(fb1.blocks_with_context@[j].block == fb2.blocks_with_context@[j].block);
        lemma_ku_step_frame(fb1, fb2, j, a, b);
    }
    lemma_acc_congruent(ku_stepf()(f, fb1), ku_stepf()(f, fb2), fb1.blocks_with_context@.len() as int, l);
}

impl KeepUniqueValidator {

//@stubof group=keep_unique unit=V2

#[verifier::loop_isolation(false)]
//@unit id=VO2 file=src/validators/keep_unique.rs fn=<<impl ValidatorSync for KeepUniqueValidator::validate>>
//@sig rule=E7 was=<<fn validate(&self, context: Arc<validators::ValidationContext>,) -> anyhow::Result<HashMap<PathBuf, Vec<Violation>>>>>
    fn validate(&self, context: Arc<ValidationContext>) -> (r: anyhow::Result<HashMap<PathBuf, Vec<Violation>>>)
//@contract
        requires
            ctx_blocks_wf(*context),
        ensures
            // the result is, per file and in block order, the accumulation of what V2 yields for every
            // block that carries `keep-unique` (called with that block's own regex, content and path);
            // other blocks contribute nothing; any hash iteration order
            r matches Ok(m) ==> outer_ok(*context, m@, ku_stepf()), // [VO2.post.result_is_accumulation_of_inner_results]
            // an inner Err is never swallowed
            ku_must_err(*context) ==> r is Err, // [VO2.post.err_propagates]
            // an error is not invented: it needs a block with the attribute for which the inner contract allows Err
            r is Err ==> ku_may_err(*context), // [VO2.post.err_only_from_inner]
//@replaceslice rule=SLICE-CALL of=keep_unique:V2
Self::v2_loop(block_with_context, file_blocks, file_path, re, &mut violations)?;
//@macro rule=E1 name=anyhow to=<<anyhow::verif_err()>> optional=1
//@edit rule=E19 find=<<let mut violations = HashMap::new()>>
let mut violations: HashMap<PathBuf, Vec<Violation>> = HashMap::new()
//@edit rule=ghost before=<<let mut violations>>
        broadcast use affx::group_affx;
//@edit rule=ghost before=<<for block_with_context in &file_blocks.blocks_with_context>>
            let ghost v0 = violations@;
            proof {
                assert(verif_ents@[it.index@ as int] == (file_path, file_blocks));
                lemma_file_start(verif_ents@, it.index@ as int, v0, ku_stepf()); // [VO2.proof.each_file_visited_once]
            }
//@edit rule=E4 find=<<for (file_path, file_blocks) in &context.blocks>>
        let verif_ents = verif_ref_entries(&context.blocks);
        for (file_path, file_blocks) in it: verif_ents
            invariant
                ref_entries_of(verif_ents@, context.blocks@),
                ctx_blocks_wf(*context),
                visited_ok(verif_ents@, it.index@ as int, violations@, ku_stepf()),
//@foridx rule=E18 find=<<for block_with_context in &file_blocks.blocks_with_context>> idx=verif_j
                invariant
                    verif_j <= file_blocks.blocks_with_context@.len(),
                    0 <= it.index@ < verif_ents@.len(),
                    verif_ents@[it.index@ as int] == (file_path, file_blocks),
                    file_ok(*file_path, *file_blocks, verif_j as int, v0, violations@, ku_stepf()(*file_path, *file_blocks)),
                decreases file_blocks.blocks_with_context@.len() - verif_j,
//@edit rule=ghost after=<<verif_j = verif_j + 1;>>
                let ghost m1 = violations@;
                proof {
                    assert(*block_with_context == file_blocks.blocks_with_context@[verif_j - 1]);
                    assert(context.blocks@.contains_key(*file_path) && context.blocks@[*file_path] == *file_blocks);
                    assert(block_wf(context.blocks@[*file_path].blocks_with_context@[verif_j - 1].block));
                    if !ku_has(*block_with_context) {
                        lemma_file_step(*file_path, *file_blocks, verif_j - 1, v0, m1, m1, ku_stepf()(*file_path, *file_blocks)); // [VO2.proof.block_without_attribute_is_skipped]
                    }
                }
//@chain rule=E13 find=<<.cloned() .unwrap_or_default()>> to=verif_cloned_or_default count=all optional=1
//@edit rule=ghost before=<<Self::v2_loop(>>
                let ghost re0 = re;
                proof { assert(ku_has(*block_with_context) && ku_re_ok(*block_with_context, re0)); } // [VO2.proof.args_are_the_blocks_own]
//@edit rule=ghost after=<<file_path, re, &mut violations)?;>>
                proof {
                    assert(ku_inner_ok(*block_with_context, *file_blocks, re0, map_get_or_empty(m1, *file_path), map_get_or_empty(violations@, *file_path))); // [VO2.proof.inner_contract_implies_step_relation]
                    lemma_file_step(*file_path, *file_blocks, verif_j - 1, v0, m1, violations@, ku_stepf()(*file_path, *file_blocks)); // [VO2.proof.inner_contract_gives_step]
                }
//@edit rule=ghost before=<<} Ok(violations)>>
            proof { lemma_file_done(verif_ents@, it.index@ as int, v0, violations@, ku_stepf()); } // [VO2.proof.file_done]
//@edit rule=ghost before=<<Ok(violations)>>
        proof {
            assert(outer_ok(*context, violations@, ku_stepf())) by {
                lemma_visited_all(*context, verif_ents@, violations@, ku_stepf());
            }
            assert(!ku_must_err(*context)) by { // [VO2.proof.must_err_block_cannot_have_stepped]
                if ku_must_err(*context) {
                    let (f, j) = choose|f: PathBuf, j: int| context.blocks@.contains_key(f) && 0 <= j < context.blocks@[f].blocks_with_context@.len()
                        && ku_has(#[trigger] context.blocks@[f].blocks_with_context@[j])
                        && ku_pattern(context.blocks@[f].blocks_with_context@[j]).len() > 0
                        && regex::compile_spec(ku_pattern(context.blocks@[f].blocks_with_context@[j])) is None
                        && lines_of(content_of(context.blocks@[f].blocks_with_context@[j].block, context.blocks@[f].file_content@)).len() > 0;
                    lemma_acc_step(ku_stepf()(f, context.blocks@[f]), context.blocks@[f].blocks_with_context@.len() as int, map_get_or_empty(violations@, f), j);
                }
            }
        }
//@end
} // impl
} // mod ku

// ==== line-pattern ==============================================================================================
mod lp {
use super::*;
broadcast use {vstd::std_specs::hash::group_hash_axioms, tstr::group_tstr, affx::group_affx};

//@item file=src/validators/line_pattern.rs kind=struct name=LinePatternValidator
//@item file=src/validators/line_pattern.rs kind=struct name=LinePatternViolation
//@copyfrom file=groups/line_pattern.rs from=<<// ---- specification>> until=<<impl LinePatternValidator {>>

spec fn lp_has(b: BlockWithContext) -> bool {
    attr_view(b.block.attributes@, "line-pattern"@) is Some
}

/// the block's OWN attribute value
spec fn lp_pattern(b: BlockWithContext) -> Seq<char> {
    attr_view(b.block.attributes@, "line-pattern"@).unwrap()
}

/// V3's proven contract, given that it returned Ok, read on the list of the block's own file
spec fn lp_inner_ok(b: BlockWithContext, fb: FileBlocks, pattern: Seq<char>, before: Seq<Violation>, after: Seq<Violation>) -> bool {
    let lines = lines_of(content_of(b.block, fb.file_content@));
    &&& regex::compile_spec(pattern) is Some
    &&& ((forall|i: int| !#[trigger] first_failing(regex::compile_spec(pattern).unwrap(), lines, i)) ==> after == before)
    &&& ((exists|i: int| #[trigger] first_failing(regex::compile_spec(pattern).unwrap(), lines, i)) ==> exists|i: int, v: Violation|
            first_failing(regex::compile_spec(pattern).unwrap(), lines, i) && after == before.push(v)
            && #[trigger] trimmed_range_ok(v, b.block, lines[i], i) && v.code@ == "line-pattern"@)
}

spec fn lp_step(fb: FileBlocks, j: int, before: Seq<Violation>, after: Seq<Violation>) -> bool {
    let b = fb.blocks_with_context@[j];
    if !lp_has(b) {
        after == before // [VO3.post.other_blocks_untouched]
    } else {
        lp_inner_ok(b, fb, lp_pattern(b), before, after)
    }
}

spec fn lp_stepf() -> spec_fn(PathBuf, FileBlocks) -> spec_fn(int, Seq<Violation>, Seq<Violation>) -> bool {
    |f: PathBuf, fb: FileBlocks| (|j: int, a: Seq<Violation>, b: Seq<Violation>| lp_step(fb, j, a, b))
}

/// C13: some block carries a `line-pattern` that does not compile
spec fn lp_must_err(ctx: ValidationContext) -> bool {
    exists|f: PathBuf, j: int| ctx.blocks@.contains_key(f) && 0 <= j < ctx.blocks@[f].blocks_with_context@.len()
        && lp_has(#[trigger] ctx.blocks@[f].blocks_with_context@[j])
        && regex::compile_spec(lp_pattern(ctx.blocks@[f].blocks_with_context@[j])) is None
}

/// the inner contract does not promise Ok for this block (bad regex, or some line fails)
spec fn lp_block_may_err(b: BlockWithContext, fb: FileBlocks) -> bool {
    !(regex::compile_spec(lp_pattern(b)) is Some && forall|i: int| !#[trigger] first_failing(regex::compile_spec(lp_pattern(b)).unwrap(),
        lines_of(content_of(b.block, fb.file_content@)), i))
}

spec fn lp_may_err(ctx: ValidationContext) -> bool {
    exists|f: PathBuf, j: int| ctx.blocks@.contains_key(f) && 0 <= j < ctx.blocks@[f].blocks_with_context@.len()
        && lp_has(#[trigger] ctx.blocks@[f].blocks_with_context@[j])
        && lp_block_may_err(ctx.blocks@[f].blocks_with_context@[j], ctx.blocks@[f])
}


proof fn lemma_lp_step_frame(fb1: FileBlocks, fb2: FileBlocks, j: int, a: Seq<Violation>, b: Seq<Violation>)
    requires 0 <= j < fb1.blocks_with_context@.len() == fb2.blocks_with_context@.len(), fb1.file_content@ == fb2.file_content@, fb1.blocks_with_context@[j].block == fb2.blocks_with_context@[j].block,
    ensures lp_step(fb1, j, a, b) == lp_step(fb2, j, a, b),
{
}

/// [VO3.lemma.flags_are_not_an_input] C02 frame: which lists the blocks of a file can leave behind does not
/// depend on `is_content_modified` / `_is_start_tag_modified` (no contract mentions them)
proof fn lemma_lp_frame(f: PathBuf, fb1: FileBlocks, fb2: FileBlocks, l: Seq<Violation>)
    requires same_but_flags(fb1, fb2),
    ensures acc_ok(lp_stepf()(f, fb1), fb1.blocks_with_context@.len() as int, l) == acc_ok(lp_stepf()(f, fb2), fb2.blocks_with_context@.len() as int, l),
{
    assert forall|j: int, a: Seq<Violation>, b: Seq<Violation>| 0 <= j < fb1.blocks_with_context@.len()
        implies #[trigger] lp_stepf()(f, fb1)(j, a, b) == lp_stepf()(f, fb2)(j, a, b) by {
        assert(fb1.blocks_with_context@[j].block == fb2.blocks_with_context@[j].block);
        lemma_lp_step_frame(fb1, fb2, j, a, b);
    }
    lemma_acc_congruent(lp_stepf()(f, fb1), lp_stepf()(f, fb2), fb1.blocks_with_context@.len() as int, l);
}

impl LinePatternValidator {

//@stubof group=line_pattern unit=V3

#[verifier::loop_isolation(false)]
//@unit id=VO3 file=src/validators/line_pattern.rs fn=<<impl ValidatorSync for LinePatternValidator::validate>>
//@sig rule=E7 was=<<fn validate(&self, context: Arc<validators::ValidationContext>,) -> anyhow::Result<HashMap<PathBuf, Vec<Violation>>>>>
    fn validate(&self, context: Arc<ValidationContext>) -> (r: anyhow::Result<HashMap<PathBuf, Vec<Violation>>>)
//@contract
        requires
            ctx_blocks_wf(*context),
        ensures
            r matches Ok(m) ==> outer_ok(*context, m@, lp_stepf()), // [VO3.post.result_is_accumulation_of_inner_results]
            lp_must_err(*context) ==> r is Err, // [VO3.post.err_propagates]
            // an error is not invented: it needs a block with the attribute for which the inner contract allows Err
            r is Err ==> lp_may_err(*context), // [VO3.post.err_only_from_inner]
//@replaceslice rule=SLICE-CALL of=line_pattern:V3
Self::v3_loop(block_with_context, file_blocks, file_path, pattern, &mut violations)?;
//@macro rule=E1 name=anyhow to=<<anyhow::verif_err()>> optional=1
//@edit rule=E19 find=<<let mut violations = HashMap::new()>>
let mut violations: HashMap<PathBuf, Vec<Violation>> = HashMap::new()
//@edit rule=ghost before=<<let mut violations>>
        broadcast use affx::group_affx;
//@edit rule=ghost before=<<for block_with_context in &file_blocks.blocks_with_context>>
            let ghost v0 = violations@;
            proof {
                assert(verif_ents@[it.index@ as int] == (file_path, file_blocks));
                lemma_file_start(verif_ents@, it.index@ as int, v0, lp_stepf()); // [VO3.proof.each_file_visited_once]
            }
//@edit rule=E4 find=<<for (file_path, file_blocks) in &context.blocks>>
        let verif_ents = verif_ref_entries(&context.blocks);
        for (file_path, file_blocks) in it: verif_ents
            invariant
                ref_entries_of(verif_ents@, context.blocks@),
                ctx_blocks_wf(*context),
                visited_ok(verif_ents@, it.index@ as int, violations@, lp_stepf()),
//@foridx rule=E18 find=<<for block_with_context in &file_blocks.blocks_with_context>> idx=verif_j
                invariant
                    verif_j <= file_blocks.blocks_with_context@.len(),
                    0 <= it.index@ < verif_ents@.len(),
                    verif_ents@[it.index@ as int] == (file_path, file_blocks),
                    file_ok(*file_path, *file_blocks, verif_j as int, v0, violations@, lp_stepf()(*file_path, *file_blocks)),
                decreases file_blocks.blocks_with_context@.len() - verif_j,
//@edit rule=ghost after=<<verif_j = verif_j + 1;>>
                let ghost m1 = violations@;
                proof {
                    assert(*block_with_context == file_blocks.blocks_with_context@[verif_j - 1]);
                    assert(context.blocks@.contains_key(*file_path) && context.blocks@[*file_path] == *file_blocks);
                    assert(block_wf(context.blocks@[*file_path].blocks_with_context@[verif_j - 1].block));
                    if !lp_has(*block_with_context) {
                        lemma_file_step(*file_path, *file_blocks, verif_j - 1, v0, m1, m1, lp_stepf()(*file_path, *file_blocks)); // [VO3.proof.block_without_attribute_is_skipped]
                    }
                }
//@edit rule=ghost before=<<Self::v3_loop(>>
                proof { assert(lp_has(*block_with_context) && pattern@ == lp_pattern(*block_with_context)); } // [VO3.proof.args_are_the_blocks_own]
//@edit rule=ghost after=<<file_path, pattern, &mut violations)?;>>
                proof {
                    assert(lp_inner_ok(*block_with_context, *file_blocks, pattern@, map_get_or_empty(m1, *file_path), map_get_or_empty(violations@, *file_path))); // [VO3.proof.inner_contract_implies_step_relation]
                    lemma_file_step(*file_path, *file_blocks, verif_j - 1, v0, m1, violations@, lp_stepf()(*file_path, *file_blocks)); // [VO3.proof.inner_contract_gives_step]
                }
//@edit rule=ghost before=<<} Ok(violations)>>
            proof { lemma_file_done(verif_ents@, it.index@ as int, v0, violations@, lp_stepf()); } // [VO3.proof.file_done]
//@edit rule=ghost before=<<Ok(violations)>>
        proof {
            assert(outer_ok(*context, violations@, lp_stepf())) by {
                lemma_visited_all(*context, verif_ents@, violations@, lp_stepf());
            }
            assert(!lp_must_err(*context)) by { // [VO3.proof.must_err_block_cannot_have_stepped]
                if lp_must_err(*context) {
                    let (f, j) = choose|f: PathBuf, j: int| context.blocks@.contains_key(f) && 0 <= j < context.blocks@[f].blocks_with_context@.len()
                        && lp_has(#[trigger] context.blocks@[f].blocks_with_context@[j])
                        && regex::compile_spec(lp_pattern(context.blocks@[f].blocks_with_context@[j])) is None;
                    lemma_acc_step(lp_stepf()(f, context.blocks@[f]), context.blocks@[f].blocks_with_context@.len() as int, map_get_or_empty(violations@, f), j);
                }
            }
        }
//@end
} // impl
} // mod lp

// ==== line-count ================================================================================================
mod lc {
use super::*;
broadcast use {vstd::std_specs::hash::group_hash_axioms, tstr::group_tstr, affx::group_affx};

//@item file=src/validators/line_count.rs kind=struct name=LineCountValidator
//@item file=src/validators/line_count.rs kind=struct name=LineCountViolation
//@item file=src/validators/line_count.rs kind=enum name=Op
//@copyfrom file=groups/line_count.rs from=<<// ---- specification>> until=<<impl Op {>>
//@copyfrom file=groups/line_count.rs from=<</// C09: "the number of its non-blank>> until=<<impl LineCountValidator {>>

spec fn lc_has(b: BlockWithContext) -> bool {
    attr_view(b.block.attributes@, "line-count"@) is Some
}

/// the block's OWN attribute value
spec fn lc_expr(b: BlockWithContext) -> Seq<char> {
    attr_view(b.block.attributes@, "line-count"@).unwrap()
}

/// the one diagnostic V4 produces: code, start-tag range, payload (actual, op, bound)
spec fn lc_viol_ok(v: Violation, d: serde_json::Value, b: BlockWithContext, fb: FileBlocks, op: Op, expected: usize) -> bool {
    &&& v.code@ == "line-count"@
    &&& v.range.start == b.block.start_tag_position_range@.start
    &&& v.range.end == b.block.start_tag_position_range@.end
    &&& v.data == Some(d)
    &&& exists|payload: LineCountViolation| #[trigger] serde_json::value_encodes(d, payload)
            && payload.actual == nonblank_count(content_of(b.block, fb.file_content@))
            && payload.op@ == op_token(op) && payload.expected == expected
}

/// V4's proven contract, given that it returned Ok, read on the list of the block's own file
spec fn lc_inner_ok(b: BlockWithContext, fb: FileBlocks, op: Op, expected: usize, before: Seq<Violation>, after: Seq<Violation>) -> bool {
    let actual = nonblank_count(content_of(b.block, fb.file_content@)) as int;
    &&& (op_holds(op, actual, expected as int) ==> after == before)
    &&& (!op_holds(op, actual, expected as int) ==> exists|v: Violation, d: serde_json::Value|
            after == before.push(v) && #[trigger] lc_viol_ok(v, d, b, fb, op, expected))
}

/// the block's own `line-count` value must parse (V4p), and V4 is applied to the parsed (op, bound)
spec fn lc_step(fb: FileBlocks, j: int, before: Seq<Violation>, after: Seq<Violation>) -> bool {
    let b = fb.blocks_with_context@[j];
    if !lc_has(b) {
        after == before // [VO4.post.other_blocks_untouched]
    } else {
        constraint_of(lc_expr(b)) is Some
            && lc_inner_ok(b, fb, constraint_of(lc_expr(b)).unwrap().0, constraint_of(lc_expr(b)).unwrap().1, before, after)
    }
}

spec fn lc_stepf() -> spec_fn(PathBuf, FileBlocks) -> spec_fn(int, Seq<Violation>, Seq<Violation>) -> bool {
    |f: PathBuf, fb: FileBlocks| (|j: int, a: Seq<Violation>, b: Seq<Violation>| lc_step(fb, j, a, b))
}

/// C13: some block carries a bad `line-count` expression
spec fn lc_must_err(ctx: ValidationContext) -> bool {
    exists|f: PathBuf, j: int| ctx.blocks@.contains_key(f) && 0 <= j < ctx.blocks@[f].blocks_with_context@.len()
        && lc_has(#[trigger] ctx.blocks@[f].blocks_with_context@[j])
        && constraint_of(lc_expr(ctx.blocks@[f].blocks_with_context@[j])) is None
}

/// the inner contracts do not promise Ok for this block (bad expression, or the bound is broken)
spec fn lc_block_may_err(b: BlockWithContext, fb: FileBlocks) -> bool {
    constraint_of(lc_expr(b)) is None
        || !op_holds(constraint_of(lc_expr(b)).unwrap().0, nonblank_count(content_of(b.block, fb.file_content@)) as int, constraint_of(lc_expr(b)).unwrap().1 as int)
}

spec fn lc_may_err(ctx: ValidationContext) -> bool {
    exists|f: PathBuf, j: int| ctx.blocks@.contains_key(f) && 0 <= j < ctx.blocks@[f].blocks_with_context@.len()
        && lc_has(#[trigger] ctx.blocks@[f].blocks_with_context@[j])
        && lc_block_may_err(ctx.blocks@[f].blocks_with_context@[j], ctx.blocks@[f])
}


proof fn lemma_lc_step_frame(fb1: FileBlocks, fb2: FileBlocks, j: int, a: Seq<Violation>, b: Seq<Violation>)
    requires 0 <= j < fb1.blocks_with_context@.len() == fb2.blocks_with_context@.len(), fb1.file_content@ == fb2.file_content@, fb1.blocks_with_context@[j].block == fb2.blocks_with_context@[j].block,
    ensures lc_step(fb1, j, a, b) == lc_step(fb2, j, a, b),
{
    let b1 = fb1.blocks_with_context@[j];
    let b2 = fb2.blocks_with_context@[j];
    if lc_has(b1) && constraint_of(lc_expr(b1)) is Some {
        let op = constraint_of(lc_expr(b1)).unwrap().0;
        let n = constraint_of(lc_expr(b1)).unwrap().1;
        if !op_holds(op, nonblank_count(content_of(b1.block, fb1.file_content@)) as int, n as int) {
            if lc_step(fb1, j, a, b) {
                let (v, d) = choose|v: Violation, d: serde_json::Value| b == a.push(v) && #[trigger] lc_viol_ok(v, d, b1, fb1, op, n);
                assert(b == a.push(v) && lc_viol_ok(v, d, b2, fb2, op, n));
            }
            if lc_step(fb2, j, a, b) {
                let (v, d) = choose|v: Violation, d: serde_json::Value| b == a.push(v) && #[trigger] lc_viol_ok(v, d, b2, fb2, op, n);
                assert(b == a.push(v) && lc_viol_ok(v, d, b1, fb1, op, n));
            }
        }
    }
}

/// [VO4.lemma.flags_are_not_an_input] C02 frame: which lists the blocks of a file can leave behind does not
/// depend on `is_content_modified` / `_is_start_tag_modified` (no contract mentions them)
proof fn lemma_lc_frame(f: PathBuf, fb1: FileBlocks, fb2: FileBlocks, l: Seq<Violation>)
    requires same_but_flags(fb1, fb2),
    ensures acc_ok(lc_stepf()(f, fb1), fb1.blocks_with_context@.len() as int, l) == acc_ok(lc_stepf()(f, fb2), fb2.blocks_with_context@.len() as int, l),
{
    assert forall|j: int, a: Seq<Violation>, b: Seq<Violation>| 0 <= j < fb1.blocks_with_context@.len()
        implies #[trigger] lc_stepf()(f, fb1)(j, a, b) == lc_stepf()(f, fb2)(j, a, b) by {
        assert(fb1.blocks_with_context@[j].block == fb2.blocks_with_context@[j].block);
        lemma_lc_step_frame(fb1, fb2, j, a, b);
    }
    lemma_acc_congruent(lc_stepf()(f, fb1), lc_stepf()(f, fb2), fb1.blocks_with_context@.len() as int, l);
}

//@stubof group=line_count unit=V4p

impl LineCountValidator {

//@stubof group=line_count unit=V4

#[verifier::loop_isolation(false)]
//@unit id=VO4 file=src/validators/line_count.rs fn=<<impl ValidatorSync for LineCountValidator::validate>>
//@sig rule=E7 was=<<fn validate(&self, context: Arc<validators::ValidationContext>,) -> anyhow::Result<HashMap<PathBuf, Vec<Violation>>>>>
    fn validate(&self, context: Arc<ValidationContext>) -> (r: anyhow::Result<HashMap<PathBuf, Vec<Violation>>>)
//@contract
        requires
            ctx_blocks_wf(*context),
        ensures
            r matches Ok(m) ==> outer_ok(*context, m@, lc_stepf()), // [VO4.post.result_is_accumulation_of_inner_results]
            lc_must_err(*context) ==> r is Err, // [VO4.post.err_propagates]
            // an error is not invented: it needs a block with the attribute for which the inner contract allows Err
            r is Err ==> lc_may_err(*context), // [VO4.post.err_only_from_inner]
//@replaceslice rule=SLICE-CALL of=line_count:V4
Self::v4_check(block_with_context, file_blocks, file_path, op, expected, &mut violations)?;
//@edit rule=E19 find=<<let mut violations = HashMap::new()>>
let mut violations: HashMap<PathBuf, Vec<Violation>> = HashMap::new()
//@edit rule=ghost before=<<let mut violations>>
        broadcast use affx::group_affx;
//@edit rule=ghost before=<<for block_with_context in &file_blocks.blocks_with_context>>
            let ghost v0 = violations@;
            proof {
                assert(verif_ents@[it.index@ as int] == (file_path, file_blocks));
                lemma_file_start(verif_ents@, it.index@ as int, v0, lc_stepf()); // [VO4.proof.each_file_visited_once]
            }
//@edit rule=E4 find=<<for (file_path, file_blocks) in &context.blocks>>
        let verif_ents = verif_ref_entries(&context.blocks);
        for (file_path, file_blocks) in it: verif_ents
            invariant
                ref_entries_of(verif_ents@, context.blocks@),
                ctx_blocks_wf(*context),
                visited_ok(verif_ents@, it.index@ as int, violations@, lc_stepf()),
//@foridx rule=E18 find=<<for block_with_context in &file_blocks.blocks_with_context>> idx=verif_j
                invariant
                    verif_j <= file_blocks.blocks_with_context@.len(),
                    0 <= it.index@ < verif_ents@.len(),
                    verif_ents@[it.index@ as int] == (file_path, file_blocks),
                    file_ok(*file_path, *file_blocks, verif_j as int, v0, violations@, lc_stepf()(*file_path, *file_blocks)),
                decreases file_blocks.blocks_with_context@.len() - verif_j,
//@edit rule=ghost after=<<verif_j = verif_j + 1;>>
                let ghost m1 = violations@;
                proof {
                    assert(*block_with_context == file_blocks.blocks_with_context@[verif_j - 1]);
                    assert(context.blocks@.contains_key(*file_path) && context.blocks@[*file_path] == *file_blocks);
                    assert(block_wf(context.blocks@[*file_path].blocks_with_context@[verif_j - 1].block));
                    if !lc_has(*block_with_context) {
                        lemma_file_step(*file_path, *file_blocks, verif_j - 1, v0, m1, m1, lc_stepf()(*file_path, *file_blocks)); // [VO4.proof.block_without_attribute_is_skipped]
                    }
                }
//@macro rule=E1 name=anyhow to=<<anyhow::verif_err()>>
//@closure rule=E12 find=<<|e|>> params=<<|e: anyhow::Error|>> ret=<<e2: anyhow::Error>>
//@edit rule=ghost before=<<Self::v4_check(>>
                proof { assert(lc_has(*block_with_context) && constraint_of(lc_expr(*block_with_context)) == Some((op, expected))); } // [VO4.proof.args_are_the_blocks_own]
//@edit rule=ghost after=<<file_path, op, expected, &mut violations)?;>>
                proof {
                    assert(lc_inner_ok(*block_with_context, *file_blocks, op, expected, map_get_or_empty(m1, *file_path), map_get_or_empty(violations@, *file_path))) by { // [VO4.proof.inner_contract_implies_step_relation]
                        if !op_holds(op, nonblank_count(content_of(block_with_context.block, file_blocks.file_content@)) as int, expected as int) {
                            let (v, d) = choose|v: Violation, d: serde_json::Value|
                                   violations@.dom() == m1.dom().insert(*file_path)
                                && violations@[*file_path]@ == map_get_or_empty(m1, *file_path).push(v)
                                && v.code@ == "line-count"@
                                && v.range.start == block_with_context.block.start_tag_position_range@.start
                                && v.range.end == block_with_context.block.start_tag_position_range@.end
                                && v.data == Some(d) && exists|payload: LineCountViolation| #[trigger] serde_json::value_encodes(d, payload)
                                    && payload.actual == nonblank_count(content_of(block_with_context.block, file_blocks.file_content@))
                                    && payload.op@ == op_token(op) && payload.expected == expected;
                            assert(lc_viol_ok(v, d, *block_with_context, *file_blocks, op, expected));
                        }
                    }
                    lemma_file_step(*file_path, *file_blocks, verif_j - 1, v0, m1, violations@, lc_stepf()(*file_path, *file_blocks)); // [VO4.proof.inner_contract_gives_step]
                }
//@edit rule=ghost before=<<} Ok(violations)>>
            proof { lemma_file_done(verif_ents@, it.index@ as int, v0, violations@, lc_stepf()); } // [VO4.proof.file_done]
//@edit rule=ghost before=<<Ok(violations)>>
        proof {
            assert(outer_ok(*context, violations@, lc_stepf())) by {
                lemma_visited_all(*context, verif_ents@, violations@, lc_stepf());
            }
            assert(!lc_must_err(*context)) by { // [VO4.proof.must_err_block_cannot_have_stepped]
                if lc_must_err(*context) {
                    let (f, j) = choose|f: PathBuf, j: int| context.blocks@.contains_key(f) && 0 <= j < context.blocks@[f].blocks_with_context@.len()
                        && lc_has(#[trigger] context.blocks@[f].blocks_with_context@[j])
                        && constraint_of(lc_expr(context.blocks@[f].blocks_with_context@[j])) is None;
                    lemma_acc_step(lc_stepf()(f, context.blocks@[f]), context.blocks@[f].blocks_with_context@.len() as int, map_get_or_empty(violations@, f), j);
                }
            }
        }
//@end
} // impl
} // mod lc

// ==== keep-sorted ===============================================================================================
mod ks {
use super::*;
broadcast use {vstd::std_specs::hash::group_hash_axioms, tstr::group_tstr, affx::group_affx};

//@item file=src/validators/keep_sorted.rs kind=enum name=SortFormat
//@item file=src/validators/keep_sorted.rs kind=struct name=KeepSortedValidator
//@item file=src/validators/keep_sorted.rs kind=struct name=KeepSortedViolation
//@copyfrom file=groups/keep_sorted.rs from=<<// strum's>> until=<<impl SortFormat {>> until_nth=2

spec fn ks_has(b: BlockWithContext) -> bool {
    attr_view(b.block.attributes@, "keep-sorted"@) is Some
}

/// the block's OWN attribute value
spec fn ks_value(b: BlockWithContext) -> Seq<char> {
    attr_view(b.block.attributes@, "keep-sorted"@).unwrap()
}

/// V1d's proven contract given Ok: (regex, format, violating order) come from the block's OWN attributes
spec fn ks_args_ok(b: BlockWithContext, re: Option<Result<regex::Regex, regex::Error>>, fmt: SortFormat, viol: Ordering) -> bool {
    &&& direction_spec(ks_value(b)) == Some(viol == Ordering::Greater)
    &&& (viol == Ordering::Greater || viol == Ordering::Less)
    &&& format_spec(b.block.attributes@) == Some(fmt)
    &&& (pattern_spec(b.block.attributes@).len() == 0 ==> re is None)
    &&& (pattern_spec(b.block.attributes@).len() > 0 ==> (match re {
            Some(Ok(r)) => regex::compile_spec(pattern_spec(b.block.attributes@)) == Some(r),
            Some(Err(_)) => regex::compile_spec(pattern_spec(b.block.attributes@)) is None,
            None => false,
        }))
}

/// V1's proven contract, given that it returned Ok, read on the list of the block's own file
spec fn ks_inner_ok(b: BlockWithContext, fb: FileBlocks, re: Option<Result<regex::Regex, regex::Error>>, fmt: SortFormat, viol: Ordering,
    before: Seq<Violation>, after: Seq<Violation>) -> bool {
    let content = content_of(b.block, fb.file_content@);
    &&& ((forall|i: int| !#[trigger] out_of_order(fmt, viol, keys_of(re, content), i)) && (forall|i: int| !#[trigger] cmp_fails(fmt, keys_of(re, content), i))
            && !(re matches Some(Err(_))) ==> after == before)
    &&& (forall|i: int| #[trigger] first_stop(fmt, viol, keys_of(re, content), i) && out_of_order(fmt, viol, keys_of(re, content), i)
            ==> exists|v: Violation| after == before.push(v) && #[trigger] key_range_ok(v, b.block, re, content, i) && v.code@ == "keep-sorted"@)
    &&& (forall|i: int| !(#[trigger] first_stop(fmt, viol, keys_of(re, content), i) && cmp_fails(fmt, keys_of(re, content), i)))
    &&& !((re matches Some(Err(_))) && lines_of(content).len() > 0)
}

spec fn ks_step(fb: FileBlocks, j: int, before: Seq<Violation>, after: Seq<Violation>) -> bool {
    let b = fb.blocks_with_context@[j];
    if !ks_has(b) {
        after == before // [VO1.post.other_blocks_untouched]
    } else {
        exists|re: Option<Result<regex::Regex, regex::Error>>, fmt: SortFormat, viol: Ordering|
            #[trigger] ks_args_ok(b, re, fmt, viol) && ks_inner_ok(b, fb, re, fmt, viol, before, after)
    }
}

spec fn ks_stepf() -> spec_fn(PathBuf, FileBlocks) -> spec_fn(int, Seq<Violation>, Seq<Violation>) -> bool {
    |f: PathBuf, fb: FileBlocks| (|j: int, a: Seq<Violation>, b: Seq<Violation>| ks_step(fb, j, a, b))
}

/// C13: some block carries an unknown sort direction or format
spec fn ks_must_err(ctx: ValidationContext) -> bool {
    exists|f: PathBuf, j: int| ctx.blocks@.contains_key(f) && 0 <= j < ctx.blocks@[f].blocks_with_context@.len()
        && ks_has(#[trigger] ctx.blocks@[f].blocks_with_context@[j])
        && (direction_spec(ks_value(ctx.blocks@[f].blocks_with_context@[j])) is None
            || format_spec(ctx.blocks@[f].blocks_with_context@[j].block.attributes@) is None)
}

/// the inner contracts do not promise Ok for this block (malformed direction/format, or not silently sorted)
spec fn ks_block_may_err(b: BlockWithContext, fb: FileBlocks) -> bool {
    direction_spec(ks_value(b)) is None || format_spec(b.block.attributes@) is None
    || exists|re: Option<Result<regex::Regex, regex::Error>>, fmt: SortFormat, viol: Ordering| #[trigger] ks_args_ok(b, re, fmt, viol)
        && !((forall|i: int| !#[trigger] out_of_order(fmt, viol, keys_of(re, content_of(b.block, fb.file_content@)), i))
             && (forall|i: int| !#[trigger] cmp_fails(fmt, keys_of(re, content_of(b.block, fb.file_content@)), i))
             && !(re matches Some(Err(_))))
}

spec fn ks_may_err(ctx: ValidationContext) -> bool {
    exists|f: PathBuf, j: int| ctx.blocks@.contains_key(f) && 0 <= j < ctx.blocks@[f].blocks_with_context@.len()
        && ks_has(#[trigger] ctx.blocks@[f].blocks_with_context@[j])
        && ks_block_may_err(ctx.blocks@[f].blocks_with_context@[j], ctx.blocks@[f])
}


proof fn lemma_ks_step_frame(fb1: FileBlocks, fb2: FileBlocks, j: int, a: Seq<Violation>, b: Seq<Violation>)
    requires 0 <= j < fb1.blocks_with_context@.len() == fb2.blocks_with_context@.len(), fb1.file_content@ == fb2.file_content@, fb1.blocks_with_context@[j].block == fb2.blocks_with_context@[j].block,
    ensures ks_step(fb1, j, a, b) == ks_step(fb2, j, a, b),
{
    let b1 = fb1.blocks_with_context@[j];
    let b2 = fb2.blocks_with_context@[j];
    if ks_has(b1) {
        if ks_step(fb1, j, a, b) {
            let (re, fmt, viol) = choose|re: Option<Result<regex::Regex, regex::Error>>, fmt: SortFormat, viol: Ordering|
                #[trigger] ks_args_ok(b1, re, fmt, viol) && ks_inner_ok(b1, fb1, re, fmt, viol, a, b);
            assert(ks_args_ok(b2, re, fmt, viol) && ks_inner_ok(b2, fb2, re, fmt, viol, a, b));
        }
        if ks_step(fb2, j, a, b) {
            let (re, fmt, viol) = choose|re: Option<Result<regex::Regex, regex::Error>>, fmt: SortFormat, viol: Ordering|
                #[trigger] ks_args_ok(b2, re, fmt, viol) && ks_inner_ok(b2, fb2, re, fmt, viol, a, b);
            assert(ks_args_ok(b1, re, fmt, viol) && ks_inner_ok(b1, fb1, re, fmt, viol, a, b));
        }
    }
}

/// [VO1.lemma.flags_are_not_an_input] C02 frame: which lists the blocks of a file can leave behind does not
/// depend on `is_content_modified` / `_is_start_tag_modified` (no contract mentions them)
proof fn lemma_ks_frame(f: PathBuf, fb1: FileBlocks, fb2: FileBlocks, l: Seq<Violation>)
    requires same_but_flags(fb1, fb2),
    ensures acc_ok(ks_stepf()(f, fb1), fb1.blocks_with_context@.len() as int, l) == acc_ok(ks_stepf()(f, fb2), fb2.blocks_with_context@.len() as int, l),
{
    assert forall|j: int, a: Seq<Violation>, b: Seq<Violation>| 0 <= j < fb1.blocks_with_context@.len()
        implies #[trigger] ks_stepf()(f, fb1)(j, a, b) == ks_stepf()(f, fb2)(j, a, b) by {
        assert(fb1.blocks_with_context@[j].block == fb2.blocks_with_context@[j].block);
        lemma_ks_step_frame(fb1, fb2, j, a, b);
    }
    lemma_acc_congruent(ks_stepf()(f, fb1), ks_stepf()(f, fb2), fb1.blocks_with_context@.len() as int, l);
}

impl KeepSortedValidator {

//@stubof group=keep_sorted unit=V1d

//@stubof group=keep_sorted unit=V1

#[verifier::loop_isolation(false)]
//@unit id=VO1 file=src/validators/keep_sorted.rs fn=<<impl ValidatorSync for KeepSortedValidator::validate>>
//@sig rule=E7 was=<<fn validate(&self, context: Arc<validators::ValidationContext>,) -> anyhow::Result<HashMap<PathBuf, Vec<Violation>>>>>
    fn validate(&self, context: Arc<ValidationContext>) -> (r: anyhow::Result<HashMap<PathBuf, Vec<Violation>>>)
//@contract
        requires
            ctx_blocks_wf(*context),
        ensures
            r matches Ok(m) ==> outer_ok(*context, m@, ks_stepf()), // [VO1.post.result_is_accumulation_of_inner_results]
            ks_must_err(*context) ==> r is Err, // [VO1.post.err_propagates]
            // an error is not invented: it needs a block with the attribute for which the inner contract allows Err
            r is Err ==> ks_may_err(*context), // [VO1.post.err_only_from_inner]
//@replaceslice rule=SLICE-CALL of=keep_sorted:V1d
let (keep_sorted_normalized, re, sort_format, violating_ord) = Self::v1_prefix(block_with_context, file_path, keep_sorted)?;
//@replaceslice rule=SLICE-CALL of=keep_sorted:V1
Self::v1_loop(block_with_context, file_blocks, file_path, re, sort_format, violating_ord, keep_sorted_normalized, &mut violations)?;
//@macro rule=E1 name=anyhow to=<<anyhow::verif_err()>> optional=1
//@edit rule=E19 find=<<let mut violations = HashMap::new()>>
let mut violations: HashMap<PathBuf, Vec<Violation>> = HashMap::new()
//@edit rule=ghost before=<<let mut violations>>
        broadcast use affx::group_affx;
//@edit rule=ghost before=<<for block_with_context in &file_blocks.blocks_with_context>>
            let ghost v0 = violations@;
            proof {
                assert(verif_ents@[it.index@ as int] == (file_path, file_blocks));
                lemma_file_start(verif_ents@, it.index@ as int, v0, ks_stepf()); // [VO1.proof.each_file_visited_once]
            }
//@edit rule=E4 find=<<for (file_path, file_blocks) in &context.blocks>>
        let verif_ents = verif_ref_entries(&context.blocks);
        for (file_path, file_blocks) in it: verif_ents
            invariant
                ref_entries_of(verif_ents@, context.blocks@),
                ctx_blocks_wf(*context),
                visited_ok(verif_ents@, it.index@ as int, violations@, ks_stepf()),
//@foridx rule=E18 find=<<for block_with_context in &file_blocks.blocks_with_context>> idx=verif_j
                invariant
                    verif_j <= file_blocks.blocks_with_context@.len(),
                    0 <= it.index@ < verif_ents@.len(),
                    verif_ents@[it.index@ as int] == (file_path, file_blocks),
                    file_ok(*file_path, *file_blocks, verif_j as int, v0, violations@, ks_stepf()(*file_path, *file_blocks)),
                decreases file_blocks.blocks_with_context@.len() - verif_j,
//@edit rule=ghost after=<<verif_j = verif_j + 1;>>
                let ghost m1 = violations@;
                proof {
                    assert(*block_with_context == file_blocks.blocks_with_context@[verif_j - 1]);
                    assert(context.blocks@.contains_key(*file_path) && context.blocks@[*file_path] == *file_blocks);
                    assert(block_wf(context.blocks@[*file_path].blocks_with_context@[verif_j - 1].block));
                    if !ks_has(*block_with_context) {
                        lemma_file_step(*file_path, *file_blocks, verif_j - 1, v0, m1, m1, ks_stepf()(*file_path, *file_blocks)); // [VO1.proof.block_without_attribute_is_skipped]
                    }
                }
//@edit rule=ghost before=<<Self::v1_loop(>>
                let ghost re0 = re;
                proof { assert(ks_has(*block_with_context) && keep_sorted@ == ks_value(*block_with_context) && ks_args_ok(*block_with_context, re0, sort_format, violating_ord)); } // [VO1.proof.args_are_the_blocks_own]
//@edit rule=ghost after=<<violating_ord, keep_sorted_normalized, &mut violations)?;>>
                proof {
                    assert(ks_inner_ok(*block_with_context, *file_blocks, re0, sort_format, violating_ord, map_get_or_empty(m1, *file_path), map_get_or_empty(violations@, *file_path))); // [VO1.proof.inner_contract_implies_step_relation]
                    lemma_file_step(*file_path, *file_blocks, verif_j - 1, v0, m1, violations@, ks_stepf()(*file_path, *file_blocks)); // [VO1.proof.inner_contract_gives_step]
                }
//@edit rule=ghost before=<<} Ok(violations)>>
            proof { lemma_file_done(verif_ents@, it.index@ as int, v0, violations@, ks_stepf()); } // [VO1.proof.file_done]
//@edit rule=ghost before=<<Ok(violations)>>
        proof {
            assert(outer_ok(*context, violations@, ks_stepf())) by {
                lemma_visited_all(*context, verif_ents@, violations@, ks_stepf());
            }
            assert(!ks_must_err(*context)) by { // [VO1.proof.must_err_block_cannot_have_stepped]
                if ks_must_err(*context) {
                    let (f, j) = choose|f: PathBuf, j: int| context.blocks@.contains_key(f) && 0 <= j < context.blocks@[f].blocks_with_context@.len()
                        && ks_has(#[trigger] context.blocks@[f].blocks_with_context@[j])
                        && (direction_spec(ks_value(context.blocks@[f].blocks_with_context@[j])) is None
                            || format_spec(context.blocks@[f].blocks_with_context@[j].block.attributes@) is None);
                    lemma_acc_step(ks_stepf()(f, context.blocks@[f]), context.blocks@[f].blocks_with_context@.len() as int, map_get_or_empty(violations@, f), j);
                }
            }
        }
//@end
} // impl
} // mod ks

} // verus!
fn main() {}
