// Group `line_count`: V4 — `line-count="OP N"` (property C09; error clauses for C13; tag range C10).
use vstd::prelude::*;
use std::collections::HashMap;
use std::cmp::Ordering;
use std::ops::{Range, RangeInclusive};
use std::path::{Path, PathBuf};

//@include prelude/anyhow.rs
//@include prelude/tstr_mod.rs

verus! {

//@include prelude/std_range.rs
//@include prelude/strings.rs
//@include prelude/domain.rs
//@include prelude/block_fns.rs

//@item file=src/validators/line_count.rs kind=struct name=LineCountValidator
//@item file=src/validators/line_count.rs kind=struct name=LineCountViolation

//@item file=src/validators/line_count.rs kind=enum name=Op

// ---- specification (from the property text of C09) ----------------------------------------
spec fn op_token(op: Op) -> Seq<char> {
    match op {
        Op::Lt => "<"@,
        Op::Le => "<="@,
        Op::Eq => "=="@,
        Op::Ge => ">="@,
        Op::Gt => ">"@,
    }
}

spec fn op_holds(op: Op, actual: int, expected: int) -> bool {
    match op {
        Op::Lt => actual < expected,
        Op::Le => actual <= expected,
        Op::Eq => actual == expected,
        Op::Ge => actual >= expected,
        Op::Gt => actual > expected,
    }
}

/// `OP N` with optional spaces: trim(s) = token(op) ++ rest, trim(rest) is the numeral of n.
/// Longest operator first: "<=" must not be read as "<" followed by "=N".
spec fn constraint_of(s: Seq<char>) -> Option<(Op, usize)> {
    let t = trim_spec(s);
    let (op, rest) =
        if strip_prefix_spec(t, "<="@) is Some { (Some(Op::Le), strip_prefix_spec(t, "<="@)) }
        else if strip_prefix_spec(t, ">="@) is Some { (Some(Op::Ge), strip_prefix_spec(t, ">="@)) }
        else if strip_prefix_spec(t, "=="@) is Some { (Some(Op::Eq), strip_prefix_spec(t, "=="@)) }
        else if strip_prefix_spec(t, seq!['<']) is Some { (Some(Op::Lt), strip_prefix_spec(t, seq!['<'])) }
        else if strip_prefix_spec(t, seq!['>']) is Some { (Some(Op::Gt), strip_prefix_spec(t, seq!['>'])) }
        else { (None, None) };
    match (op, rest) {
        (Some(o), Some(r)) =>
            if trim_spec(r).len() == 0 { None }
            else { match parse_usize_spec(trim_spec(r)) { Some(n) => Some((o, n)), None => None } },
        _ => None,
    }
}

/// The operator tokens are pairwise distinct in their first character except `<`/`<=` and `>`/`>=`:
/// a text cannot start with two different two-character operators, nor with `==` and `<` or `>`.
/// (Makes the specification independent of the order in which exclusive alternatives are tried.)
proof fn lemma_ops_exclusive(t: Seq<char>)
    ensures
        !(strip_prefix_spec(t, "<="@) is Some && strip_prefix_spec(t, ">="@) is Some),
        !(strip_prefix_spec(t, "<="@) is Some && strip_prefix_spec(t, "=="@) is Some),
        !(strip_prefix_spec(t, ">="@) is Some && strip_prefix_spec(t, "=="@) is Some),
        !(strip_prefix_spec(t, "=="@) is Some && strip_prefix_spec(t, seq!['<']) is Some),
        !(strip_prefix_spec(t, "=="@) is Some && strip_prefix_spec(t, seq!['>']) is Some),
        !(strip_prefix_spec(t, seq!['<']) is Some && strip_prefix_spec(t, seq!['>']) is Some),
        strip_prefix_spec(t, "<="@) is Some ==> strip_prefix_spec(t, seq!['<']) is Some,
        strip_prefix_spec(t, ">="@) is Some ==> strip_prefix_spec(t, seq!['>']) is Some,
{
    reveal_strlit("<=");
    reveal_strlit(">=");
    reveal_strlit("==");
    if strip_prefix_spec(t, "<="@) is Some { assert(t.subrange(0, 2)[0] == '<'); assert(t.subrange(0, 1) =~= seq!['<']); }
    if strip_prefix_spec(t, ">="@) is Some { assert(t.subrange(0, 2)[0] == '>'); assert(t.subrange(0, 1) =~= seq!['>']); }
    if strip_prefix_spec(t, "=="@) is Some { assert(t.subrange(0, 2)[0] == '='); }
    if strip_prefix_spec(t, seq!['<']) is Some { assert(t.subrange(0, 1)[0] == '<'); }
    if strip_prefix_spec(t, seq!['>']) is Some { assert(t.subrange(0, 1)[0] == '>'); }
}

impl Op {
//@unit id=V4a file=src/validators/line_count.rs fn=<<impl Op::as_str>> ret=r
//@contract
        ensures r@ == op_token(*self), // [V4a.post.token]
//@end
}

//@unit id=V4p file=src/validators/line_count.rs fn=parse_constraint ret=r
//@contract
    ensures
        (r matches Ok(p) ==> constraint_of(s@) == Some(p)), // [V4p.post.ok_is_spec]
        (r is Err ==> constraint_of(s@) is None), // [V4p.post.malformed_is_err]
//@macro rule=E1 name=anyhow to=<<anyhow::verif_err()>>
//@edit rule=ghost before=<<let (op, rest)>> optional=1
    proof { lemma_ops_exclusive(trim_spec(s@)); }
//@chain rule=E13 find=<<.strip_prefix(>> to=verif_strip_prefix_str argkind=str count=all optional=1
//@chain rule=E13 find=<<.strip_prefix(>> to=verif_strip_prefix_char argkind=char count=all optional=1
//@edit rule=E13 find=<<$a.parse()>> count=all optional=1
verif_parse_usize($a)
//@edit rule=E16 find=<<|_|>> count=all optional=1
|_e|
//@end


/// C09: "the number of its non-blank content lines"; "a block with no content counts zero lines"
spec fn nonblank_count(content: Seq<char>) -> nat {
    if content.len() == 0 { 0 } else { count_true(lines_of(content), |l: Seq<char>| !is_blank(l), lines_of(content).len() as int) }
}

impl Clone for Op {
    fn clone(&self) -> (r: Self) ensures r == *self { *self }
}
impl Copy for Op {}

impl LineCountValidator {
//@unit id=V4 file=src/validators/line_count.rs fn=<<impl ValidatorSync for LineCountValidator::validate>> slice_from=<<let actual =>> slice_to_block_end=1
//@wrapper
fn v4_check<'a>(
    block_with_context: &'a BlockWithContext,
    file_blocks: &'a FileBlocks,
    file_path: &PathBuf,
    op: Op,
    expected: usize,
    violations: &mut HashMap<PathBuf, Vec<Violation>>,
) -> (r: anyhow::Result<()>)
    requires
        block_wf(block_with_context.block),
    ensures
        // the bound holds => silent
        op_holds(op, nonblank_count(content_of(block_with_context.block, file_blocks.file_content@)) as int, expected as int)
            ==> r is Ok && final(violations)@ == old(violations)@, // [V4.post.satisfied_is_silent]
        // the bound is broken => exactly one diagnostic carrying (actual, op, bound), on the start tag
        !op_holds(op, nonblank_count(content_of(block_with_context.block, file_blocks.file_content@)) as int, expected as int) && r is Ok
            ==> exists|v: Violation, d: serde_json::Value| // [V4.post.violated_reports_once]
                   final(violations)@.dom() == old(violations)@.dom().insert(*file_path)
                && final(violations)@[*file_path]@ == map_get_or_empty(old(violations)@, *file_path).push(v)
                && v.code@ == "line-count"@
                && v.range.start == block_with_context.block.start_tag_position_range@.start // [V4.post.range_is_start_tag]
                && v.range.end == block_with_context.block.start_tag_position_range@.end
                && v.data == Some(d) && exists|payload: LineCountViolation| #[trigger] serde_json::value_encodes(d, payload) // [V4.post.payload]
                    && payload.actual == nonblank_count(content_of(block_with_context.block, file_blocks.file_content@))
                    && payload.op@ == op_token(op) && payload.expected == expected,
        forall|k2: PathBuf| k2 != *file_path && #[trigger] old(violations)@.contains_key(k2) ==> final(violations)@.contains_key(k2) && final(violations)@[k2] == old(violations)@[k2], // [V4.post.other_files_untouched]
        forall|k2: PathBuf| k2 != *file_path && #[trigger] final(violations)@.contains_key(k2) ==> old(violations)@.contains_key(k2), // [V4.post.no_new_files]
        r is Err ==> final(violations)@ == old(violations)@, // [V4.post.err_leaves_report]
//@tail
    Ok(())
//@chain rule=E3 find=<<.lines() .filter(>> to=verif_lines_filter_count optional=1 suffix=<<.count()>> extra=<<Ghost(|l: Seq<char>| !is_blank(l))>>
//@closure rule=E12 find=<<|line|>> optional=1 params=<<|line: &&str|>> ret=<<keep: bool>>
    ensures keep == !is_blank(line@)
//@edit rule=E5 find=<<violations.entry(file_path.clone()).or_insert_with(Vec::new).push(>> optional=1
verif_map_push(violations, file_path.clone(),
//@end
}

//@unit id=V4c file=src/validators/line_count.rs fn=create_violation ret=r
//@contract
    requires block_wf(*block),
    ensures
        r matches Ok(v) ==> v.range.start == block.start_tag_position_range@.start && v.range.end == block.start_tag_position_range@.end // [V4c.post.range_is_start_tag]
            && v.code@ == "line-count"@ && Ok::<BlockSeverity, anyhow::Error>(v.severity) == severity_spec(*block)
            && (exists|d: serde_json::Value, payload: LineCountViolation| v.data == Some(d) && #[trigger] serde_json::value_encodes(d, payload) // [V4c.post.payload]
                && payload.actual == actual && payload.op@ == op_token(operation) && payload.expected == expected),
        severity_spec(*block) is Err ==> r is Err, // [V4c.post.bad_severity_is_err]
//@macro rule=E1 name=format to=<<verif_message()>>
//@edit rule=E2 find=<<serde_json::to_value(>>
verif_to_value(
//@end

} // verus!
fn main() {}
