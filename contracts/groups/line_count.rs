// Group `line_count`: V4 — `line-count="OP N"` (property C09; error clauses for C13; tag range C10).
use vstd::prelude::*;
use std::collections::HashMap;
use std::ops::{Range, RangeInclusive};

//@include prelude/anyhow.rs
//@include prelude/tstr_mod.rs

verus! {

//@include prelude/strings.rs

//@item file=src/validators/line_count.rs kind=enum name=Op

// ---- specification (from the property text of C09) ----------------------------------------
spec fn op_token(op: Op) -> Seq<char> {
    match op {
        Op::Lt => "<"@,
        Op::Le => "<="@,
        Op::Eq => "=="@,
        Op::Ge => ">="@,
        Op::Gt => ">"@,
    }
}

spec fn op_holds(op: Op, actual: int, expected: int) -> bool {
    match op {
        Op::Lt => actual < expected,
        Op::Le => actual <= expected,
        Op::Eq => actual == expected,
        Op::Ge => actual >= expected,
        Op::Gt => actual > expected,
    }
}

/// `OP N` with optional spaces: trim(s) = token(op) ++ rest, trim(rest) is the numeral of n.
/// Longest operator first: "<=" must not be read as "<" followed by "=N".
spec fn constraint_of(s: Seq<char>) -> Option<(Op, usize)> {
    let t = trim_spec(s);
    let (op, rest) =
        if strip_prefix_spec(t, "<="@) is Some { (Some(Op::Le), strip_prefix_spec(t, "<="@)) }
        else if strip_prefix_spec(t, ">="@) is Some { (Some(Op::Ge), strip_prefix_spec(t, ">="@)) }
        else if strip_prefix_spec(t, "=="@) is Some { (Some(Op::Eq), strip_prefix_spec(t, "=="@)) }
        else if strip_prefix_spec(t, seq!['<']) is Some { (Some(Op::Lt), strip_prefix_spec(t, seq!['<'])) }
        else if strip_prefix_spec(t, seq!['>']) is Some { (Some(Op::Gt), strip_prefix_spec(t, seq!['>'])) }
        else { (None, None) };
    match (op, rest) {
        (Some(o), Some(r)) =>
            if trim_spec(r).len() == 0 { None }
            else { match parse_usize_spec(trim_spec(r)) { Some(n) => Some((o, n)), None => None } },
        _ => None,
    }
}

impl Op {
//@unit id=V4a file=src/validators/line_count.rs fn=<<impl Op::as_str>> ret=r
//@contract
        ensures r@ == op_token(*self), // [V4a.post.token]
//@end
}

//@unit id=V4p file=src/validators/line_count.rs fn=parse_constraint ret=r
//@contract
    ensures
        (r matches Ok(p) ==> constraint_of(s@) == Some(p)), // [V4p.post.ok_is_spec]
        (r is Err ==> constraint_of(s@) is None), // [V4p.post.malformed_is_err]
//@macro rule=E1 name=anyhow to=<<anyhow::verif_err()>>
//@chain rule=E13 find=<<.strip_prefix(>> to=verif_strip_prefix_str argkind=str count=all optional=1
//@chain rule=E13 find=<<.strip_prefix(>> to=verif_strip_prefix_char argkind=char count=all optional=1
//@edit rule=E13 find=<<$a.parse()>> count=all optional=1
verif_parse_usize($a)
//@edit rule=E16 find=<<|_|>> count=all optional=1
|_e|
//@end

} // verus!
fn main() {}
