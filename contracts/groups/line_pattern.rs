// Group `line_pattern`: V3 — the matching loop of LinePatternValidator::validate and its
// create_violation (properties C08, C10 position incl. the column offset of content line 0,
// C13 error clauses, C04 safety).
use vstd::prelude::*;
use std::cmp::Ordering;
use std::collections::{HashMap, HashSet};
use std::ops::{Range, RangeInclusive};
use std::path::{Path, PathBuf};

//@include prelude/anyhow.rs
//@include prelude/tstr_mod.rs
//@include prelude/regex.rs
use regex::Regex;

verus! {

//@include prelude/std_range.rs
//@include prelude/strings.rs
//@include prelude/domain.rs
//@include prelude/block_fns.rs

//@item file=src/validators/line_pattern.rs kind=struct name=LinePatternValidator
//@item file=src/validators/line_pattern.rs kind=struct name=LinePatternViolation

// ---- specification (from property C08) -------------------------------------------------------
/// a non-blank line whose trimmed text has no match
spec fn fails(re: Regex, line: Seq<char>) -> bool {
    !is_blank(line) && !regex::re_is_match(re, trim_spec(line))
}

spec fn first_failing(re: Regex, lines: Seq<Seq<char>>, i: int) -> bool {
    0 <= i < lines.len() && fails(re, lines[i]) && forall|j: int| 0 <= j < i ==> !fails(re, lines[j])
}

/// the diagnostic's range: the trimmed text's byte span on content line i, in file coordinates
spec fn trimmed_range_ok(v: Violation, b: Block, line: Seq<char>, i: int) -> bool {
    &&& v.range.start.line == content_line_no(b, i)
    &&& v.range.end.line == content_line_no(b, i)
    &&& v.range.start.character == trim_lead(line) + 1 + content_col_offset(b, i)
    &&& v.range.end.character == trim_lead(line) + 1 + content_col_offset(b, i) + blen(trim_spec(line)) - 1
}

impl LinePatternValidator {

//@unit id=V3 file=src/validators/line_pattern.rs fn=<<impl ValidatorSync for LinePatternValidator::validate>> slice_from=<<let re = Regex::new(pattern)>> slice_to_block_end=1
//@wrapper
fn v3_loop<'a>(
    block_with_context: &'a BlockWithContext,
    file_blocks: &'a FileBlocks,
    file_path: &PathBuf,
    pattern: &String,
    violations: &mut HashMap<PathBuf, Vec<Violation>>,
) -> (r: anyhow::Result<()>)
    requires
        block_wf(block_with_context.block),
    ensures
        // a pattern that does not compile is an error, whatever the content (C13)
        regex::compile_spec(pattern@) is None ==> r is Err, // [V3.post.bad_regex_is_err]
        // all non-blank lines match => no diagnostic and no error
        (regex::compile_spec(pattern@) is Some && forall|i: int| !first_failing(regex::compile_spec(pattern@).unwrap(), lines_of(content_of(block_with_context.block, file_blocks.file_content@)), i))
            ==> r is Ok && final(violations)@ == old(violations)@, // [V3.post.all_match_is_silent]
        // otherwise exactly one diagnostic, on the first failing line, spanning its trimmed text
        (r is Ok && regex::compile_spec(pattern@) is Some && exists|i: int| first_failing(regex::compile_spec(pattern@).unwrap(), lines_of(content_of(block_with_context.block, file_blocks.file_content@)), i))
            ==> exists|i: int, v: Violation| first_failing(regex::compile_spec(pattern@).unwrap(), lines_of(content_of(block_with_context.block, file_blocks.file_content@)), i) // [V3.post.reports_first_failing]
                && final(violations)@.dom() == old(violations)@.dom().insert(*file_path)
                && final(violations)@[*file_path]@ == map_get_or_empty(old(violations)@, *file_path).push(v)
                && trimmed_range_ok(v, block_with_context.block, lines_of(content_of(block_with_context.block, file_blocks.file_content@))[i], i) // [V3.post.range_is_trimmed_span]
                && v.code@ == "line-pattern"@,
        forall|k2: PathBuf| k2 != *file_path && #[trigger] old(violations)@.contains_key(k2) ==> final(violations)@.contains_key(k2) && final(violations)@[k2] == old(violations)@[k2], // [V3.post.other_files_untouched]
        forall|k2: PathBuf| k2 != *file_path && #[trigger] final(violations)@.contains_key(k2) ==> old(violations)@.contains_key(k2), // [V3.post.no_new_files]
        r is Err ==> final(violations)@ == old(violations)@, // [V3.post.err_leaves_report]
//@tail
    proof {
        if violations@ != old(violations)@ {
            let (i, v) = choose|i: int, v: Violation| first_failing(re, lines, i)
                && violations@.dom() == old(violations)@.dom().insert(*file_path)
                && violations@[*file_path]@ == map_get_or_empty(old(violations)@, *file_path).push(v)
                && #[trigger] trimmed_range_ok(v, block_with_context.block, lines[i], i)
                && v.code@ == "line-pattern"@;
            assert(first_failing(regex::compile_spec(pattern@).unwrap(), lines_of(content_of(block_with_context.block, file_blocks.file_content@)), i));
        }
    }
    Ok(())
//@macro rule=E1 name=anyhow to=<<anyhow::verif_err()>>
//@closure rule=E12 find=<<|e|>> params=<<|e: regex::Error|>> ret=<<e2: anyhow::Error>>
//@forlines var=ls style=while
        invariant_except_break
            violations@ == old(violations)@,
            forall|j: int| 0 <= j < verif_i ==> !#[trigger] fails(re, lines[j]), // [V3.inv.no_failure_so_far]
        invariant
            verif_i <= ls@.len(),
            block_wf(block_with_context.block),
            regex::compile_spec(pattern@) == Some(re),
            lines == lines_of(content_of(block_with_context.block, file_blocks.file_content@)),
            ls@.len() == lines.len(),
            ls@.len() <= isize::MAX,
            forall|i: int| 0 <= i < ls@.len() ==> (#[trigger] ls@[i]).0 == i && ls@[i].1@ == lines[i],
        ensures
            violations@ == old(violations)@ ==> (forall|j: int| 0 <= j < lines.len() ==> !#[trigger] fails(re, lines[j])),
            violations@ != old(violations)@ ==> exists|i: int, v: Violation| first_failing(re, lines, i) // [V3.inv.break_reports_first_failing]
                && violations@.dom() == old(violations)@.dom().insert(*file_path)
                && violations@[*file_path]@ == map_get_or_empty(old(violations)@, *file_path).push(v)
                && #[trigger] trimmed_range_ok(v, block_with_context.block, lines[i], i)
                && v.code@ == "line-pattern"@,
            forall|k2: PathBuf| k2 != *file_path && #[trigger] old(violations)@.contains_key(k2) ==> violations@.contains_key(k2) && violations@[k2] == old(violations)@[k2],
            forall|k2: PathBuf| k2 != *file_path && #[trigger] violations@.contains_key(k2) ==> old(violations)@.contains_key(k2),
        decreases ls@.len() - verif_i,
//@edit rule=ghost before=<<let ls = verif_lines_enumerate>>
    let ghost lines = lines_of(content_of(block_with_context.block, file_blocks.file_content@));
//@edit rule=ghost before=<<let trimmed_line =>> optional=1
                    assert(line_number == verif_i - 1);
//@edit rule=ghost before=<<let (violation_line_number, character_offset)>> optional=1
                        assert(first_failing(regex::compile_spec(pattern@).unwrap(), lines_of(content_of(block_with_context.block, file_blocks.file_content@)), line_number as int));
//@edit rule=E5 find=<<violations.entry(file_path.clone()).or_insert_with(Vec::new).push(>> optional=1
verif_map_push(violations, file_path.clone(),
//@edit rule=ghost before=<<break;>> optional=1
                        proof {
                            let v = violations@[*file_path]@.last();
                            assert(violations@[*file_path]@.len() == map_get_or_empty(old(violations)@, *file_path).len() + 1);
                            assert(violations@[*file_path]@ == map_get_or_empty(old(violations)@, *file_path).push(v));
                            assert(trimmed_range_ok(v, block_with_context.block, lines[line_number as int], line_number as int));
                        }
//@edit rule=E9 find=<<$a.as_ptr() as usize - $b.as_ptr() as usize>> count=all optional=1
verif_offset_in($a, $b)
//@end

} // impl

//@unit id=V3c file=src/validators/line_pattern.rs fn=create_violation ret=r
//@contract
    requires block_wf(*block),
    ensures
        r matches Ok(v) ==> v.range.start.line == violation_line_number && v.range.end.line == violation_line_number // [V3c.post.range]
            && v.range.start.character == violation_character_start && v.range.end.character == violation_character_end
            && v.code@ == "line-pattern"@ && Ok::<BlockSeverity, anyhow::Error>(v.severity) == severity_spec(*block),
        severity_spec(*block) is Err ==> r is Err, // [V3c.post.bad_severity_is_err]
//@macro rule=E1 name=format to=<<verif_message()>>
//@edit rule=E2 find=<<serde_json::to_value(>>
verif_to_value(
//@end

} // verus!
fn main() {}
