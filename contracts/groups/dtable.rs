// Group `dtable`: the registry DETECTOR_FACTORIES (src/validators/mod.rs) — property C14: the name
// given to --enable/--disable selects exactly the validator of that name. Each row `(name, || Box::new(D::new()))`
// must pair `name` with the detector whose rule attribute — and whose validator's diagnostic code —
// is `name` (README: "available validators"). The detectors' own behaviour (fires iff that attribute
// is present) is proved in groups detectors / affects / scripts (units V1det..V4det, V6d, V5ld, V5ad).
use vstd::prelude::*;

verus! {

pub enum Rule { Affects, KeepSorted, KeepUnique, LinePattern, LineCount, CheckAi, CheckLua }

/// validator name = rule attribute = diagnostic code
pub open spec fn rule_name(r: Rule) -> Seq<char> {
    match r {
        Rule::Affects => "affects"@,
        Rule::KeepSorted => "keep-sorted"@,
        Rule::KeepUnique => "keep-unique"@,
        Rule::LinePattern => "line-pattern"@,
        Rule::LineCount => "line-count"@,
        Rule::CheckAi => "check-ai"@,
        Rule::CheckLua => "check-lua"@,
    }
}

pub trait DetectorOfRule {
    spec fn rule() -> Rule;
}

// The seven detector types (unit structs pasted from /repo) and the rule each one detects — the same
// attribute its `detect` contract names in groups detectors / affects / scripts.
//@item file=src/validators/affects.rs kind=struct name=AffectsValidatorDetector
//@item file=src/validators/keep_sorted.rs kind=struct name=KeepSortedValidatorDetector
//@item file=src/validators/keep_unique.rs kind=struct name=KeepUniqueValidatorDetector
//@item file=src/validators/line_pattern.rs kind=struct name=LinePatternValidatorDetector
//@item file=src/validators/line_count.rs kind=struct name=LineCountValidatorDetector
//@item file=src/validators/check_ai.rs kind=struct name=CheckAiValidatorDetector
//@item file=src/validators/check_lua.rs kind=struct name=CheckLuaValidatorDetector
impl DetectorOfRule for AffectsValidatorDetector { open spec fn rule() -> Rule { Rule::Affects } }
impl DetectorOfRule for KeepSortedValidatorDetector { open spec fn rule() -> Rule { Rule::KeepSorted } }
impl DetectorOfRule for KeepUniqueValidatorDetector { open spec fn rule() -> Rule { Rule::KeepUnique } }
impl DetectorOfRule for LinePatternValidatorDetector { open spec fn rule() -> Rule { Rule::LinePattern } }
impl DetectorOfRule for LineCountValidatorDetector { open spec fn rule() -> Rule { Rule::LineCount } }
impl DetectorOfRule for CheckAiValidatorDetector { open spec fn rule() -> Rule { Rule::CheckAi } }
impl DetectorOfRule for CheckLuaValidatorDetector { open spec fn rule() -> Rule { Rule::CheckLua } }

impl AffectsValidatorDetector { pub fn new() -> Self { Self() } }
impl KeepSortedValidatorDetector { pub fn new() -> Self { Self() } }
impl KeepUniqueValidatorDetector { pub fn new() -> Self { Self() } }
impl LinePatternValidatorDetector { pub fn new() -> Self { Self() } }
impl LineCountValidatorDetector { pub fn new() -> Self { Self() } }
impl CheckAiValidatorDetector { pub fn new() -> Self { Self() } }
impl CheckLuaValidatorDetector { pub fn new() -> Self { Self {} } }

/// one row of the registry: the name must be the name of the rule the detector detects
fn verif_row<D: DetectorOfRule>(name: &str, detector: Box<D>, seen: Ghost<Seq<Rule>>) -> (r: Ghost<Seq<Rule>>)
    requires
        name@ == rule_name(D::rule()), // [TBL.row.name_is_rule_of_detector]
        !seen@.contains(D::rule()), // [TBL.row.no_rule_registered_twice]
    ensures
        r@ == seen@.push(D::rule()),
{
    Ghost(seen@.push(D::rule()))
}

fn verif_detector_table() -> (r: Ghost<Seq<Rule>>)
    ensures
        r@.len() == 7, // [TBL.post.seven_validators]
{
    proof {
        reveal_strlit("affects"); reveal_strlit("keep-sorted"); reveal_strlit("keep-unique"); reveal_strlit("line-pattern");
        reveal_strlit("line-count"); reveal_strlit("check-ai"); reveal_strlit("check-lua");
    }
    let mut seen: Ghost<Seq<Rule>> = Ghost(Seq::empty());
//@rows file=src/validators/mod.rs const=DETECTOR_FACTORIES call=<<seen = verif_row>> extra=<<seen>>
    seen
}

} // verus!
fn main() {}
