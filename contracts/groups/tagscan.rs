// Group `tagscan`: src/tag_parser.rs — the `<`-candidate scan loop of the tag parser.
// Unit:
//   T3  impl BlockTagParser for WinnowBlockTagParser::next (tag_parser.rs:48-99), the REAL loop.
//       C03 "blocks are exactly the tag pairs written in comments" / C05 "look-alikes are never taken
//       for block tags" / C12 "never guesses a pairing, drops the block": the tag returned is the one
//       at the FIRST position at or after the cursor where the grammar accepts, no such position is
//       skipped, the cursor ends just after it, `Ok(None)` only when there is none.
//       C04: no out-of-bounds / non-boundary slicing, no overflow, the loop terminates.
// The two winnow grammar functions are out of scope (uninterpreted, prelude/tagnorm_grammar.rs): the
// loop is verified for every grammar. Lemmas at the end: T3's postcondition determines result and
// cursor (blockpairs' `scan_tag` is a function) and implies the arithmetic part of blockpairs' `scan_wf`.
// Trusted: see tagscan.notes.md.
use vstd::prelude::*;
use vstd::utf8::*;
use vstd::string::*;
use std::collections::HashMap;
use std::ops::Range;

//@include prelude/anyhow.rs
//@include prelude/tstr_mod.rs

verus! {

// `axiom_blen` of prelude/tstr_mod.rs: a str is at most isize::MAX bytes long (std doc of slices)
broadcast use tstr::group_tstr;

//@include prelude/tagnorm_bytes.rs
//@include prelude/tagnorm_grammar.rs

// ---------------------------------------------------------------------------------------------
// Specification, written from the property statements (not from the code).
// `t` is the comment text, positions are byte offsets into its UTF-8 encoding (what `tag_range`,
// `start_position` and the cursor are).

/// the text of `&t[p..]`
pub open spec fn suffix_chars(t: Seq<char>, p: int) -> Seq<char> {
    decode_utf8(utf8(t).subrange(p, utf8(t).len() as int))
}

/// the byte at offset `p` is `<` (0x3C; in UTF-8 this byte only ever encodes the char '<')
pub open spec fn lt_at(t: Seq<char>, p: int) -> bool {
    0 <= p < utf8(t).len() && utf8(t)[p] == 0x3cu8
}

/// the grammar accepts a start tag or an end tag at offset `p`
pub open spec fn is_tag_at(t: Seq<char>, p: int) -> bool {
    start_tag_match(suffix_chars(t, p)) is Some || end_tag_at(suffix_chars(t, p)) is Some
}

/// candidate: a `<` at or after the cursor `c0` where the grammar accepts a tag
pub open spec fn cand(t: Seq<char>, c0: int, p: int) -> bool {
    c0 <= p && lt_at(t, p) && is_tag_at(t, p)
}

/// where a returned tag starts
pub open spec fn tag_pos(tag: BlockTag) -> int {
    match tag {
        BlockTag::Start { tag_range, attributes } => tag_range.start as int,
        BlockTag::End { start_position } => start_position as int,
    }
}

/// Everything T3 guarantees, as one predicate over (text, old cursor, result, new cursor).
pub open spec fn t3_post(t: Seq<char>, c0: usize, r: anyhow::Result<Option<BlockTag>>, c1: usize) -> bool {
    &&& r is Ok
    &&& (r matches Ok(Some(tag)) ==> {
        &&& cand(t, c0 as int, tag_pos(tag))
        &&& forall|q: int| c0 <= q < tag_pos(tag) ==> !#[trigger] cand(t, c0 as int, q)
        &&& c0 <= tag_pos(tag) < c1 <= utf8(t).len()
        &&& (tag matches BlockTag::Start { tag_range, attributes } ==>
                start_tag_match(suffix_chars(t, tag_range.start as int)) == Some(((tag_range.end - tag_range.start) as nat, attributes))
                && tag_range.start <= tag_range.end && c1 == tag_range.end)
        &&& (tag matches BlockTag::End { start_position } ==>
                start_tag_match(suffix_chars(t, start_position as int)) is None
                && end_tag_at(suffix_chars(t, start_position as int)) is Some
                && c1 == start_position + end_tag_at(suffix_chars(t, start_position as int))->Some_0)
    })
    &&& (r matches Ok(None) ==> {
        &&& forall|q: int| !#[trigger] cand(t, c0 as int, q)
        &&& c1 == (if c0 <= utf8(t).len() { utf8(t).len() as int } else { c0 as int })
    })
}

impl<'source> WinnowBlockTagParser<'source> {

//@unit id=T3 file=src/tag_parser.rs fn=<<impl<'source> BlockTagParser for WinnowBlockTagParser<'source>::next>>
//@sig rule=E7 was=<<fn next(&mut self) -> anyhow::Result<Option<BlockTag>>>>
    fn next(&mut self) -> (r: anyhow::Result<Option<BlockTag>>)
//@contract
        requires
            old(self).cursor <= utf8(old(self).source@).len() ==> byte_boundary(utf8(old(self).source@), old(self).cursor as int), // [T3.pre.cursor_on_char_boundary]
        ensures
            final(self).source == old(self).source, // [T3.post.source_unchanged]
            r is Ok, // [T3.post.never_err]
            r matches Ok(Some(tag)) ==> cand(old(self).source@, old(self).cursor as int, tag_pos(tag)), // [T3.post.first_candidate]
            forall|q: int| old(self).cursor <= q && (r matches Ok(Some(tag)) ==> q < tag_pos(tag)) ==> !#[trigger] cand(old(self).source@, old(self).cursor as int, q), // [T3.post.no_candidate_skipped]
            r matches Ok(Some(BlockTag::Start { tag_range, attributes })) ==> tag_range.start <= tag_range.end // [T3.post.start_tag_as_grammar]
                && start_tag_match(suffix_chars(old(self).source@, tag_range.start as int)) == Some(((tag_range.end - tag_range.start) as nat, attributes)),
            r matches Ok(Some(BlockTag::Start { tag_range, attributes })) ==> // [T3.post.attributes_as_written]
                (start_tag_at(suffix_chars(old(self).source@, tag_range.start as int)) matches Some((n, m)) && attributes@ == m),
            r matches Ok(Some(BlockTag::End { start_position })) ==> // [T3.post.start_has_priority]
                start_tag_match(suffix_chars(old(self).source@, start_position as int)) is None,
            r matches Ok(Some(BlockTag::End { start_position })) ==> end_tag_at(suffix_chars(old(self).source@, start_position as int)) is Some, // [T3.post.end_tag_as_grammar]
            r matches Ok(Some(BlockTag::Start { tag_range, attributes })) ==> final(self).cursor == tag_range.end, // [T3.post.cursor_after_tag]
            r matches Ok(Some(BlockTag::End { start_position })) ==> // [T3.post.cursor_after_end_tag]
                final(self).cursor == start_position + end_tag_at(suffix_chars(old(self).source@, start_position as int))->Some_0,
            r matches Ok(Some(tag)) ==> old(self).cursor <= tag_pos(tag) < final(self).cursor <= utf8(old(self).source@).len(), // [T3.post.progress]
            r matches Ok(None) ==> final(self).cursor == (if old(self).cursor <= utf8(old(self).source@).len() { utf8(old(self).source@).len() as int } else { old(self).cursor as int }), // [T3.post.none_cursor_at_end]
            final(self).cursor <= utf8(old(self).source@).len() ==> byte_boundary(utf8(old(self).source@), final(self).cursor as int), // [T3.post.cursor_on_char_boundary]
            t3_post(old(self).source@, old(self).cursor, r, final(self).cursor), // [T3.post.is_spec]
//@edit rule=ghost before=<<loop>>
        proof {
            reveal_strlit("<");
            assert("<"@ =~= seq!['<']);
            lemma_utf8_one('<');
            assert(utf8(self.source@).subrange(self.cursor as int, utf8(self.source@).len() as int).len() == utf8(self.source@).len() - self.cursor);
        }
//@edit rule=ghost after=<<loop>>
            invariant
                self.source == old(self).source,
                self.cursor == old(self).cursor, // [T3.inv.cursor_untouched]
                utf8("<"@) == seq![0x3cu8],
                utf8(self.source@).len() <= isize::MAX,
                self.cursor + offset <= utf8(self.source@).len(), // [T3.inv.offset_in_bounds]
                utf8(current_input@) == utf8(self.source@).subrange(self.cursor + offset, utf8(self.source@).len() as int), // [T3.inv.current_input_is_suffix_at_offset]
                forall|q: int| self.cursor <= q < self.cursor + offset ==> !#[trigger] cand(self.source@, self.cursor as int, q), // [T3.inv.no_candidate_before_offset]
            decreases utf8(self.source@).len() - (self.cursor + offset) // [T3.term.bytes_left]
//@edit rule=ghost after=<<if let Some(pos) = current_input.find("<") {>>
                proof {
                    // the `<` found: one ASCII byte, hence a char boundary; no `<` before it
                    let bc = utf8(current_input@);
                    assert(bc.subrange(pos as int, pos + 1)[0] == 0x3cu8);
                    assert(bc[pos as int] == 0x3cu8);
                    assert forall|q: int| self.cursor + offset <= q < self.cursor + offset + pos implies !#[trigger] cand(self.source@, self.cursor as int, q) by {
                        let k = q - (self.cursor + offset);
                        if bc[k] == 0x3cu8 {
                            assert(bc.subrange(k, k + 1) =~= seq![0x3cu8]);
                            assert(occurs_at(bc, k, seq![0x3cu8]));
                        }
                    }
                }
//@edit rule=ghost before=<<if let Ok(>> nth=0 of=2
                let ghost verif_off_lt: int = offset as int; // the offset of the `<` under test
                proof {
                    // potential_tag_start is the text of source[cursor + offset ..]
                    let b = utf8(self.source@);
                    let p = self.cursor + offset;
                    assert(utf8(potential_tag_start@) =~= b.subrange(p as int, b.len() as int)); // [T3.proof.candidate_text_is_source_from_offset]
                    encode_utf8_decode_utf8(potential_tag_start@);
                    assert(potential_tag_start@ == suffix_chars(self.source@, p as int));
                    assert(utf8(potential_tag_start@)[0] == 0x3cu8);
                    lemma_after_ascii_is_boundary(potential_tag_start@, 0);
                }
//@edit rule=ghost before=<<let end_position>> nth=0 of=2
                    proof {
                        // the rest after the match starts on a char boundary of the source
                        let b = utf8(self.source@);
                        let n = utf8(potential_tag_start@).len() - utf8(remaining@).len();
                        assert(utf8(remaining@) =~= b.subrange(self.cursor + offset + n, b.len() as int));
                        lemma_substr_starts_on_boundary(b, self.cursor + offset + n, remaining@);
                    }
//@edit rule=ghost before=<<let end_position>> nth=1 of=2
                    proof {
                        // the rest after the match starts on a char boundary of the source
                        let b = utf8(self.source@);
                        let n = utf8(potential_tag_start@).len() - utf8(remaining@).len();
                        assert(utf8(remaining@) =~= b.subrange(self.cursor + offset + n, b.len() as int));
                        lemma_substr_starts_on_boundary(b, self.cursor + offset + n, remaining@);
                    }
//@edit rule=ghost before=<<} else {>>
                proof {
                    // not a tag at the `<` under test: its position is no candidate. Stated at the END of the branch and
                    // over the offset captured before the two parse attempts, so that the order of the two
                    // independent statements `current_input = ..` / `offset += 1` does not matter.
                    assert(!cand(self.source@, self.cursor as int, self.cursor + verif_off_lt)); // [T3.proof.skipped_lt_is_no_candidate]
                    assert(utf8(potential_tag_start@).subrange(1, utf8(potential_tag_start@).len() as int)
                        =~= utf8(self.source@).subrange(self.cursor + verif_off_lt + 1, utf8(self.source@).len() as int));
                }
//@edit rule=ghost after=<<} else {>>
                proof {
                    // no `<` left: nothing at or after cursor + offset is a candidate
                    let bc = utf8(current_input@);
                    assert forall|q: int| !#[trigger] cand(self.source@, self.cursor as int, q) by {
                        let k = q - (self.cursor + offset);
                        if self.cursor + offset <= q && lt_at(self.source@, q) {
                            assert(bc.subrange(k, k + 1) =~= seq![0x3cu8]);
                            assert(occurs_at(bc, k, seq![0x3cu8]));
                        }
                    }
                }
//@chain rule=E13 find=<<.find(>> to=verif_find_str argkind=str count=all
//@strslice rule=E13 from=verif_str_from to=verif_str_to range=verif_str_range
//@edit rule=E13 find=<<parse_start_tag.parse_peek(>> count=all
verif_parse_start_tag_peek(
//@edit rule=E13 find=<<parse_end_tag.parse_peek(>> count=all
verif_parse_end_tag_peek(
//@end

}

// ---------------------------------------------------------------------------------------------
// What T3 means for group `blockpairs`. That group ASSUMES (prelude/blockp_tagparser.rs, A6 of
// blockpairs.notes.md) that `WinnowBlockTagParser::next` (a) leaves `source` unchanged, (b) returns
// an uninterpreted function `scan_tag(text, cursor)` of text and cursor, (c) satisfies `scan_wf`.
// (a) is T3.post.source_unchanged. (b): `lemma_t3_post_is_functional` — T3's postcondition leaves no
// freedom, so "the result and the new cursor are a function of (text, cursor)" is a theorem about
// the real loop (for any grammar). (c): `lemma_t3_implies_scan_wf` — every conjunct of `scan_wf`
// except "the byte before the new cursor is `>`", which is a fact about the grammar (`<block ... >`
// ends with `literal(">")`) and stays an explicit hypothesis.

pub proof fn lemma_t3_post_is_functional(t: Seq<char>, c0: usize,
    r1: anyhow::Result<Option<BlockTag>>, c1: usize, r2: anyhow::Result<Option<BlockTag>>, c2: usize)
    requires
        t3_post(t, c0, r1, c1),
        t3_post(t, c0, r2, c2),
    ensures
        r1 == r2 && c1 == c2, // [T3.lemma.result_is_a_function_of_text_and_cursor]
{
    match (r1, r2) {
        (Ok(Some(tag1)), Ok(Some(tag2))) => {
            let p1 = tag_pos(tag1);
            let p2 = tag_pos(tag2);
            if p1 < p2 { assert(cand(t, c0 as int, p1)); }
            if p2 < p1 { assert(cand(t, c0 as int, p2)); }
            assert(p1 == p2);
            match (tag1, tag2) {
                (BlockTag::Start { tag_range: g1, attributes: a1 }, BlockTag::Start { tag_range: g2, attributes: a2 }) => {
                    assert(g1.end - g1.start == g2.end - g2.start);
                    assert(g1 == g2);
                },
                (BlockTag::End { start_position: s1 }, BlockTag::End { start_position: s2 }) => {},
                _ => {},
            }
        },
        (Ok(Some(tag1)), Ok(None)) => { assert(cand(t, c0 as int, tag_pos(tag1))); },
        (Ok(None), Ok(Some(tag2))) => { assert(cand(t, c0 as int, tag_pos(tag2))); },
        _ => {},
    }
}

// the declarations of blockpairs' string layer and tag-scan assumption, copied textually
//@copyfrom file=prelude/blockp_strings.rs from=<</// `s.is_char_boundary(n)`>> until=<</// `char::len_utf8`>>
//@copyfrom file=prelude/blockp_tagparser.rs from=<</// Result of one>> until=<<impl<'source> WinnowBlockTagParser>>

/// blockpairs' uninterpreted `blen` / `char_boundary` / `char_at`, read in vstd's UTF-8 model (the
/// intended meaning written next to their declarations: `s.len()`, `s.is_char_boundary(n)`, "the
/// char whose encoding starts at byte offset n").
pub open spec fn blockp_strings_interpreted(t: Seq<char>) -> bool {
    &&& blen(t) == utf8(t).len()
    &&& forall|n: nat| #[trigger] char_boundary(t, n) <==> (n <= utf8(t).len() && byte_boundary(utf8(t), n as int))
    &&& forall|n: nat| n < utf8(t).len() && utf8(t)[n as int] == 0x3cu8 ==> #[trigger] char_at(t, n) == '<'
}

/// the one grammar fact in `scan_wf`: a start tag ends with `>`
pub open spec fn start_tags_end_with_gt(t: Seq<char>) -> bool {
    forall|p: int| #![trigger suffix_chars(t, p)] start_tag_match(suffix_chars(t, p)) matches Some((n, h)) ==>
        char_boundary(t, (p + n - 1) as nat) && char_at(t, (p + n - 1) as nat) == '>'
}

pub proof fn lemma_t3_implies_scan_wf(t: Seq<char>, c0: usize)
    requires
        t3_post(t, c0, scan_tag(t, c0).result, scan_tag(t, c0).cursor), // what T3 proves about the real `next`
        blockp_strings_interpreted(t),
        start_tags_end_with_gt(t),
    ensures
        scan_wf(t, c0), // [T3.lemma.scan_wf]
{
    let s = scan_tag(t, c0);
    if let Ok(Some(tag)) = s.result {
        assert(cand(t, c0 as int, tag_pos(tag)));
        match tag {
            BlockTag::Start { tag_range, attributes } => {
                let p = tag_range.start as int;
                assert(lt_at(t, p));
                assert(!is_cont(utf8(t)[p]));
                assert(char_boundary(t, p as nat));
                let g = suffix_chars(t, p);
                assert(start_tag_match(g) == Some(((tag_range.end - tag_range.start) as nat, attributes)));
            },
            BlockTag::End { start_position } => {},
        }
    }
}

} // verus!
fn main() {}
