// Group `merge`: unit V7 — how the per-validator results become the one per-file map that is reported.
//   V7s  `run_sync_validators` (whole function; threads replaced by rule E10)
//   V7a  the collect loop of `run_async_validators` (slice; sequential model of an arbitrary completion order)
//   V7m  the join-and-merge tail of `run` (slice)
// Properties: C11 ("every violation of every rule of every block appears exactly once": nothing lost,
// nothing duplicated, nothing overwritten by the merges), C13 (`*.post.err_propagates`: the first
// `Err` or panic of any validator aborts the run), C20 (the result does not depend on the iteration
// order of the per-validator hash maps), C04 (termination of the join loop).
use vstd::prelude::*;
use vstd::multiset::Multiset;
use std::collections::{HashMap, HashSet};
use std::ops::{Range, RangeInclusive};
use std::path::PathBuf;
use std::sync::Arc;

//@include prelude/anyhow.rs
//@include prelude/orch_ext.rs

verus! {

//@include prelude/orch_model.rs
//@include prelude/orch_maps.rs
//@include prelude/orch_merge.rs

// ---------------------------------------------------------------------------------------------
// Specification, written from the statement of C11, not from the code.
//
// `outs[i]` is what validator number i reported: per file, a list of violations. The merged report
// must contain, for every file, the concatenation of every validator's list for that file (in
// validator order), and must not mention a file no validator mentioned.

pub open spec fn get_or_empty(m: SpecViolations, f: PathBuf) -> Seq<Violation> {
    if m.contains_key(f) { m[f] } else { Seq::empty() }
}

/// the violations reported for file `f` by the first `n` validators, in validator order
pub open spec fn concat_for_file(outs: Seq<SpecViolations>, f: PathBuf, n: int) -> Seq<Violation>
    decreases n
{
    if n <= 0 { Seq::empty() } else { concat_for_file(outs, f, n - 1) + get_or_empty(outs[n - 1], f) }
}

pub open spec fn some_has_file(outs: Seq<SpecViolations>, f: PathBuf, n: int) -> bool {
    exists|i: int| 0 <= i < n && (#[trigger] outs[i]).contains_key(f)
}

/// `res` is exactly the merge of the first `n` results: nothing lost, nothing duplicated, nothing
/// overwritten, no file invented.
pub open spec fn merged_is(res: SpecViolations, outs: Seq<SpecViolations>, n: int) -> bool {
    forall|f: PathBuf| (#[trigger] res.contains_key(f) <==> some_has_file(outs, f, n))
        && (res.contains_key(f) ==> res[f] == concat_for_file(outs, f, n))
}

/// the same, while validator number `n`'s map `cur` is being folded in and the keys `done` of it
/// have been processed (the order in which they are is arbitrary: rule E4)
pub open spec fn merged_partially(res: SpecViolations, outs: Seq<SpecViolations>, n: int, cur: SpecViolations, ents: Seq<(PathBuf, Vec<Violation>)>, j: int) -> bool {
    forall|f: PathBuf| (#[trigger] res.contains_key(f) <==> some_has_file(outs, f, n) || key_done(ents, j, f))
        && (res.contains_key(f) ==> res[f] == concat_for_file(outs, f, n) + (if key_done(ents, j, f) { cur[f] } else { Seq::empty() }))
}

/// results of the sync validators, in validator order (only meaningful where `validate_spec` is `Some`)
pub open spec fn sync_outs(vs: Seq<Box<dyn ValidatorSync>>, ctx: &ValidationContext) -> Seq<SpecViolations> {
    Seq::new(vs.len(), |i: int| vs[i].validate_spec(*ctx).unwrap())
}

pub open spec fn sync_all_ok(vs: Seq<Box<dyn ValidatorSync>>, ctx: &ValidationContext, n: int) -> bool {
    forall|i: int| 0 <= i < n ==> !(#[trigger] vs[i]).validate_panics(*ctx) && vs[i].validate_spec(*ctx) is Some
}

/// `f` is the key of one of the first `j` entries
pub open spec fn key_done(ents: Seq<(PathBuf, Vec<Violation>)>, j: int, f: PathBuf) -> bool {
    exists|i: int| 0 <= i < j && (#[trigger] ents[i]).0 == f
}

/// `ents` enumerates the map `cur` without repetition (what rule E4 gives for `for (k, v) in M`)
pub open spec fn entries_of(ents: Seq<(PathBuf, Vec<Violation>)>, cur: SpecViolations) -> bool {
    &&& forall|i: int| 0 <= i < ents.len() ==> cur.contains_key((#[trigger] ents[i]).0) && cur[ents[i].0] == ents[i].1@
    &&& forall|i: int, j: int| 0 <= i < j < ents.len() ==> (#[trigger] ents[i]).0 != (#[trigger] ents[j]).0
    &&& forall|k: PathBuf| cur.contains_key(k) ==> exists|i: int| 0 <= i < ents.len() && (#[trigger] ents[i]).0 == k
}

/// One step of the fold: entry number `j` of validator `n`'s map is appended to the accumulated list
/// of its file (rule E5: `M' = M[k -> M.get_or(k, []) ++ v]`).
pub proof fn lemma_fold_entry(before: SpecViolations, after: SpecViolations, outs: Seq<SpecViolations>, n: int, cur: SpecViolations,
    ents: Seq<(PathBuf, Vec<Violation>)>, j: int)
    requires
        0 <= j < ents.len(),
        entries_of(ents, cur),
        merged_partially(before, outs, n, cur, ents, j),
        after.dom() == before.dom().insert(ents[j].0),
        after[ents[j].0] == get_or_empty(before, ents[j].0) + ents[j].1@,
        forall|f: PathBuf| f != ents[j].0 && before.contains_key(f) ==> after[f] == #[trigger] before[f],
    ensures
        merged_partially(after, outs, n, cur, ents, j + 1),
{
    let k = ents[j].0;
    assert forall|f: PathBuf| (#[trigger] after.contains_key(f) <==> some_has_file(outs, f, n) || key_done(ents, j + 1, f))
        && (after.contains_key(f) ==> after[f] == concat_for_file(outs, f, n) + (if key_done(ents, j + 1, f) { cur[f] } else { Seq::empty() })) by {
        if f == k {
            assert(ents[j].0 == f);
            assert(key_done(ents, j + 1, f));
            // not done before: keys are pairwise different
            assert(!key_done(ents, j, f)) by {
                if key_done(ents, j, f) {
                    let i = choose|i: int| 0 <= i < j && (#[trigger] ents[i]).0 == f;
                    assert(ents[i].0 != ents[j].0);
                }
            }
            assert(before.contains_key(f) <==> some_has_file(outs, f, n));
            if before.contains_key(f) {
                assert(before[f] == concat_for_file(outs, f, n) + Seq::<Violation>::empty());
                assert(concat_for_file(outs, f, n) + Seq::<Violation>::empty() =~= concat_for_file(outs, f, n));
            } else {
                lemma_concat_absent(outs, f, n);
                assert(Seq::<Violation>::empty() + ents[j].1@ =~= ents[j].1@);
                assert(Seq::<Violation>::empty() + cur[f] =~= cur[f]);
            }
        } else {
            assert(after.contains_key(f) <==> before.contains_key(f));
            assert(key_done(ents, j + 1, f) <==> key_done(ents, j, f)) by {
                if key_done(ents, j + 1, f) {
                    let i = choose|i: int| 0 <= i < j + 1 && (#[trigger] ents[i]).0 == f;
                    assert(i != j);
                }
                if key_done(ents, j, f) {
                    let i = choose|i: int| 0 <= i < j && (#[trigger] ents[i]).0 == f;
                    assert(0 <= i < j + 1 && ents[i].0 == f);
                }
            }
        }
    }
}

/// a file no validator mentioned has the empty concatenation
pub proof fn lemma_concat_absent(outs: Seq<SpecViolations>, f: PathBuf, n: int)
    requires !some_has_file(outs, f, n),
    ensures concat_for_file(outs, f, n) == Seq::<Violation>::empty(),
    decreases n,
{
    if n > 0 {
        assert(!some_has_file(outs, f, n - 1)) by {
            if some_has_file(outs, f, n - 1) {
                let i = choose|i: int| 0 <= i < n - 1 && (#[trigger] outs[i]).contains_key(f);
                assert(0 <= i < n && outs[i].contains_key(f));
            }
        }
        lemma_concat_absent(outs, f, n - 1);
        assert(!outs[n - 1].contains_key(f));
        assert(Seq::<Violation>::empty() + Seq::<Violation>::empty() =~= Seq::<Violation>::empty());
    }
}

/// all entries of validator `n`'s map folded in = the merge of the first `n + 1` results
pub proof fn lemma_fold_done(res: SpecViolations, outs: Seq<SpecViolations>, n: int, cur: SpecViolations, ents: Seq<(PathBuf, Vec<Violation>)>)
    requires
        0 <= n < outs.len(),
        outs[n] == cur,
        entries_of(ents, cur),
        merged_partially(res, outs, n, cur, ents, ents.len() as int),
    ensures
        merged_is(res, outs, n + 1),
{
    assert forall|f: PathBuf| (#[trigger] res.contains_key(f) <==> some_has_file(outs, f, n + 1))
        && (res.contains_key(f) ==> res[f] == concat_for_file(outs, f, n + 1)) by {
        assert(key_done(ents, ents.len() as int, f) <==> cur.contains_key(f)) by {
            if key_done(ents, ents.len() as int, f) {
                let i = choose|i: int| 0 <= i < ents.len() && (#[trigger] ents[i]).0 == f;
                assert(cur.contains_key(ents[i].0));
            }
        }
        assert(some_has_file(outs, f, n + 1) <==> some_has_file(outs, f, n) || cur.contains_key(f)) by {
            if some_has_file(outs, f, n + 1) {
                let i = choose|i: int| 0 <= i < n + 1 && (#[trigger] outs[i]).contains_key(f);
                if i < n { assert(some_has_file(outs, f, n)); }
            }
            if some_has_file(outs, f, n) {
                let i = choose|i: int| 0 <= i < n && (#[trigger] outs[i]).contains_key(f);
                assert(0 <= i < n + 1 && outs[i].contains_key(f));
            }
            if cur.contains_key(f) { assert(outs[n].contains_key(f)); }
        }
    }
}

#[verifier::loop_isolation(false)]
//@unit id=V7s file=src/validators/mod.rs fn=run_sync_validators ret=r
//@contract
    ensures
        // C13: any validator `Err` or panic makes the run fail; and nothing else does
        r is Ok <==> sync_all_ok(validators@, &*context, validators@.len() as int), // [V7s.post.err_propagates]
        // C11: per file, the concatenation in validator order of every validator's list; no other file
        r matches Ok(m) ==> merged_is(vmap(m@), sync_outs(validators@, &*context), validators@.len() as int), // [V7s.post.concat_in_validator_order]
//@edit rule=ghost before=<<let mut handles>>
    broadcast use axiom_pathbuf_key_model;
//@edit rule=E15 find=<<for validator in validators>>
    for validator in it: validators
        invariant
            handles@.len() == it.index@,
            forall|k: int| 0 <= k < it.index@ ==> join_outcome(#[trigger] handles@[k]) == outcome_of_sync(validators@[k], *context), // [V7s.inv.handle_k_is_validator_k]
            it.seq() == validators@,
//@edit rule=E10 find=<<std::thread::spawn(move || validator.validate(context))>>
verif_spawn_validate(validator, context)
//@edit rule=E15 find=<<for handle in handles>>
    for handle in it: handles
        invariant
            sync_all_ok(validators@, &*context, it.index@), // [V7s.inv.joined_so_far_all_ok]
            merged_is(vmap(violations@), sync_outs(validators@, &*context), it.index@), // [V7s.inv.merged_so_far]
            it.seq() == handles@,
            handles@.len() == validators@.len(), // [V7s.inv.one_handle_per_validator]
            forall|k: int| 0 <= k < handles@.len() ==> join_outcome(#[trigger] handles@[k]) == outcome_of_sync(validators@[k], *context),
//@edit rule=ghost after=<<Ok(Ok(file_violations)) => {>>
                let ghost n = it.index@;
                let ghost cur = vmap(file_violations@);
                let ghost acc0 = vmap(violations@);
                proof {
                    assert(outcome_of_sync(validators@[n], *context) == ThreadOutcome::Finished(Some(cur)));
                    assert(sync_outs(validators@, &*context)[n] == cur);
                }
//@edit rule=E4 find=<<for (file_path, file_violations) in file_violations>>
                let verif_entries = verif_into_entries(file_violations);
                let ghost ents = verif_entries@;
                proof {
                    lemma_vmap(file_violations@);
                    lemma_vmap(violations@);
                    assert forall|i: int| 0 <= i < ents.len() implies cur.contains_key((#[trigger] ents[i]).0) && cur[ents[i].0] == ents[i].1@ by {
                        assert(file_violations@.contains_key(ents[i].0));
                    }
                    assert forall|k: PathBuf| cur.contains_key(k) implies exists|i: int| 0 <= i < ents.len() && (#[trigger] ents[i]).0 == k by {
                        assert(file_violations@.contains_key(k));
                    }
                    assert(entries_of(ents, cur));
                    assert(merged_partially(acc0, sync_outs(validators@, &*context), n, cur, ents, 0));
                }
                for (file_path, file_violations) in it2: verif_entries
                    invariant
                        merged_partially(vmap(violations@), sync_outs(validators@, &*context), n, cur, ents, it2.index@), // [V7s.inv.entries_folded_so_far]
                        it2.seq() == ents,
                        sync_outs(validators@, &*context)[n] == cur,
                        entries_of(ents, cur),
//@edit rule=E5 find=<<violations .entry(file_path) .or_insert_with(Vec::new) .extend(file_violations)>> optional=1
{
                        let ghost before = violations@;
                        let ghost j = it2.index@;
                        verif_map_extend(&mut violations, file_path, file_violations);
                        proof {
                            lemma_vmap(before);
                            lemma_vmap(violations@);
                            lemma_fold_entry(vmap(before), vmap(violations@), sync_outs(validators@, &*context), n, cur, ents, j);
                        }
                    }
//@edit rule=ghost before=<<} Ok(Err(e)) =>>>
                proof {
                    lemma_vmap(violations@);
                    lemma_fold_done(vmap(violations@), sync_outs(validators@, &*context), n, cur, ents);
                }
//@macro rule=E1 name=anyhow to=<<anyhow::verif_err()>> optional=1
//@end


// ---------------------------------------------------------------------------------------------
// V7a: the collect loop of `run_async_validators` (mod.rs, inside `block_on(async move { .. })`).
// Verus has no async: the loop is verified as a *sequential* function over a join set whose ghost
// content is the multiset of outcomes still to come; `join_next` hands out an arbitrary one (rule
// E10, `.await` dropped). What is proved is therefore the fold, for EVERY completion order; the
// spawning of the tasks (mod.rs:187-191), the tokio runtime and the tasks themselves are not covered.

/// the multiset of outcomes "finished with result s[i]" of a sequence of results
pub open spec fn outcomes_of(s: Seq<SpecViolations>) -> Multiset<ThreadOutcome>
    decreases s.len()
{
    if s.len() == 0 { Multiset::empty() } else { outcomes_of(s.drop_last()).insert(ThreadOutcome::Finished(Some(s.last()))) }
}

pub open spec fn all_finished_ok(p: Multiset<ThreadOutcome>) -> bool {
    forall|o: ThreadOutcome| p.count(o) > 0 ==> o matches ThreadOutcome::Finished(Some(_))
}

pub proof fn lemma_outcomes_push(s: Seq<SpecViolations>, m: SpecViolations)
    ensures outcomes_of(s.push(m)) == outcomes_of(s).insert(ThreadOutcome::Finished(Some(m))),
{
    assert(s.push(m).drop_last() =~= s);
}

pub proof fn lemma_outcomes_all_ok(s: Seq<SpecViolations>)
    ensures all_finished_ok(outcomes_of(s)),
    decreases s.len(),
{
    if s.len() > 0 {
        lemma_outcomes_all_ok(s.drop_last());
    }
}

/// `merged_is` looks at the first `n` results only
pub proof fn lemma_merged_prefix(res: SpecViolations, o1: Seq<SpecViolations>, o2: Seq<SpecViolations>, n: int)
    requires
        0 <= n <= o1.len(), n <= o2.len(),
        forall|i: int| 0 <= i < n ==> o1[i] == o2[i],
        merged_is(res, o1, n),
    ensures
        merged_is(res, o2, n),
{
    assert forall|f: PathBuf| (#[trigger] res.contains_key(f) <==> some_has_file(o2, f, n))
        && (res.contains_key(f) ==> res[f] == concat_for_file(o2, f, n)) by {
        lemma_concat_prefix(o1, o2, f, n);
        if some_has_file(o1, f, n) {
            let i = choose|i: int| 0 <= i < n && (#[trigger] o1[i]).contains_key(f);
            assert(o2[i].contains_key(f));
        }
        if some_has_file(o2, f, n) {
            let i = choose|i: int| 0 <= i < n && (#[trigger] o2[i]).contains_key(f);
            assert(o1[i].contains_key(f));
        }
    }
}

pub proof fn lemma_concat_prefix(o1: Seq<SpecViolations>, o2: Seq<SpecViolations>, f: PathBuf, n: int)
    requires
        0 <= n <= o1.len(), n <= o2.len(),
        forall|i: int| 0 <= i < n ==> o1[i] == o2[i],
    ensures
        concat_for_file(o1, f, n) == concat_for_file(o2, f, n),
    decreases n,
{
    if n > 0 {
        lemma_concat_prefix(o1, o2, f, n - 1);
    }
}

#[verifier::loop_isolation(false)]
//@unit id=V7a file=src/validators/mod.rs fn=run_async_validators slice_from=<<let mut violations = HashMap::new();>> slice_through=<<while let Some(result) = tasks.join_next().await>>
//@wrapper
fn run_async_collect(tasks: &mut VerifJoinSet) -> (r: anyhow::Result<HashMap<PathBuf, Vec<Violation>>>)
    ensures
        // C13: a task that failed or panicked makes the run fail; and nothing else does
        r is Ok <==> all_finished_ok(pending(*old(tasks))), // [V7a.post.err_propagates]
        // C11: the report is the merge of all task results taken in SOME order (the completion order):
        // per file a concatenation by validator, nothing lost, duplicated or overwritten
        r matches Ok(m) ==> exists|order: Seq<SpecViolations>| #[trigger] outcomes_of(order) == pending(*old(tasks)) // [V7a.post.concat_in_completion_order]
            && merged_is(vmap(m@), order, order.len() as int),
//@tail
    proof {
        lemma_vmap(violations@);
        lemma_outcomes_all_ok(consumed);
        assert(outcomes_of(consumed) =~= pending(*old(tasks)));
        assert(merged_is(vmap(violations@), consumed, consumed.len() as int));
        assert(outcomes_of(consumed) == pending(*old(tasks)));
    }
    Ok(violations)
//@edit rule=ghost after=<<let mut violations = HashMap::new();>>
    broadcast use axiom_pathbuf_key_model;
    let ghost mut consumed: Seq<SpecViolations> = Seq::empty();
    proof { lemma_vmap(violations@); }
//@edit rule=E10 find=<<tasks.join_next().await>>
tasks.join_next()
//@whilelet rule=E6 find=<<while let Some(result) = tasks.join_next()>>
        invariant
            outcomes_of(consumed).add(pending(*tasks)) == pending(*old(tasks)), // [V7a.inv.joined_plus_pending_is_all]
            merged_is(vmap(violations@), consumed, consumed.len() as int), // [V7a.inv.merged_so_far]
        decreases pending(*tasks).len(), // [V7a.safety.join_loop_terminates]
//@edit rule=ghost before=<<match tasks.join_next()>>
        let ghost pend0 = pending(*tasks);
//@edit rule=ghost after=<<match tasks.join_next() { Some(result) => {>>
            let ghost o = choose|o: ThreadOutcome| #[trigger] pend0.count(o) > 0
                && pending(*tasks) == pend0.remove(o)
                && (result is Err <==> o is Panicked)
                && (result matches Ok(Ok(m)) ==> o == ThreadOutcome::Finished(Some(vmap(m@))))
                && (result matches Ok(Err(_)) ==> o == ThreadOutcome::Finished(None));
            proof {
                assert(pending(*old(tasks)).count(o) > 0);
            }
//@edit rule=ghost after=<<Ok(Ok(file_violations)) => {>>
                let ghost n = consumed.len() as int;
                let ghost cur = vmap(file_violations@);
                let ghost acc0 = vmap(violations@);
                let ghost outs = consumed.push(cur);
                proof {
                    lemma_merged_prefix(acc0, consumed, outs, n);
                }
//@edit rule=E4 find=<<for (file_path, file_violations) in file_violations>>
                let verif_entries = verif_into_entries(file_violations);
                let ghost ents = verif_entries@;
                proof {
                    lemma_vmap(file_violations@);
                    lemma_vmap(violations@);
                    assert forall|i: int| 0 <= i < ents.len() implies cur.contains_key((#[trigger] ents[i]).0) && cur[ents[i].0] == ents[i].1@ by {
                        assert(file_violations@.contains_key(ents[i].0));
                    }
                    assert forall|k: PathBuf| cur.contains_key(k) implies exists|i: int| 0 <= i < ents.len() && (#[trigger] ents[i]).0 == k by {
                        assert(file_violations@.contains_key(k));
                    }
                    assert(entries_of(ents, cur));
                    assert(merged_partially(acc0, outs, n, cur, ents, 0));
                }
                for (file_path, file_violations) in it2: verif_entries
                    invariant
                        merged_partially(vmap(violations@), outs, n, cur, ents, it2.index@), // [V7a.inv.entries_folded_so_far]
                        it2.seq() == ents,
                        entries_of(ents, cur),
//@edit rule=E5 find=<<violations .entry(file_path) .or_insert_with(Vec::new) .extend(file_violations)>> optional=1
{
                        let ghost before = violations@;
                        let ghost j = it2.index@;
                        verif_map_extend(&mut violations, file_path, file_violations);
                        proof {
                            lemma_vmap(before);
                            lemma_vmap(violations@);
                            lemma_fold_entry(vmap(before), vmap(violations@), outs, n, cur, ents, j);
                        }
                    }
//@edit rule=ghost before=<<} Ok(Err(e)) =>>>
                proof {
                    lemma_vmap(violations@);
                    lemma_fold_done(vmap(violations@), outs, n, cur, ents);
                    lemma_outcomes_push(consumed, cur);
                    consumed = outs;
                    assert(outcomes_of(consumed).add(pending(*tasks)) =~= pending(*old(tasks)));
                }
//@macro rule=E1 name=anyhow to=<<anyhow::verif_err()>> optional=1
//@end

// ---------------------------------------------------------------------------------------------
// V7m: the tail of `run` (mod.rs:228-245): join the two threads, propagate their failures, then fold
// the async map into the sync map. The two `std::thread::spawn` calls above it are rule E10 material
// (threads not modelled): the handles are parameters here, with whatever outcome they carry.

pub open spec fn finished_ok(o: ThreadOutcome) -> bool {
    o matches ThreadOutcome::Finished(Some(_))
}

pub open spec fn result_of(o: ThreadOutcome) -> SpecViolations {
    o->Finished_0.unwrap()
}

#[verifier::loop_isolation(false)]
//@unit id=V7m file=src/validators/mod.rs fn=run slice_from=<<let sync_violations_result = sync_violations_handle>> slice_through=<<for (file_path, file_violations) in async_violations>>
//@wrapper
fn run_join_and_merge(sync_violations_handle: VerifJoinHandle, async_violations_handle: VerifJoinHandle) -> (r: anyhow::Result<HashMap<PathBuf, Vec<Violation>>>)
    ensures
        // C13: a panic or an `Err` of either half makes `run` fail; and nothing else does
        r is Ok <==> finished_ok(join_outcome(sync_violations_handle)) && finished_ok(join_outcome(async_violations_handle)), // [V7m.post.err_propagates]
        // C11: per file, the sync validators' diagnostics followed by the async validators' ones
        r matches Ok(m) ==> merged_is(vmap(m@), // [V7m.post.sync_then_async]
            seq![result_of(join_outcome(sync_violations_handle)), result_of(join_outcome(async_violations_handle))], 2),
//@tail
    proof {
        lemma_vmap(violations@);
        lemma_fold_done(vmap(violations@), outs, 1, cur, ents);
    }
    Ok(violations)
//@macro rule=E1 name=anyhow to=<<anyhow::verif_err()>> optional=1
//@edit rule=ghost before=<<let sync_violations_result>>
    broadcast use axiom_pathbuf_key_model;
//@edit rule=E4 find=<<for (file_path, file_violations) in async_violations>>
    let ghost cur = vmap(async_violations@);
    let ghost acc0 = vmap(violations@);
    let ghost outs = seq![acc0, cur];
    let verif_entries = verif_into_entries(async_violations);
    let ghost ents = verif_entries@;
    proof {
        lemma_vmap(async_violations@);
        lemma_vmap(violations@);
        assert(acc0 == result_of(join_outcome(sync_violations_handle))); // [V7m.proof.fold_starts_from_sync_result]
        assert(cur == result_of(join_outcome(async_violations_handle))); // [V7m.proof.fold_adds_async_result]
        assert forall|i: int| 0 <= i < ents.len() implies cur.contains_key((#[trigger] ents[i]).0) && cur[ents[i].0] == ents[i].1@ by {
            assert(async_violations@.contains_key(ents[i].0));
        }
        assert forall|k: PathBuf| cur.contains_key(k) implies exists|i: int| 0 <= i < ents.len() && (#[trigger] ents[i]).0 == k by {
            assert(async_violations@.contains_key(k));
        }
        assert(entries_of(ents, cur));
        // the sync map alone is the merge of the first result
        assert forall|f: PathBuf| (#[trigger] acc0.contains_key(f) <==> some_has_file(outs, f, 1))
            && (acc0.contains_key(f) ==> acc0[f] == concat_for_file(outs, f, 1)) by {
            if acc0.contains_key(f) { assert(outs[0].contains_key(f)); }
            assert(concat_for_file(outs, f, 0) == Seq::<Violation>::empty());
            assert(Seq::<Violation>::empty() + get_or_empty(outs[0], f) =~= get_or_empty(outs[0], f));
        }
        assert(merged_partially(acc0, outs, 1, cur, ents, 0)) by {
            assert forall|f: PathBuf| acc0.contains_key(f) implies acc0[f] == concat_for_file(outs, f, 1) + Seq::<Violation>::empty() by {
                assert(concat_for_file(outs, f, 1) + Seq::<Violation>::empty() =~= concat_for_file(outs, f, 1));
            }
        }
    }
    for (file_path, file_violations) in it2: verif_entries
        invariant
            merged_partially(vmap(violations@), outs, 1, cur, ents, it2.index@), // [V7m.inv.entries_folded_so_far]
            it2.seq() == ents,
            entries_of(ents, cur),
//@edit rule=E5 find=<<violations .entry(file_path) .or_insert_with(Vec::new) .extend(file_violations)>> optional=1
{
            let ghost before = violations@;
            let ghost j = it2.index@;
            verif_map_extend(&mut violations, file_path, file_violations);
            proof {
                lemma_vmap(before);
                lemma_vmap(violations@);
                lemma_fold_entry(vmap(before), vmap(violations@), outs, 1, cur, ents, j);
            }
        }
//@end

} // verus!
fn main() {}
