// Group `mainwire`: the wiring of the CLI that is outside every other contract group.
//   A1..A5  accessors of `flags::Args` (src/flags.rs): `extensions` (the -E map, later entries win),
//           `disabled_validators` / `enabled_validators` (the SET of names), `globs` (positional + `list`
//           globs as one glob set, Err on an invalid pattern), `ignored_globs` (the --ignore set)
//   M2      `repository_root_path` (src/main.rs): the nearest ancestor, the path itself included, that has a
//           `.git` ENTRY (file or directory) or a `.hg` directory, else Err
//   FS1..3  `FileSystemImpl::{new, read_to_string, walk}` (src/blocks.rs): every read is `root.join(path)`;
//           the walk skips directories, reports paths relative to the root, passes errors on
//   M1c     `ValidationContext::new`
//   M1      `main` (src/main.rs), whole function; its last statements are unit V8g of group report (rule
//           SLICE-CALL). The process environment is a set of uninterpreted "world" functions; the callees
//           under contract elsewhere are stubs (F1, PCn, V10, V8g, V8p with their proven contracts; Da, B7, L2 as
//           uninterpreted `*_spec` functions); the C11/C14/C15/C16 statements are obligations at the call
//           sites (labels `M1.post.*` on the stubs' preconditions) plus postconditions on the result.
// Properties: C14 (A2, A3, M1), C15 (A4, A5, M2, FS2, FS3, M1), C16 (A1, M1), C11 (M1), C13 (M1: every `?`),
// C20 (M2, FS2, FS3: root-relative paths), C04 (safety obligations of all units).
// Notes: contracts/groups/mainwire.notes.md
use vstd::prelude::*;
use std::collections::{HashMap, HashSet};
use std::ffi::OsString;
use std::ops::{Range, RangeInclusive};
use std::path::{Path, PathBuf};
use std::sync::Arc;

//@include prelude/mainw_anyhow.rs
//@include prelude/mainw_ax.rs
//@include prelude/tstr_mod.rs
//@include prelude/mainw_globset.rs
//@include prelude/mainw_ignore.rs
//@include prelude/mainw_serde.rs
//@include prelude/mainw_paths.rs
use ignore::Walk;
use anyhow::Context;
use globset::{Glob, GlobSet, GlobSetBuilder, compile_all, glob_of, glob_set_of, glob_set_build, glob_count, glob_matches, glob_match_one,
    axiom_glob_set_build, axiom_double_star_matches_all};

verus! {

broadcast use {vstd::std_specs::hash::group_hash_axioms, mainw_ax::group_mainw_ax, tstr::group_tstr, globset::group_globset, mainw_paths::group_mainw_paths};

//@include prelude/orch_model.rs
//@include prelude/report_printable.rs
//@include prelude/mainw_args.rs

//@item file=src/flags.rs kind=enum name=SubCommand
//@item file=src/flags.rs kind=struct name=Args

// ---------------------------------------------------------------------------------------------
// Specification of the accessors, from the statements of C14 / C15 / C16.

/// C15: the positional glob patterns: those given before a sub-command plus those given to `list`
pub open spec fn list_patterns(a: Args) -> Seq<Seq<char>> {
    match a.command {
        Some(SubCommand::List { globs }) => str_views(globs@),
        None => Seq::empty(),
    }
}

pub open spec fn positional_patterns(a: Args) -> Seq<Seq<char>> {
    str_views(a.globs@) + list_patterns(a)
}

/// C15: the `--ignore` patterns
pub open spec fn ignore_patterns(a: Args) -> Seq<Seq<char>> {
    str_views(a.ignore@)
}

/// `compile_all` over a prefix only looks at the prefix
pub proof fn lemma_compile_all_step(pats: Seq<Seq<char>>, n: int)
    requires 0 <= n < pats.len(),
    ensures
        compile_all(pats, n + 1) == (match (compile_all(pats, n), glob_of(pats[n])) {
            (Some(gs), Some(g)) => Some(gs.push(g)),
            _ => None::<Seq<Glob>>,
        }),
{
}

/// once a pattern is invalid, the whole list is
pub proof fn lemma_compile_all_none(pats: Seq<Seq<char>>, n: int, m: int)
    requires 0 <= n <= m, compile_all(pats, n) is None,
    ensures compile_all(pats, m) is None,
    decreases m - n,
{
    if n < m {
        lemma_compile_all_none(pats, n, m - 1);
    }
}

/// Verified glue (NOT trusted) between the generic E3 shim `verif_iter_map_collect_map` and A1's
/// specification: if the closure converts every (key, value) pair with `OsString::from`, the collected
/// map is `ext_map`.
pub fn verif_collect_ext_map<F: FnMut(&(String, String)) -> (OsString, OsString)>(v: &Vec<(String, String)>, f: F) -> (r: HashMap<OsString, OsString>)
    requires
        forall|i: int| 0 <= i < v@.len() ==> call_requires(f, (&#[trigger] v@[i],)),
        forall|i: int, o: (OsString, OsString)| 0 <= i < v@.len() && #[trigger] call_ensures(f, (&v@[i],), o)
            ==> o.0 == osstring_of(v@[i].0@) && o.1 == osstring_of(v@[i].1@),
    ensures
        r@ == ext_map(v@),
{
    let r = verif_iter_map_collect_map(v, f);
    proof {
        let outs = choose|outs: Seq<(OsString, OsString)>| outs.len() == v@.len()
            && (forall|i: int| 0 <= i < v@.len() ==> call_ensures(f, (&v@[i],), #[trigger] outs[i]))
            && r@ == mainw_pairs_to_map(outs, outs.len() as int);
        assert(is_ext_pairs(outs, v@));
        lemma_pairs_ext_map(outs, v@, v@.len() as int);
    }
    r
}

impl Args {

// A1 (C16): the -E map
//@unit id=A1 file=src/flags.rs fn=<<impl Args::extensions>> ret=r
//@contract
        ensures
            r@ == ext_map(self.extensions@), // [A1.post.map_of_pairs_later_wins]
//@closure rule=E12 find=<<|(key, val)|>> params=<<|entry: &(String, String)|>> ret=<<kv: (OsString, OsString)>>
                ensures kv.0 == osstring_of(entry.0@) && kv.1 == osstring_of(entry.1@), // [A1.closure.pair_converted_with_osstring_from]
//@edit rule=E12 after=<<osstring_of(entry.1@), {>>
                let (key, val) = entry;
//@edit rule=E13 find=<<OsString::from($a)>> count=all optional=1
verif_osstring_from($a)
//@chain rule=E3 find=<<.iter().map(>> to=verif_collect_ext_map suffix=<<.collect()>> recvprefix=<<&>>
//@end

// A2 (C14): the --disable names as a set
//@unit id=A2 file=src/flags.rs fn=<<impl Args::disabled_validators>> ret=r
//@contract
        ensures
            is_name_set(r@, self.disabled_validators@), // [A2.post.set_of_disabled_names]
//@chain rule=E3 find=<<.iter().map(AsRef::as_ref).collect()>> to=verif_iter_as_ref_collect_set recvprefix=<<&>>
//@end

// A3 (C14): the --enable names as a set
//@unit id=A3 file=src/flags.rs fn=<<impl Args::enabled_validators>> ret=r
//@contract
        ensures
            is_name_set(r@, self.enabled_validators@), // [A3.post.set_of_enabled_names]
//@chain rule=E3 find=<<.iter().map(AsRef::as_ref).collect()>> to=verif_iter_as_ref_collect_set recvprefix=<<&>>
//@end

// A4 (C15): the positional globs (incl. those of `list`) as one glob set; an invalid pattern is an error
#[verifier::loop_isolation(false)]
//@unit id=A4 file=src/flags.rs fn=<<impl Args::globs>> ret=r
//@contract
        ensures
            r matches Ok(s) ==> glob_set_of(positional_patterns(*self)) == Some(s), // [A4.post.set_of_positional_and_list_globs]
            r is Err ==> glob_set_of(positional_patterns(*self)) is None, // [A4.post.err_only_if_invalid_pattern]
//@chain rule=E5 find=<<.extend(>> to=verif_vec_extend recvprefix=<<&mut >> optional=1
//@macro rule=E1 name=format to=<<anyhow::verif_msg()>> optional=1
//@edit rule=E15 find=<<for $a in &$b>>
        let ghost pats = str_views($b@);
        proof {
            // the list iterated is the positional globs followed by the globs of `list`
            assert(pats =~= positional_patterns(*self)); // [A4.step.patterns_are_positional_then_list]
        }
        for $a in it: &$b
            invariant
                compile_all(pats, it.index@ as int) == Some(builder.pats()), // [A4.inv.every_pattern_so_far_added]
                pats == str_views($b@),
                it.seq().len() == $b@.len(),
                forall|i: int| 0 <= i < it.seq().len() ==> *#[trigger] it.seq()[i] == $b@[i],
//@edit rule=ghost before=<<builder.build()>>
        proof {
            assert(compile_all(pats, pats.len() as int) == Some(builder.pats()));
        }
//@edit rule=ghost after=<<*#[trigger] it.seq()[i] == $b@[i], {>>
            proof {
                // an invalid pattern makes the whole list invalid
                if glob_of(pats[it.index@ as int]) is None {
                    lemma_compile_all_none(pats, it.index@ + 1, pats.len() as int);
                }
            }
//@end

// A5 (C15): the --ignore globs as one glob set; an invalid pattern is an error
#[verifier::loop_isolation(false)]
//@unit id=A5 file=src/flags.rs fn=<<impl Args::ignored_globs>> ret=r
//@contract
        ensures
            r matches Ok(s) ==> glob_set_of(ignore_patterns(*self)) == Some(s), // [A5.post.set_of_ignore_globs]
            r is Err ==> glob_set_of(ignore_patterns(*self)) is None, // [A5.post.err_only_if_invalid_pattern]
//@macro rule=E1 name=format to=<<anyhow::verif_msg()>> optional=1
//@edit rule=E15 find=<<for $a in &self.$b>>
        let ghost pats = str_views(self.$b@);
        proof {
            assert(pats =~= ignore_patterns(*self)); // [A5.step.patterns_are_the_ignore_list]
        }
        for $a in it: &self.$b
            invariant
                compile_all(pats, it.index@ as int) == Some(builder.pats()), // [A5.inv.every_pattern_so_far_added]
                pats == str_views(self.$b@),
                it.seq().len() == self.$b@.len(),
                forall|i: int| 0 <= i < it.seq().len() ==> *#[trigger] it.seq()[i] == self.$b@[i],
//@edit rule=ghost after=<<*#[trigger] it.seq()[i] == self.$b@[i], {>>
            proof {
                // an invalid pattern makes the whole list invalid
                if glob_of(pats[it.index@ as int]) is None {
                    lemma_compile_all_none(pats, it.index@ + 1, pats.len() as int);
                }
            }
//@edit rule=ghost before=<<builder.build()>>
        proof {
            assert(compile_all(pats, pats.len() as int) == Some(builder.pats()));
        }
//@end

} // impl Args

// ---------------------------------------------------------------------------------------------
// M2: `repository_root_path` (src/main.rs). C15: "under the repository root ... wherever blockwatch is
// started inside the repository"; C20: "paths relative to repository root".

//@unit id=M2 file=src/main.rs fn=repository_root_path ret=r
//@contract
    ensures
        r matches Ok(root) ==> nearest_repo_root(current_path, root), // [M2.post.nearest_ancestor_with_git_entry_or_hg_dir]
        r is Err ==> no_repo_root(current_path), // [M2.post.err_only_without_root]
        // summary used by M1 (the nearest root is unique: `lemma_nearest_root_is_spec`)
        // (stated as an implication from the first clause: the lemma's trigger term is then a hypothesis, which
        // keeps the proof independent of the solver's state)
        r matches Ok(root) ==> (nearest_repo_root(current_path, root) ==> repo_root_spec(current_path) == Some(root)), // [M2.post.is_spec]
        r is Err ==> repo_root_spec(current_path) is None,
//@macro rule=E1 name=anyhow to=<<anyhow::verif_err()>> optional=1
//@closure rule=E12 find=<<|path|>> nth=0 of=2 params=<<|path: &&Path|>> ret=<<hit: bool>>
            ensures hit == is_repo_root(path_owned(*path)), // [M2.closure.git_entry_or_hg_directory]
//@closure rule=E12 find=<<|path|>> params=<<|path: &Path|>> ret=<<owned: PathBuf>>
            ensures owned == path_owned(path), // [M2.closure.owned_copy]
//@chain rule=E13 find=<<.join(>> to=verif_path_join_str argkind=str count=all optional=1
//@chain rule=E13 find=<<.ancestors()>> to=verif_ancestors recvprefix=<<&>>
//@chain rule=E3 find=<<.find(>> to=verif_iter_find extra=<<Ghost(|p: PathBuf| is_repo_root(p))>> optional=1
//@chain rule=E3 find=<<.filter(>> to=verif_iter_filter extra=<<Ghost(|p: PathBuf| is_repo_root(p))>> optional=1
//@end

// ---------------------------------------------------------------------------------------------
// FS1..FS3: `FileSystemImpl` (src/blocks.rs). C15: "Diff paths are resolved against the repository
// root ... wherever blockwatch is started inside the repository"; C20: "paths relative to repository
// root"; C11: "each root-relative file path".
//@item file=src/blocks.rs kind=struct name=FileSystemImpl

/// C15/C20: the path a walked entry is reported under: relative to the root (the entry's own path if
/// it is not below the root)
pub open spec fn relative_to(root: PathBuf, p: PathBuf) -> PathBuf {
    match path_strip_prefix_spec(p, root) {
        Some(rel) => rel,
        None => p,
    }
}

/// what the walk makes of one entry: directories are skipped, files are reported relative to the
/// root, errors are passed on (never dropped, never turned into a path)
pub open spec fn walk_item_ok(root: PathBuf, entry: Result<ignore::DirEntry, ignore::Error>, o: Option<anyhow::Result<PathBuf>>) -> bool {
    match entry {
        Ok(e) => if is_dir_spec(e.path_spec()) { o is None } else { o == Some(Ok::<PathBuf, anyhow::Error>(relative_to(root, e.path_spec()))) },
        Err(_) => o matches Some(Err(_)),
    }
}

/// `items` is what `FileSystemImpl::walk` yields for the directory walk `entries` below `root`
pub open spec fn walk_items_ok(root: PathBuf, entries: Seq<Result<ignore::DirEntry, ignore::Error>>, items: Seq<anyhow::Result<PathBuf>>) -> bool {
    exists|outs: Seq<Option<anyhow::Result<PathBuf>>>| outs.len() == entries.len()
        && (forall|i: int| 0 <= i < outs.len() ==> walk_item_ok(root, entries[i], #[trigger] outs[i]))
        && items == somes(outs)
}

impl FileSystemImpl {

//@unit id=FS1 file=src/blocks.rs fn=<<impl FileSystemImpl::new>> ret=r
//@contract
        ensures r.root_path == root_path, // [FS1.post.rooted_at_argument]
//@end

// FS2: every read goes through the root (never the current directory)
//@unit id=FS2 file=src/blocks.rs fn=<<impl FileSystem for FileSystemImpl::read_to_string>>
//@sig rule=E7 was=<<fn read_to_string(&self, path: &Path) -> anyhow::Result<String>>>
    fn read_to_string(&self, path: &Path) -> (r: anyhow::Result<String>)
//@contract
        ensures
            r matches Ok(s) ==> disk_read_spec(path_join_path_spec(self.root_path, path_owned(path))) == Some(s@), // [FS2.post.reads_path_joined_to_root]
            r is Err ==> disk_read_spec(path_join_path_spec(self.root_path, path_owned(path))) is None, // [FS2.post.err_iff_unreadable]
//@macro rule=E1 name=format to=<<anyhow::verif_msg()>> optional=1
//@chain rule=E13 find=<<.join(>> to=verif_path_join recvprefix=<<&>> count=all optional=1
//@edit rule=E13 find=<<std::fs::read_to_string(>> optional=1
verif_fs_read_to_string(
//@end

// FS3: the walk: directories skipped, paths relative to the root, errors passed on
//@unit id=FS3 file=src/blocks.rs fn=<<impl FileSystem for FileSystemImpl::walk>>
//@sig rule=E7 was=<<fn walk(&self) -> impl Iterator<Item = anyhow::Result<PathBuf>>>>
    fn walk(&self) -> (r: WalkIter)
//@contract
        ensures
            walk_items_ok(self.root_path, ignore::walk_entries_spec(self.root_path), r.pending()), // [FS3.post.files_relative_to_root_dirs_skipped_errors_kept]
//@closure rule=E12 find=<<|entry|>> params=<<|entry: Result<ignore::DirEntry, ignore::Error>|>> ret=<<o: Option<anyhow::Result<PathBuf>>>>
            ensures walk_item_ok(root_path, entry, o), // [FS3.closure.dir_skipped_file_relative_err_kept]
//@chain rule=E13 find=<<.strip_prefix(>> to=verif_path_strip_prefix optional=1
//@chain rule=E13 find=<<.join(>> to=verif_path_join_str argkind=str count=all optional=1
//@chain rule=E3 find=<<.filter_map(>> to=verif_walk_filter_map
//@end

} // impl FileSystemImpl

// ---------------------------------------------------------------------------------------------
// M1: `main` (src/main.rs). The process environment is a set of uninterpreted constants / functions
// ("the world": command line, grammar table, stdin, environment, disk). `main` returns nothing but
// `Result<()>`; what it DOES is the sequence of calls it makes. Its specification is therefore
//   (a) a functional model of the wiring, written from the statements of C11 / C14 / C15 / C16 as closed
//       terms over the world (`expected_allow`, `expected_scan`, `expected_root`, `expected_blocks`, ...),
//   (b) obligations AT THE CALL SITES of the effectful callees (preconditions of their stubs, labelled
//       `M1.post.*`): each callee must be handed exactly the model's value, and may only be called once
//       the command line has been accepted (`!cli_rejected()`), resp. not at all under `list`,
//   (c) ordinary postconditions for what the result tells: rejected command line => `Err`, every failing
//       step => `Err`.

//@item file=src/diff_parser.rs kind=struct name=LineChange
//@item file=src/blocks.rs kind=struct name=PathCheckerImpl
//@item file=src/validators/mod.rs kind=type name=SyncValidators
//@item file=src/validators/mod.rs kind=type name=AsyncValidators

/// `LanguageParser = Rc<RefCell<Box<dyn BlocksParser>>>`: opaque stand-in (T-ext; same as in prelude/blocks_sel.rs)
#[verifier::external_body]
pub struct LanguageParser { p: std::rc::Rc<std::cell::RefCell<Box<dyn std::any::Any>>> }

//@copyfrom file=groups/detect.rs from=<<// `type DetectorFactory = fn()>> until=<<// ---- E3 shim>>

// C11, the reporting stage (specification of group report: `exists_error`, `report_is`, the stderr world,
// `stderr_report_fails` / `stderr_report_written`), copied textually: V8g's contract below is stated with it
//@copyfrom file=groups/report.rs from=<</// some violation of the run has severity>> until=<<// ---- end of the specification shared with group mainwire>>

// ---- the world ---------------------------------------------------------------------------------------
/// what clap makes of this process's command line (`Args::parse()`; exits on a syntax error)
pub uninterp spec fn process_args() -> Args;
/// the grammar table `language_parsers()` builds (`None` = `Err`)
pub uninterp spec fn grammar_table() -> Option<Map<OsString, LanguageParser>>;
/// `std::io::stdin().is_terminal()`
pub uninterp spec fn stdin_is_terminal() -> bool;
/// `std::env::var(name)` (`None` = `Err`: not set, or not Unicode)
pub uninterp spec fn env_var_spec(name: Seq<char>) -> Option<Seq<char>>;
/// `std::env::current_dir()` (`None` = `Err`)
pub uninterp spec fn current_dir_spec() -> Option<PathBuf>;
/// `std::fs::canonicalize(p)` (`None` = `Err`)
pub uninterp spec fn canonicalize_spec(p: PathBuf) -> Option<PathBuf>;
/// everything that can be read from stdin, as BYTES (`None` = I/O error; the encoding plays no role)
pub uninterp spec fn stdin_bytes() -> Option<Seq<u8>>;
/// `String::from_utf8_lossy`: the text of a byte sequence, invalid sequences replaced by U+FFFD (total)
pub uninterp spec fn lossy_utf8_spec(bytes: Seq<u8>) -> Seq<char>;
/// the byte sequence is valid UTF-8 (what `Read::read_to_string` insists on)
pub uninterp spec fn utf8_valid(bytes: Seq<u8>) -> bool;

/// C01 "any ordinary two-way diff ... whatever the files contain": the diff text is the lossy decoding of
/// stdin: only an I/O error makes it unavailable, never the encoding of a quoted line
pub open spec fn stdin_text() -> Option<Seq<char>> {
    match stdin_bytes() {
        Some(b) => Some(lossy_utf8_spec(b)),
        None => None,
    }
}
/// `diff_parser::line_changes_from_diff` (unit Da of group difflines) as a function, `None` = `Err`
pub uninterp spec fn diff_line_changes_spec(diff: Seq<char>) -> Option<Map<PathBuf, Vec<LineChange>>>;
/// `blocks::parse_blocks` (unit B7 of group blocksel) as a function of its arguments, `None` = `Err`
pub uninterp spec fn parse_blocks_spec(line_changes: Map<PathBuf, Vec<LineChange>>, should_scan_files: bool, root: PathBuf,
    allow: GlobSet, ignore: GlobSet, parsers: Map<OsString, LanguageParser>, extra: Map<OsString, OsString>) -> Option<Map<PathBuf, FileBlocks>>;
/// `ValidationContext::to_serializable_report` (unit L2 of group listreport) as a function
pub uninterp spec fn list_report_spec(blocks: Map<PathBuf, FileBlocks>) -> Map<PathBuf, Vec<serde_json::Value>>;
/// writing this map as one pretty-printed JSON object to stdout succeeds. Uninterpreted: the world decides, and the
/// only way to learn it is to make the call, so an `Ok` result that claims it is evidence of the call. Generic in the
/// key type: the statement is about the writer, not about what serde makes of the keys (`keys_serialisable`).
pub uninterp spec fn stdout_write_ok_spec<K>(report: Map<K, Vec<serde_json::Value>>) -> bool;
/// the constant `validators::DETECTOR_FACTORIES`
pub uninterp spec fn detector_table() -> Seq<(&'static str, DetectorFactory)>;

// ---- the model: what `main` has to hand to its callees (from C11 / C14 / C15 / C16) ------------------------
/// C14: "Using both flags together ... is rejected"
pub open spec fn both_flags(a: Args) -> bool {
    a.disabled_validators@.len() > 0 && a.enabled_validators@.len() > 0
}

/// C16: "a `-E` mapping onto an unsupported grammar is rejected"
pub open spec fn unsupported_mapping(a: Args, table: Map<OsString, LanguageParser>) -> bool {
    exists|i: int| 0 <= i < a.extensions@.len() && !table.contains_key(osstring_of(#[trigger] a.extensions@[i].1@))
}

/// the command line of this process must be rejected
pub open spec fn cli_rejected() -> bool {
    grammar_table() matches Some(table) && (both_flags(process_args()) || unsupported_mapping(process_args(), table))
}

pub open spec fn is_list_command(a: Args) -> bool {
    a.command matches Some(SubCommand::List { globs })
}

/// "run interactively": stdin is a terminal (or the environment says so): there is no diff to read
pub open spec fn terminal_mode() -> bool {
    stdin_is_terminal() || env_var_spec("BLOCKWATCH_TERMINAL_MODE"@) is Some
}

/// the glob set of the single pattern `**`
pub open spec fn match_all_set() -> Option<GlobSet> {
    match glob_of("**"@) {
        Some(g) => glob_set_build(seq![g]),
        None => None,
    }
}

/// C15: the files examined are those that match "a positional glob - all of them when run interactively
/// with neither glob nor diff": the positional globs, except that with NO positional glob in terminal
/// mode it is the match-all set
pub open spec fn expected_allow() -> Option<GlobSet> {
    match glob_set_of(positional_patterns(process_args())) {
        None => None,
        Some(gs) => if glob_count(gs) == 0 && terminal_mode() { match_all_set() } else { Some(gs) },
    }
}

/// C15 / C02: the tree is scanned iff, after that defaulting, there is a glob at all
pub open spec fn expected_scan() -> bool {
    expected_allow() matches Some(gs) && glob_count(gs) != 0
}

/// C15: "minus anything matching an `--ignore` glob"
pub open spec fn expected_ignore() -> Option<GlobSet> {
    glob_set_of(ignore_patterns(process_args()))
}

/// C15 / C20: the repository root found from the canonical current directory
pub open spec fn expected_root() -> Option<PathBuf> {
    match current_dir_spec() {
        None => None,
        Some(cwd) => match canonicalize_spec(cwd) {
            None => None,
            Some(c) => repo_root_spec(c),
        },
    }
}

/// the diff is read from stdin iff NOT in terminal mode; otherwise there are no line changes
pub open spec fn expected_line_changes() -> Option<Map<PathBuf, Vec<LineChange>>> {
    if terminal_mode() {
        Some(Map::empty())
    } else {
        match stdin_text() {
            None => None,
            Some(t) => diff_line_changes_spec(t),
        }
    }
}

/// the blocks of the run
pub open spec fn expected_blocks() -> Option<Map<PathBuf, FileBlocks>> {
    if grammar_table() is Some && expected_allow() is Some && expected_ignore() is Some && expected_root() is Some && expected_line_changes() is Some {
        parse_blocks_spec(expected_line_changes().unwrap(), expected_scan(), expected_root().unwrap(), expected_allow().unwrap(), expected_ignore().unwrap(),
            grammar_table().unwrap(), ext_map(process_args().extensions@))
    } else {
        None
    }
}

/// C11: what `list` prints
pub open spec fn expected_list_report() -> Option<Map<PathBuf, Vec<serde_json::Value>>> {
    match expected_blocks() {
        Some(b) => Some(list_report_spec(b)),
        None => None,
    }
}

/// every step of `main` before the `list` / validation stage succeeds: grammar table, both glob sets, root
/// discovery, reading and parsing the diff, parsing the files
pub open spec fn setup_succeeds() -> bool {
    grammar_table() is Some && expected_allow() is Some && expected_ignore() is Some && expected_root() is Some
        && expected_line_changes() is Some && expected_blocks() is Some
}

/// `compile_all` yields one glob per pattern
pub proof fn lemma_compile_all_len(pats: Seq<Seq<char>>, n: int)
    requires 0 <= n <= pats.len(),
    ensures compile_all(pats, n) matches Some(gs) ==> gs.len() == n,
    decreases n,
{
    if n > 0 { lemma_compile_all_len(pats, n - 1); }
}

/// The model read back against the statement of C15 (three cases): positional globs given => exactly
/// those, and the tree is scanned; none + interactive => every path is allowed, and the tree is scanned;
/// none + piped diff => nothing is scanned (only the diff's files are examined).
pub proof fn lemma_scope_cases()
    requires glob_set_of(positional_patterns(process_args())) is Some,
    ensures
        positional_patterns(process_args()).len() > 0 ==> expected_allow() == glob_set_of(positional_patterns(process_args())) && expected_scan(), // [M1.lemma.globs_given_scan_those]
        positional_patterns(process_args()).len() == 0 && terminal_mode() && match_all_set() is Some // [M1.lemma.no_globs_interactive_scan_everything]
            ==> expected_allow() == match_all_set() && expected_scan() && (forall|path: Seq<char>| #[trigger] glob_matches(expected_allow().unwrap(), path)),
        positional_patterns(process_args()).len() == 0 && !terminal_mode() ==> !expected_scan(), // [M1.lemma.no_globs_piped_diff_no_scan]
{
    let pats = positional_patterns(process_args());
    lemma_compile_all_len(pats, pats.len() as int);
    let gs = compile_all(pats, pats.len() as int).unwrap();
    axiom_glob_set_build(gs);
    if match_all_set() is Some {
        let g = glob_of("**"@).unwrap();
        axiom_glob_set_build(seq![g]);
        assert forall|path: Seq<char>| #[trigger] glob_matches(match_all_set().unwrap(), path) by {
            axiom_double_star_matches_all(path);
            assert(glob_match_one(seq![g][0], path));
        }
    }
}

// ---- stand-ins for `main`'s callees: std / external effects ------------------------------------------------
#[verifier::external_type_specification]
#[verifier::external_body]
pub struct ExStdin(std::io::Stdin);

#[verifier::external_type_specification]
#[verifier::external_body]
pub struct ExStdout(std::io::Stdout);

#[verifier::external_type_specification]
#[verifier::external_body]
pub struct ExVarError(std::env::VarError);

pub assume_specification[ std::io::stdin ]() -> std::io::Stdin;
pub assume_specification[ std::io::stdout ]() -> std::io::Stdout;

/// E1: `?` on a `std::io::Error` in a function returning `anyhow::Result`
impl From<std::io::Error> for anyhow::Error {
    #[verifier::external_body]
    fn from(e: std::io::Error) -> anyhow::Error { anyhow::verif_err() }
}

/// E13 shim: `stdin.is_terminal()` (`std::io::IsTerminal`, a trait method). Body = the identical std call.
#[verifier::external_body]
pub fn verif_is_terminal(s: std::io::Stdin) -> (r: bool)
    ensures r == stdin_is_terminal(),
{ use std::io::IsTerminal; s.is_terminal() }

/// E13 shim: `stdin.read_to_end(&mut buf)` (`std::io::Read`, a trait method; "Read all bytes until EOF in this
/// source, placing them into buf"; fails only with an I/O error). Body = the identical std call.
/// Call-site obligations (M1): only after the command line was accepted, and only when NOT in terminal mode.
#[verifier::external_body]
pub fn verif_stdin_read_to_end(s: std::io::Stdin, buf: &mut Vec<u8>) -> (r: Result<usize, std::io::Error>)
    requires
        !cli_rejected(), // [M1.post.invalid_flags_rejected_before_reading_the_diff]
        !terminal_mode(), // [M1.post.diff_read_only_when_not_terminal]
    ensures
        r is Ok ==> (stdin_bytes() matches Some(b) && final(buf)@ == old(buf)@ + b),
        r is Err ==> stdin_bytes() is None,
{ use std::io::Read; let mut s = s; s.read_to_end(buf) }

/// E13 shim: `stdin.read_to_string(&mut buf)` (NOT used by the repaired tree). std doc: "If the data in this
/// stream is not valid UTF-8 then an error is returned and buf is unchanged": the call can fail because of
/// the ENCODING of stdin, which C01 forbids for a diff; it is therefore only admissible where stdin is known
/// to be valid UTF-8 - an obligation `main` cannot meet (labelled clause below).
#[verifier::external_body]
pub fn verif_stdin_read_to_string(s: std::io::Stdin, buf: &mut String) -> (r: Result<usize, std::io::Error>)
    requires
        !cli_rejected(), // [M1.post.invalid_flags_rejected_before_reading_the_diff]
        !terminal_mode(), // [M1.post.diff_read_only_when_not_terminal]
        stdin_bytes() matches Some(b) ==> utf8_valid(b), // [M1.post.diff_accepted_whatever_its_encoding]
    ensures
        r is Ok ==> (stdin_bytes() matches Some(b) && utf8_valid(b) && final(buf)@ == old(buf)@ + lossy_utf8_spec(b)),
        r is Err ==> (stdin_bytes() matches Some(b) ==> !utf8_valid(b)),
{ use std::io::Read; let mut s = s; s.read_to_string(buf) }

/// E13 shim: `String::from_utf8_lossy(&bytes)` (returns `Cow<'_, str>`, outside Verus; the call site borrows
/// the result as `&str`). Body = the same std call, made owned.
#[verifier::external_body]
pub fn verif_from_utf8_lossy(v: &Vec<u8>) -> (r: String)
    ensures r@ == lossy_utf8_spec(v@),
{ String::from_utf8_lossy(v).into_owned() }

#[verifier::external_type_specification]
#[verifier::external_body]
pub struct ExFromUtf8Error(std::string::FromUtf8Error);

/// E1: `?` on a `FromUtf8Error`
impl From<std::string::FromUtf8Error> for anyhow::Error {
    #[verifier::external_body]
    fn from(e: std::string::FromUtf8Error) -> anyhow::Error { anyhow::verif_err() }
}

/// E13 shim: `String::from_utf8(bytes)` (NOT used by the repaired tree): the strict decoding fails on invalid
/// UTF-8, i.e. because of the encoding of stdin; admissible only where validity is known (as `read_to_string`).
#[verifier::external_body]
pub fn verif_from_utf8_strict(v: Vec<u8>) -> (r: Result<String, std::string::FromUtf8Error>)
    requires
        utf8_valid(v@), // [M1.post.diff_accepted_whatever_its_encoding]
    ensures
        r matches Ok(t) ==> t@ == lossy_utf8_spec(v@),
        r is Ok <==> utf8_valid(v@),
{ String::from_utf8(v) }

/// E13 shim: `languages.keys().collect()` into a `HashSet<&OsString>`. Body = the identical std chain;
/// std docs of `HashMap::keys` ("visiting all keys") and `FromIterator for HashSet`.
#[verifier::external_body]
pub fn verif_keys_collect_set<'a, V>(m: &'a HashMap<OsString, V>) -> (r: HashSet<&'a OsString>)
    ensures forall|k: &'a OsString| #[trigger] r@.contains(k) <==> m@.contains_key(*k),
{ m.keys().collect() }

pub mod env {
    use super::*;
    /// `std::env::var<K: AsRef<OsStr>>(key)` at `&str`
    #[verifier::external_body]
    pub fn var(key: &str) -> (r: Result<String, std::env::VarError>)
        ensures r is Ok <==> env_var_spec(key@) is Some,
    { std::env::var(key) }

    #[verifier::external_body]
    pub fn current_dir() -> (r: Result<PathBuf, std::io::Error>)
        ensures
            r matches Ok(p) ==> current_dir_spec() == Some(p),
            r is Err ==> current_dir_spec() is None,
    { std::env::current_dir() }
}

pub mod fs {
    use super::*;
    /// `std::fs::canonicalize<P: AsRef<Path>>(path)` at `PathBuf`
    #[verifier::external_body]
    pub fn canonicalize(path: PathBuf) -> (r: Result<PathBuf, std::io::Error>)
        ensures
            r matches Ok(p) ==> canonicalize_spec(path) == Some(p),
            r is Err ==> canonicalize_spec(path) is None,
    { std::fs::canonicalize(path) }
}

pub mod serde_json {
    pub use crate::serde_json_types::{Error, Result, Value};
    use super::*;
    /// E1: `.context(..)` / `?` on a `serde_json::Error`
    impl From<Error> for anyhow::Error {
        #[verifier::external_body]
        fn from(e: Error) -> anyhow::Error { anyhow::verif_err() }
    }

    /// the JSON value of one diagnostic (E2; same declaration as in prelude/orch_ext_report.rs: used by the copied
    /// specification of group report)
    pub uninterp spec fn json_of(range: crate::ViolationRange, code: Seq<char>, message: Seq<char>, severity: crate::BlockSeverity, data: Option<Value>) -> Value;

    /// `serde_json::to_writer_pretty(std::io::stdout(), &report)` (generic over `W: io::Write`, `T: ?Sized + Serialize`
    /// in the real crate), at the two shapes `main` has had: `&HashMap<String, Vec<Value>>` (after 6239843) and
    /// `&HashMap<PathBuf, Vec<Value>>` (before). The output itself is not modelled.
    /// Call-site obligations (M1, C11): only under `list`, only after the command line was accepted,
    /// and what is written shows the report of the run's blocks (`JsonKey::map_shows`: for `String` keys the report
    /// keyed by printable paths, `is_printable`; for `PathBuf` keys the report itself).
    /// TRUSTED ASSUMPTION (T-ext, serde_json `ser.rs` / serde `impl Serialize for Path`; same as the stderr shim of
    /// group report): the call fails exactly when (a) some KEY cannot be written as the name of an object member
    /// (`JsonKey::key_serialisable`: never for `String`; for `PathBuf` when the path is not valid Unicode: "path
    /// contains invalid UTF-8 characters"), or (b) the writer fails (`stdout_write_ok_spec`, uninterpreted).
    #[verifier::external_body]
    pub fn to_writer_pretty<K: JsonKey>(w: std::io::Stdout, v: &HashMap<K, Vec<Value>>) -> (r: Result<()>)
        requires
            !cli_rejected(), // [M1.post.invalid_flags_rejected_before_listing]
            is_list_command(process_args()), // [M1.post.report_written_only_for_list]
            expected_list_report() is Some && K::map_shows(v@, expected_list_report().unwrap()), // [M1.post.list_writes_report_of_the_runs_blocks]
        ensures
            r is Ok <==> keys_serialisable(v@) && stdout_write_ok_spec(v@),
            // (the third precondition once more: it adds nothing, it only keeps the term available as a witness for
            // `M1.post.list_*` after the call)
            K::map_shows(v@, expected_list_report().unwrap()),
    { unimplemented!() }
}

// ---- stand-ins for `main`'s callees: functions of /repo under contract elsewhere -----------------------------
impl Args {
    /// `<Args as clap::Parser>::parse()`
    #[verifier::external_body]
    pub fn parse() -> (r: Args)
        ensures r == process_args(),
    { unimplemented!() }
}

//@copyfrom file=groups/flags.rs from=<</// some `-E KEY=VALUE` maps onto>> until=<<impl Args {>>

impl Args {
//@stubof group=flags unit=F1

}

impl PathCheckerImpl {
//@stubof group=scope unit=PCn

}

pub mod flags {
    pub use super::{Args, SubCommand};
}

pub mod language_parsers {
    use super::*;
    /// `language_parsers()` (its table statements are unit C16.table of group blocksel)
    #[verifier::external_body]
    pub fn language_parsers() -> (r: anyhow::Result<HashMap<OsString, LanguageParser>>)
        ensures
            r matches Ok(m) ==> grammar_table() == Some(m@),
            r is Err ==> grammar_table() is None,
    { unimplemented!() }
}

pub mod diff_parser {
    use super::*;
    /// unit Da of group difflines (whose contract is stated over the parsed patch; here only: a
    /// function of the text). Call-site obligations (M1): after the command line was accepted; the text
    /// parsed is what was read from stdin.
    #[verifier::external_body]
    pub fn line_changes_from_diff(patch_diff: &str) -> (r: anyhow::Result<HashMap<PathBuf, Vec<LineChange>>>)
        requires
            !cli_rejected(), // [M1.post.invalid_flags_rejected_before_parsing_the_diff]
            Some(patch_diff@) == stdin_text(), // [M1.post.diff_is_the_lossy_text_of_stdin]
        ensures
            r matches Ok(m) ==> diff_line_changes_spec(patch_diff@) == Some(m@),
            r is Err ==> diff_line_changes_spec(patch_diff@) is None,
    { unimplemented!() }
}

pub mod blocks {
    use super::*;
    pub use super::{FileSystemImpl, PathCheckerImpl};

    /// unit B7 of group blocksel, at the instance `main` uses (`&impl FileSystem` = `&FileSystemImpl`,
    /// `&impl PathChecker` = `&PathCheckerImpl`). Call-site obligations (M1): see the labels.
    #[verifier::external_body]
    pub fn parse_blocks(
        line_changes_by_file: HashMap<PathBuf, Vec<LineChange>>,
        should_scan_files: bool,
        file_system: &FileSystemImpl,
        path_checker: &PathCheckerImpl,
        parsers: HashMap<OsString, LanguageParser>,
        extra_file_extensions: HashMap<OsString, OsString>,
    ) -> (r: anyhow::Result<HashMap<PathBuf, FileBlocks>>)
        requires
            // C14 / C16: nothing is parsed before the command line has been accepted
            !cli_rejected(), // [M1.post.invalid_flags_rejected_before_parsing]
            // C15: the diff read from stdin iff not in terminal mode, else no line changes
            Some(line_changes_by_file@) == expected_line_changes(), // [M1.post.line_changes_from_stdin_iff_not_terminal]
            // C15: the positional globs, or everything when interactive without globs
            Some(path_checker.glob_set) == expected_allow(), // [M1.post.allow_set_is_globs_or_match_all_when_interactive]
            // C15 / C02: globs => scan; no globs + terminal => scan everything; no globs + piped diff => no scan
            should_scan_files == expected_scan(), // [M1.post.scan_iff_glob_set_nonempty_after_defaulting]
            // C15: --ignore
            Some(path_checker.ignored_glob_set) == expected_ignore(), // [M1.post.ignore_set_is_the_ignore_flags]
            // C15 / C20: every path goes through the file system rooted at the repository root
            Some(file_system.root_path) == expected_root(), // [M1.post.files_resolved_against_repository_root]
            // C16: the grammar table and the validated -E map
            Some(parsers@) == grammar_table(), // [M1.post.grammar_table_passed_on]
            extra_file_extensions@ == ext_map(process_args().extensions@), // [M1.post.extension_map_passed_on]
        ensures
            r matches Ok(b) ==> parse_blocks_spec(line_changes_by_file@, should_scan_files, file_system.root_path, path_checker.glob_set,
                path_checker.ignored_glob_set, parsers@, extra_file_extensions@) == Some(b@),
            r is Err ==> parse_blocks_spec(line_changes_by_file@, should_scan_files, file_system.root_path, path_checker.glob_set,
                path_checker.ignored_glob_set, parsers@, extra_file_extensions@) is None,
    { unimplemented!() }
}

impl ValidationContext {
//@unit id=M1c file=src/validators/mod.rs fn=<<impl ValidationContext::new>> ret=r
//@contract
        ensures r.blocks == blocks, // [M1c.post.holds_the_blocks]
//@end

    /// unit L2 of group listreport (whose contract needs `lines fit u64`; here only: a function of the blocks)
    #[verifier::external_body]
    pub fn to_serializable_report(&self) -> (r: HashMap<PathBuf, Vec<serde_json::Value>>)
        ensures r@ == list_report_spec(self.blocks@),
    { unimplemented!() }
}

// unit V10 of group detect, with its proven contract; call-site obligations (M1) in front
//@stubof group=detect unit=V10
    requires
        !cli_rejected(), // [M1.post.invalid_flags_rejected_before_detection]
        !is_list_command(process_args()), // [M1.post.list_skips_detection]
        Some(context.blocks@) == expected_blocks(), // [M1.post.detection_on_the_runs_blocks]
        detectors@ == detector_table(), // [M1.post.detect_receives_detector_factories]
        is_name_set(disabled_validators@, process_args().disabled_validators@), // [M1.post.detect_receives_disabled_set]
        is_name_set(enabled_validators@, process_args().enabled_validators@), // [M1.post.detect_receives_enabled_set]

pub mod validators {
    use super::*;
    pub use super::ValidationContext;
    pub(crate) use super::detect_validators;
//@copyfrom file=groups/report.rs from=<<    pub uninterp spec fn run_result(>> until=<<    #[verifier::external_body]>>

    /// the constant `DETECTOR_FACTORIES` (function pointers: no Verus support; see group detect)
    #[verifier::external_body]
    pub fn verif_detector_factories() -> (r: &'static [(&'static str, DetectorFactory)])
        ensures r@ == detector_table(),
    { unimplemented!() }
}

// unit V8p of group report: `with_printable_paths`, with its proven contract (absent from texts before 6239843)
//@stubof group=report unit=V8p optional=1

// unit V8g of group report: the end of `main` (run the validators, report, exit status)
//@stubof group=report unit=V8g

//@unit id=M1 file=src/main.rs fn=main ret=r rename=verif_main
//@contract
    ensures
        // C14 / C16: a command line that must be rejected ends `main` with `Err` (non-zero exit status) ...
        cli_rejected() ==> r is Err, // [M1.post.invalid_flags_rejected_up_front]
        // ... and so does every failing step (`?`): grammar table, glob compilation, root discovery, reading
        // and parsing the diff, parsing the files
        r is Ok ==> grammar_table() is Some && expected_allow() is Some && expected_ignore() is Some && expected_root() is Some // [M1.post.every_failure_propagates]
            && expected_line_changes() is Some && expected_blocks() is Some,
        // C11: `list`: exit status 0 means the report of the run's blocks was written to stdout
        r is Ok && is_list_command(process_args()) ==> exists|p: Map<String, Vec<serde_json::Value>>| // [M1.post.list_ok_means_report_written]
            #[trigger] is_printable(p, expected_list_report().unwrap()) && stdout_write_ok_spec(p),
        // C11 "`list` prints the selected blocks as one JSON object on stdout and exits 0": under `list`, `main` fails
        // ONLY if the command line is rejected, a set-up step fails, or stdout did not take the report keyed by printable
        // paths - never because of what the blocks or the file names are
        r is Err && is_list_command(process_args()) ==> cli_rejected() || !setup_succeeds() // [M1.post.list_exits_0_unless_setup_or_stdout_write_fails]
            || exists|p: Map<String, Vec<serde_json::Value>>| #[trigger] is_printable(p, expected_list_report().unwrap()) && !stdout_write_ok_spec(p),
        // C11 / C14: otherwise exit status 0 means: the validators selected by the flags (V10's contract, for the
        // run's blocks and exactly the --disable / --enable sets) were run (V8g) and reported no error-severity diagnostic
        r is Ok && !is_list_command(process_args()) ==> exists|ctx: ValidationContext, s: Vec<Box<dyn ValidatorSync>>, a: Vec<Box<dyn ValidatorAsync>>, en: Set<&'static str>, dis: Set<&'static str>| // [M1.post.ok_means_selected_validators_ran_clean]
            Some(ctx.blocks@) == expected_blocks()
            && is_name_set(en, process_args().enabled_validators@) && is_name_set(dis, process_args().disabled_validators@)
            && #[trigger] v10_ok_post(ctx, detector_table(), en, dis, sync_origins(s@), async_origins(a@))
            && validators::run_result(Arc::new(ctx), s, a) is Some
            && !exists_error(validators::run_result(Arc::new(ctx), s, a).unwrap()),
        // C11 "exits 1 exactly when at least one diagnostic of severity error is produced and exits 0 otherwise": a
        // validation run that RETURNS fails (`Err`) only for one of these causes: the command line is rejected; a set-up
        // step fails; a selected detector fails on a block of the run (V10); a validator returns `Err` (`run_result` is
        // `None`, C13) or stderr did not take the report of what the validators returned (V8g) - never because every
        // diagnostic is a warning / info / hint, never because of the name of a file. (Exit status 1 for an
        // error-severity diagnostic is `process::exit(1)` inside V8: `main` does not return then.)
        r is Err && !is_list_command(process_args()) ==> cli_rejected() || !setup_succeeds() // [M1.post.run_fails_only_for_an_enumerated_cause]
            || (exists|ctx: ValidationContext, en: Set<&'static str>, dis: Set<&'static str>, i: int, b: BlockWithContext|
                Some(ctx.blocks@) == expected_blocks()
                && is_name_set(en, process_args().enabled_validators@) && is_name_set(dis, process_args().disabled_validators@)
                && #[trigger] in_e(detector_table(), en, dis, i) && #[trigger] ctx_has_block(ctx, b) && detects_by(i, b) is Fails)
            || (exists|ctx: ValidationContext, s: Vec<Box<dyn ValidatorSync>>, a: Vec<Box<dyn ValidatorAsync>>, en: Set<&'static str>, dis: Set<&'static str>|
                Some(ctx.blocks@) == expected_blocks()
                && is_name_set(en, process_args().enabled_validators@) && is_name_set(dis, process_args().disabled_validators@)
                && #[trigger] v10_ok_post(ctx, detector_table(), en, dis, sync_origins(s@), async_origins(a@))
                && (validators::run_result(Arc::new(ctx), s, a) matches Some(v) ==> stderr_report_fails(v))),
//@replaceslice rule=SLICE-CALL of=report:V8g
    proof {
        // C11: under `list`, `main` has returned before this point: the validators never run
        assert(!is_list_command(process_args())); // [M1.post.list_skips_validation]
        assert(!cli_rejected()); // [M1.post.invalid_flags_rejected_before_validation]
        assert(Some(context.blocks@) == expected_blocks()); // [M1.post.validation_on_the_runs_blocks]
    }
    main_run_and_report(context, sync_validators, async_validators)?;
//@macro rule=E1 name=anyhow to=<<anyhow::verif_err()>> optional=1
//@chain rule=E13 find=<<.keys().collect()>> to=verif_keys_collect_set recvprefix=<<&>> optional=1
//@chain rule=E13 find=<<.is_terminal()>> to=verif_is_terminal count=all optional=1
//@chain rule=E13 find=<<.read_to_end(>> to=verif_stdin_read_to_end count=all optional=1
//@chain rule=E13 find=<<.read_to_string(>> to=verif_stdin_read_to_string count=all optional=1
//@edit rule=E13 find=<<String::from_utf8_lossy(>> count=all optional=1
verif_from_utf8_lossy(
//@edit rule=E13 find=<<String::from_utf8(>> count=all optional=1
verif_from_utf8_strict(
//@edit rule=ghost before=<<serde_json::to_writer_pretty(std::io::stdout()>>
        // C11 "`list` prints ... ONE JSON object on stdout": this is the only write to stdout in `main` (the anchor must
        // occur exactly once; a second write makes the proof not applicable and hands over to the bounded harness M1)
//@edit rule=E13 find=<<validators::DETECTOR_FACTORIES>> count=all optional=1
validators::verif_detector_factories()
//@end

} // verus!
fn main() {}
