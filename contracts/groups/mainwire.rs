// Group `mainwire`: the wiring of the CLI that is outside every other contract group.
//   A1..A5  accessors of `flags::Args` (src/flags.rs): `extensions`, `disabled_validators`,
//           `enabled_validators`, `globs`, `ignored_globs`
// Properties: C14 (A2, A3), C15 (A4, A5), C16 (A1), C04 (safety).
// Notes: contracts/groups/mainwire.notes.md
use vstd::prelude::*;
use std::collections::{HashMap, HashSet};
use std::ffi::OsString;
use std::ops::{Range, RangeInclusive};
use std::path::{Path, PathBuf};
use std::sync::Arc;

//@include prelude/mainw_anyhow.rs
//@include prelude/mainw_ax.rs
//@include prelude/tstr_mod.rs
//@include prelude/mainw_globset.rs
//@include prelude/mainw_ignore.rs
//@include prelude/orch_ext.rs
use ignore::Walk;
use anyhow::Context;
use globset::*;

verus! {

broadcast use {vstd::std_specs::hash::group_hash_axioms, mainw_ax::group_mainw_ax, tstr::group_tstr, globset::group_globset};

//@include prelude/orch_model.rs
//@include prelude/mainw_args.rs
//@include prelude/mainw_paths.rs

//@item file=src/flags.rs kind=enum name=SubCommand
//@item file=src/flags.rs kind=struct name=Args

// ---------------------------------------------------------------------------------------------
// Specification of the accessors, from the statements of C14 / C15 / C16.

/// C15: the positional glob patterns: those given before a sub-command plus those given to `list`
pub open spec fn list_patterns(a: Args) -> Seq<Seq<char>> {
    match a.command {
        Some(SubCommand::List { globs }) => str_views(globs@),
        None => Seq::empty(),
    }
}

pub open spec fn positional_patterns(a: Args) -> Seq<Seq<char>> {
    str_views(a.globs@) + list_patterns(a)
}

/// C15: the `--ignore` patterns
pub open spec fn ignore_patterns(a: Args) -> Seq<Seq<char>> {
    str_views(a.ignore@)
}

/// `compile_all` over a prefix only looks at the prefix
pub proof fn lemma_compile_all_step(pats: Seq<Seq<char>>, n: int)
    requires 0 <= n < pats.len(),
    ensures
        compile_all(pats, n + 1) == (match (compile_all(pats, n), glob_of(pats[n])) {
            (Some(gs), Some(g)) => Some(gs.push(g)),
            _ => None::<Seq<Glob>>,
        }),
{
}

/// once a pattern is invalid, the whole list is
pub proof fn lemma_compile_all_none(pats: Seq<Seq<char>>, n: int, m: int)
    requires 0 <= n <= m, compile_all(pats, n) is None,
    ensures compile_all(pats, m) is None,
    decreases m - n,
{
    if n < m {
        lemma_compile_all_none(pats, n, m - 1);
    }
}

/// Verified glue (NOT trusted) between the generic E3 shim `verif_iter_map_collect_map` and A1's
/// specification: if the closure converts every (key, value) pair with `OsString::from`, the collected
/// map is `ext_map`.
pub fn verif_collect_ext_map<F: FnMut(&(String, String)) -> (OsString, OsString)>(v: &Vec<(String, String)>, f: F) -> (r: HashMap<OsString, OsString>)
    requires
        forall|i: int| 0 <= i < v@.len() ==> call_requires(f, (&#[trigger] v@[i],)),
        forall|i: int, o: (OsString, OsString)| 0 <= i < v@.len() && #[trigger] call_ensures(f, (&v@[i],), o)
            ==> o.0 == osstring_of(v@[i].0@) && o.1 == osstring_of(v@[i].1@),
    ensures
        r@ == ext_map(v@),
{
    let r = verif_iter_map_collect_map(v, f);
    proof {
        let outs = choose|outs: Seq<(OsString, OsString)>| outs.len() == v@.len()
            && (forall|i: int| 0 <= i < v@.len() ==> call_ensures(f, (&v@[i],), #[trigger] outs[i]))
            && r@ == mainw_pairs_to_map(outs, outs.len() as int);
        assert(is_ext_pairs(outs, v@));
        lemma_pairs_ext_map(outs, v@, v@.len() as int);
    }
    r
}

impl Args {

// A1 (C16): the -E map
//@unit id=A1 file=src/flags.rs fn=<<impl Args::extensions>> ret=r
//@contract
        ensures
            r@ == ext_map(self.extensions@), // [A1.post.map_of_pairs_later_wins]
//@closure rule=E12 find=<<|(key, val)|>> params=<<|entry: &(String, String)|>> ret=<<kv: (OsString, OsString)>>
                ensures kv.0 == osstring_of(entry.0@) && kv.1 == osstring_of(entry.1@), // [A1.closure.pair_converted_with_osstring_from]
//@edit rule=E12 after=<<osstring_of(entry.1@), {>>
                let (key, val) = entry;
//@edit rule=E13 find=<<OsString::from($a)>> count=all optional=1
verif_osstring_from($a)
//@chain rule=E3 find=<<.iter().map(>> to=verif_collect_ext_map suffix=<<.collect()>> recvprefix=<<&>>
//@end

// A2 (C14): the --disable names as a set
//@unit id=A2 file=src/flags.rs fn=<<impl Args::disabled_validators>> ret=r
//@contract
        ensures
            is_name_set(r@, self.disabled_validators@), // [A2.post.set_of_disabled_names]
//@chain rule=E3 find=<<.iter().map(AsRef::as_ref).collect()>> to=verif_iter_as_ref_collect_set recvprefix=<<&>>
//@end

// A3 (C14): the --enable names as a set
//@unit id=A3 file=src/flags.rs fn=<<impl Args::enabled_validators>> ret=r
//@contract
        ensures
            is_name_set(r@, self.enabled_validators@), // [A3.post.set_of_enabled_names]
//@chain rule=E3 find=<<.iter().map(AsRef::as_ref).collect()>> to=verif_iter_as_ref_collect_set recvprefix=<<&>>
//@end

// A4 (C15): the positional globs (incl. those of `list`) as one glob set; an invalid pattern is an error
#[verifier::loop_isolation(false)]
//@unit id=A4 file=src/flags.rs fn=<<impl Args::globs>> ret=r
//@contract
        ensures
            r matches Ok(s) ==> glob_set_of(positional_patterns(*self)) == Some(s), // [A4.post.set_of_positional_and_list_globs]
            r is Err ==> glob_set_of(positional_patterns(*self)) is None, // [A4.post.err_only_if_invalid_pattern]
//@chain rule=E5 find=<<.extend(>> to=verif_vec_extend recvprefix=<<&mut >> optional=1
//@macro rule=E1 name=format to=<<anyhow::verif_msg()>> optional=1
//@edit rule=E15 find=<<for $a in &$b>>
        let ghost pats = str_views($b@);
        proof {
            // the list iterated is the positional globs followed by the globs of `list`
            assert(pats =~= positional_patterns(*self)); // [A4.step.patterns_are_positional_then_list]
        }
        for $a in it: &$b
            invariant
                compile_all(pats, it.index@ as int) == Some(builder.pats()), // [A4.inv.every_pattern_so_far_added]
                pats == str_views($b@),
                it.seq().len() == $b@.len(),
                forall|i: int| 0 <= i < it.seq().len() ==> *#[trigger] it.seq()[i] == $b@[i],
//@edit rule=ghost before=<<builder.build()>>
        proof {
            assert(compile_all(pats, pats.len() as int) == Some(builder.pats()));
        }
//@edit rule=ghost after=<<*#[trigger] it.seq()[i] == $b@[i], {>>
            proof {
                // an invalid pattern makes the whole list invalid
                if glob_of(pats[it.index@ as int]) is None {
                    lemma_compile_all_none(pats, it.index@ + 1, pats.len() as int);
                }
            }
//@end

// A5 (C15): the --ignore globs as one glob set; an invalid pattern is an error
#[verifier::loop_isolation(false)]
//@unit id=A5 file=src/flags.rs fn=<<impl Args::ignored_globs>> ret=r
//@contract
        ensures
            r matches Ok(s) ==> glob_set_of(ignore_patterns(*self)) == Some(s), // [A5.post.set_of_ignore_globs]
            r is Err ==> glob_set_of(ignore_patterns(*self)) is None, // [A5.post.err_only_if_invalid_pattern]
//@macro rule=E1 name=format to=<<anyhow::verif_msg()>> optional=1
//@edit rule=E15 find=<<for $a in &self.$b>>
        let ghost pats = str_views(self.$b@);
        proof {
            assert(pats =~= ignore_patterns(*self)); // [A5.step.patterns_are_the_ignore_list]
        }
        for $a in it: &self.$b
            invariant
                compile_all(pats, it.index@ as int) == Some(builder.pats()), // [A5.inv.every_pattern_so_far_added]
                pats == str_views(self.$b@),
                it.seq().len() == self.$b@.len(),
                forall|i: int| 0 <= i < it.seq().len() ==> *#[trigger] it.seq()[i] == self.$b@[i],
//@edit rule=ghost after=<<*#[trigger] it.seq()[i] == self.$b@[i], {>>
            proof {
                // an invalid pattern makes the whole list invalid
                if glob_of(pats[it.index@ as int]) is None {
                    lemma_compile_all_none(pats, it.index@ + 1, pats.len() as int);
                }
            }
//@edit rule=ghost before=<<builder.build()>>
        proof {
            assert(compile_all(pats, pats.len() as int) == Some(builder.pats()));
        }
//@end

} // impl Args

// ---------------------------------------------------------------------------------------------
// M2: `repository_root_path` (src/main.rs). C15: "under the repository root ... wherever blockwatch is
// started inside the repository"; C20: "paths relative to repository root".

/// a repository root: a directory that has a `.git` or a `.hg` DIRECTORY in it
pub open spec fn is_repo_root(p: PathBuf) -> bool {
    is_dir_spec(path_join_spec(p, ".git"@)) || is_dir_spec(path_join_spec(p, ".hg"@))
}

/// `root` is the NEAREST ancestor of `start` (the path itself included) that is a repository root
pub open spec fn nearest_repo_root(start: PathBuf, root: PathBuf) -> bool {
    exists|i: int| 0 <= i < ancestors_spec(start).len() && #[trigger] ancestors_spec(start)[i] == root
        && is_repo_root(root) && (forall|j: int| 0 <= j < i ==> !is_repo_root(#[trigger] ancestors_spec(start)[j]))
}

/// no ancestor of `start` (the path itself included) is a repository root
pub open spec fn no_repo_root(start: PathBuf) -> bool {
    forall|i: int| 0 <= i < ancestors_spec(start).len() ==> !is_repo_root(#[trigger] ancestors_spec(start)[i])
}

/// `repository_root_path` as a function (`None` = `Err`)
pub open spec fn repo_root_spec(start: PathBuf) -> Option<PathBuf> {
    if no_repo_root(start) { None } else { Some(choose|root: PathBuf| nearest_repo_root(start, root)) }
}

/// the nearest root is unique, so `repo_root_spec` is THE root
pub proof fn lemma_nearest_root_unique(start: PathBuf, r1: PathBuf, r2: PathBuf)
    requires nearest_repo_root(start, r1), nearest_repo_root(start, r2),
    ensures r1 == r2,
{
    let anc = ancestors_spec(start);
    let i1 = choose|i: int| 0 <= i < anc.len() && #[trigger] anc[i] == r1 && is_repo_root(r1) && (forall|j: int| 0 <= j < i ==> !is_repo_root(#[trigger] anc[j]));
    let i2 = choose|i: int| 0 <= i < anc.len() && #[trigger] anc[i] == r2 && is_repo_root(r2) && (forall|j: int| 0 <= j < i ==> !is_repo_root(#[trigger] anc[j]));
    if i1 < i2 { assert(!is_repo_root(anc[i1])); }
    if i2 < i1 { assert(!is_repo_root(anc[i2])); }
}

/// started in the root itself: the root is the start path (`ancestors` begins with the path itself)
pub proof fn lemma_start_path_counts(start: PathBuf)
    requires is_repo_root(start),
    ensures nearest_repo_root(start, start), // [M2.lemma.start_path_itself_counts]
{
    axiom_ancestors_start_with_self(start);
    assert(ancestors_spec(start)[0] == start);
}

//@unit id=M2 file=src/main.rs fn=repository_root_path ret=r
//@contract
    ensures
        r matches Ok(root) ==> nearest_repo_root(current_path, root), // [M2.post.nearest_ancestor_with_git_or_hg_dir]
        r is Err ==> no_repo_root(current_path), // [M2.post.err_only_without_root]
        r matches Ok(root) ==> repo_root_spec(current_path) == Some(root), // [M2.post.is_spec]
        r is Err ==> repo_root_spec(current_path) is None,
//@macro rule=E1 name=anyhow to=<<anyhow::verif_err()>> optional=1
//@closure rule=E12 find=<<|path|>> nth=0 of=2 params=<<|path: &&Path|>> ret=<<hit: bool>>
            ensures hit == is_repo_root(path_owned(*path)), // [M2.closure.git_or_hg_directory]
//@closure rule=E12 find=<<|path|>> params=<<|path: &Path|>> ret=<<owned: PathBuf>>
            ensures owned == path_owned(path), // [M2.closure.owned_copy]
//@chain rule=E13 find=<<.join(>> to=verif_path_join_str argkind=str count=all optional=1
//@chain rule=E3 find=<<.ancestors().find(>> to=verif_ancestors_find recvprefix=<<&>> extra=<<Ghost(|p: PathBuf| is_repo_root(p))>>
//@end

} // verus!
fn main() {}
