// Group `mainwire`: the wiring of the CLI that is outside every other contract group.
//   A1..A5  accessors of `flags::Args` (src/flags.rs): `extensions`, `disabled_validators`,
//           `enabled_validators`, `globs`, `ignored_globs`
// Properties: C14 (A2, A3), C15 (A4, A5), C16 (A1), C04 (safety).
// Notes: contracts/groups/mainwire.notes.md
use vstd::prelude::*;
use std::collections::{HashMap, HashSet};
use std::ffi::OsString;
use std::path::PathBuf;

//@include prelude/mainw_anyhow.rs
//@include prelude/blocks_ax.rs
//@include prelude/tstr_mod.rs
//@include prelude/mainw_globset.rs
use anyhow::Context;
use globset::*;

verus! {

broadcast use {vstd::std_specs::hash::group_hash_axioms, blocks_ax::group_blocks_ax, tstr::group_tstr, globset::group_globset};

//@include prelude/mainw_args.rs

//@item file=src/flags.rs kind=enum name=SubCommand
//@item file=src/flags.rs kind=struct name=Args

// ---------------------------------------------------------------------------------------------
// Specification of the accessors, from the statements of C14 / C15 / C16.

/// C15: the positional glob patterns: those given before a sub-command plus those given to `list`
pub open spec fn list_patterns(a: Args) -> Seq<Seq<char>> {
    match a.command {
        Some(SubCommand::List { globs }) => str_views(globs@),
        None => Seq::empty(),
    }
}

pub open spec fn positional_patterns(a: Args) -> Seq<Seq<char>> {
    str_views(a.globs@) + list_patterns(a)
}

/// C15: the `--ignore` patterns
pub open spec fn ignore_patterns(a: Args) -> Seq<Seq<char>> {
    str_views(a.ignore@)
}

/// `compile_all` over a prefix only looks at the prefix
pub proof fn lemma_compile_all_step(pats: Seq<Seq<char>>, n: int)
    requires 0 <= n < pats.len(),
    ensures
        compile_all(pats, n + 1) == (match (compile_all(pats, n), glob_of(pats[n])) {
            (Some(gs), Some(g)) => Some(gs.push(g)),
            _ => None::<Seq<Glob>>,
        }),
{
}

/// once a pattern is invalid, the whole list is
pub proof fn lemma_compile_all_none(pats: Seq<Seq<char>>, n: int, m: int)
    requires 0 <= n <= m, compile_all(pats, n) is None,
    ensures compile_all(pats, m) is None,
    decreases m - n,
{
    if n < m {
        lemma_compile_all_none(pats, n, m - 1);
    }
}

/// Verified glue (NOT trusted) between the generic E3 shim `verif_iter_map_collect_map` and A1's
/// specification: if the closure converts every (key, value) pair with `OsString::from`, the collected
/// map is `ext_map`.
pub fn verif_collect_ext_map<F: FnMut(&(String, String)) -> (OsString, OsString)>(v: &Vec<(String, String)>, f: F) -> (r: HashMap<OsString, OsString>)
    requires
        forall|i: int| 0 <= i < v@.len() ==> call_requires(f, (&#[trigger] v@[i],)),
        forall|i: int, o: (OsString, OsString)| 0 <= i < v@.len() && #[trigger] call_ensures(f, (&v@[i],), o)
            ==> o.0 == osstring_of(v@[i].0@) && o.1 == osstring_of(v@[i].1@),
    ensures
        r@ == ext_map(v@),
{
    let r = verif_iter_map_collect_map(v, f);
    proof {
        let outs = choose|outs: Seq<(OsString, OsString)>| outs.len() == v@.len()
            && (forall|i: int| 0 <= i < v@.len() ==> call_ensures(f, (&v@[i],), #[trigger] outs[i]))
            && r@ == mainw_pairs_to_map(outs, outs.len() as int);
        assert(is_ext_pairs(outs, v@));
        lemma_pairs_ext_map(outs, v@, v@.len() as int);
    }
    r
}

impl Args {

// A1 (C16): the -E map
//@unit id=A1 file=src/flags.rs fn=<<impl Args::extensions>> ret=r
//@contract
        ensures
            r@ == ext_map(self.extensions@), // [A1.post.map_of_pairs_later_wins]
//@closure rule=E12 find=<<|(key, val)|>> params=<<|entry: &(String, String)|>> ret=<<kv: (OsString, OsString)>>
                ensures kv.0 == osstring_of(entry.0@) && kv.1 == osstring_of(entry.1@), // [A1.closure.pair_converted_with_osstring_from]
//@edit rule=E12 after=<<osstring_of(entry.1@), {>>
                let (key, val) = entry;
//@edit rule=E13 find=<<OsString::from($a)>> count=all optional=1
verif_osstring_from($a)
//@chain rule=E3 find=<<.iter().map(>> to=verif_collect_ext_map suffix=<<.collect()>> recvprefix=<<&>>
//@end

// A2 (C14): the --disable names as a set
//@unit id=A2 file=src/flags.rs fn=<<impl Args::disabled_validators>> ret=r
//@contract
        ensures
            is_name_set(r@, self.disabled_validators@), // [A2.post.set_of_disabled_names]
//@chain rule=E3 find=<<.iter().map(AsRef::as_ref).collect()>> to=verif_iter_as_ref_collect_set recvprefix=<<&>>
//@end

// A3 (C14): the --enable names as a set
//@unit id=A3 file=src/flags.rs fn=<<impl Args::enabled_validators>> ret=r
//@contract
        ensures
            is_name_set(r@, self.enabled_validators@), // [A3.post.set_of_enabled_names]
//@chain rule=E3 find=<<.iter().map(AsRef::as_ref).collect()>> to=verif_iter_as_ref_collect_set recvprefix=<<&>>
//@end

} // impl Args

} // verus!
fn main() {}
