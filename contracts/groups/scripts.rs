// Group `scripts`: the synchronous parts of the two script validators (src/validators/check_lua.rs,
// src/validators/check_ai.rs). Everything `async` (tokio JoinSet, mlua, the HTTP client) is out of scope
// (DESIGN section 9: C17-C19); the cuts are stated at each slice.
//   V5l   check_lua::create_violation     range = start tag, code "check-lua", severity, payload (C10, C13)
//   V5a   check_ai::create_violation      range = start tag, code "check-ai", severity, payload (C10, C13)
//   VLdet / VAdet  the two detectors      attribute present <=> an Async validator, never Err (C14)
//   VLnew / VAwc   CheckLuaValidator::new, CheckAiValidator::with_client (called by the detectors)
//   VLe   slice of CheckLuaValidator::validate   empty script path => Err (C13)
//   VAe   slice of CheckAiValidator::validate    empty condition => Err (C13)
//   VAk   slice of OpenAiClient::check_block     empty API key => Err (C13)
//   VLc / VAc  block_content               the text handed to the script / the model (`*-pattern`)
// Notes: contracts/groups/scripts.notes.md
use vstd::prelude::*;
use std::collections::HashMap;
use std::cmp::Ordering;
use std::ops::{Range, RangeInclusive};
use std::path::{Path, PathBuf};
use std::sync::Arc;

//@include prelude/mainw_anyhow.rs
//@include prelude/tstr_mod.rs
//@include prelude/regex.rs
use anyhow::Context;

verus! {

//@include prelude/std_range.rs
//@include prelude/strings.rs
//@include prelude/domain.rs
//@include prelude/block_fns.rs
//@include prelude/mainw_scripts_ext.rs

//@item file=src/validators/mod.rs kind=enum name=ValidatorType

// ---------------------------------------------------------------------------------------------
// Specification shared by the two validators, from the statements of C10 / C13.

/// C10: "for ... Lua and AI violations the range spans exactly the block's start tag, from its `<` to its `>`"
pub open spec fn range_is_start_tag(v: Violation, b: Block) -> bool {
    v.range.start == b.start_tag_position_range@.start && v.range.end == b.start_tag_position_range@.end
}

/// the text handed to the script / the model, as a function of the block, the file and the name of the
/// `*-pattern` attribute (`None` = `Err`): without a pattern the trimmed content; with a pattern the
/// `value` group of the first match, else the whole first match, else (no match) the empty text; a
/// pattern that does not compile is an error (C13)
pub open spec fn script_content(b: Block, source: Seq<char>, pattern_attr: Seq<char>) -> Option<Seq<char>> {
    match attr_view(b.attributes@, pattern_attr) {
        None => Some(trim_spec(content_of(b, source))),
        Some(p) => match regex::compile_spec(p) {
            None => None,
            Some(re) => Some(
                if !regex::re_is_match(re, content_of(b, source)) {
                    ""@
                } else {
                    match regex::re_group_named(re, content_of(b, source), "value"@) {
                        Some(m) => m.text,
                        None => match regex::re_group(re, content_of(b, source), 0) {
                            Some(m) => m.text,
                            None => ""@,
                        },
                    }
                }),
        },
    }
}

/// C13: the rule attribute is present but blank ("an empty ... Lua script", "an empty AI condition")
pub open spec fn rule_is_blank(b: Block, rule_attr: Seq<char>) -> bool {
    attr_view(b.attributes@, rule_attr) matches Some(v) && trim_spec(v).len() == 0
}

// ==== check-lua ===================================================================================
mod lua {
use super::*;
broadcast use {vstd::std_specs::hash::group_hash_axioms, tstr::group_tstr};

//@item file=src/validators/check_lua.rs kind=struct name=CheckLuaValidator
//@item file=src/validators/check_lua.rs kind=struct name=CheckLuaValidatorDetector
//@item file=src/validators/check_lua.rs kind=struct name=CheckLuaViolation
impl ValidatorAsync for CheckLuaValidator {}

impl CheckLuaValidator {
//@unit id=VLnew file=src/validators/check_lua.rs fn=<<impl CheckLuaValidator::new>> ret=r
//@end
}

//@unit id=V5l file=src/validators/check_lua.rs fn=create_violation ret=r
//@contract
    ensures
        r matches Ok(v) ==> range_is_start_tag(v, *block), // [V5l.post.range_is_start_tag]
        r matches Ok(v) ==> v.code@ == "check-lua"@ && Ok::<BlockSeverity, anyhow::Error>(v.severity) == severity_spec(*block), // [V5l.post.code_and_severity]
        r matches Ok(v) ==> exists|d: serde_json::Value, payload: CheckLuaViolation| v.data == Some(d) && #[trigger] serde_json::value_encodes(d, payload) // [V5l.post.payload]
            && payload.script@ == script_path@ && payload.lua_error@ == error_message@,
        severity_spec(*block) is Err ==> r is Err, // [V5l.post.bad_severity_is_err]
//@macro rule=E1 name=format to=<<verif_message()>> optional=1
//@dropcall rule=E1 name=context optional=1
//@edit rule=E2 find=<<serde_json::to_value(>> optional=1
verif_to_value(
//@end

impl CheckLuaValidatorDetector {
//@unit id=VLdet file=src/validators/check_lua.rs fn=<<impl ValidatorDetector for CheckLuaValidatorDetector::detect>>
//@sig rule=E7 was=<<fn detect(&self, block_with_context: &BlockWithContext,) -> anyhow::Result<Option<ValidatorType>>>>
    fn detect(&self, block_with_context: &BlockWithContext) -> (r: anyhow::Result<Option<ValidatorType>>)
//@contract
        ensures
            r is Ok, // [VLdet.post.never_err]
            r matches Ok(o) ==> (o is Some <==> attr_view(block_with_context.block.attributes@, "check-lua"@) is Some), // [VLdet.post.fires_iff_attribute_present]
            r matches Ok(Some(t)) ==> t is Async, // [VLdet.post.async_validator]
//@end
}

// VLe: the synchronous check at the head of the per-block loop of the async `validate`. The cut: from
// `if let Some(script_path) = ..get("check-lua")` to the closing brace of its then-branch (the
// `else { continue; }` that follows and everything after it - `Arc::clone`, `tasks.spawn(async move ..)`,
// the join loop - is NOT part of the slice). `return Err(..)` is the async fn's own early return.
//@unit id=VLe file=src/validators/check_lua.rs fn=<<impl ValidatorAsync for CheckLuaValidator::validate>> slice_from=<<if let Some(script_path) = block_with_context.block.attributes.get(>> slice_through=<<if let Some(script_path) = block_with_context.block.attributes.get(>>
//@wrapper
fn lua_script_path_check(block_with_context: &BlockWithContext, file_path: &PathBuf) -> (r: anyhow::Result<HashMap<PathBuf, Vec<Violation>>>)
    ensures
        rule_is_blank(block_with_context.block, "check-lua"@) ==> r is Err, // [VLe.post.empty_script_path_is_err]
        !rule_is_blank(block_with_context.block, "check-lua"@) ==> r is Ok, // [VLe.post.otherwise_continues]
//@tail
    Ok(HashMap::new()) // stands for "the loop goes on" (`else { continue; }`, task spawn, join loop: not in the slice)
//@macro rule=E1 name=anyhow to=<<anyhow::verif_err()>> optional=1
//@end

//@unit id=VLc file=src/validators/check_lua.rs fn=block_content ret=r
//@contract
    ensures
        r matches Ok(c) ==> script_content(block_with_context.block, file_content@, "check-lua-pattern"@) == Some(c@), // [VLc.post.value_group_else_match_else_empty_or_trimmed_content]
        r is Err ==> script_content(block_with_context.block, file_content@, "check-lua-pattern"@) is None, // [VLc.post.err_only_for_invalid_pattern]
//@closure rule=E12 find=<<|m|>> params=<<|m: regex::Match<'c>|>> ret=<<t: &'c str>> optional=1
            ensures t@ == regex::match_view(m).text,
//@end

} // mod lua

// ==== check-ai ====================================================================================
mod ai {
use super::*;
broadcast use {vstd::std_specs::hash::group_hash_axioms, tstr::group_tstr};

//@item file=src/validators/check_ai.rs kind=struct name=CheckAiValidator
//@item file=src/validators/check_ai.rs kind=struct name=CheckAiValidatorDetector
//@item file=src/validators/check_ai.rs kind=struct name=CheckAiViolation
//@item file=src/validators/check_ai.rs kind=struct name=OpenAiClient
impl AiClient for OpenAiClient {}
impl<C: AiClient + Send + Sync + 'static> ValidatorAsync for CheckAiValidator<C> {}

//@item file=src/validators/check_ai.rs kind=const name=DEFAULT_MODEL_NAME
//@item file=src/validators/check_ai.rs kind=const name=API_KEY_ENV_VAR_NAME
//@item file=src/validators/check_ai.rs kind=const name=API_URL_ENV_VAR_NAME
//@item file=src/validators/check_ai.rs kind=const name=API_MODEL_ENV_VAR_NAME
//@item file=registry:async-openai-0.32.4/src/config.rs kind=const name=OPENAI_API_BASE

/// C13 "missing API key": the key the client is built with is the text of `BLOCKWATCH_AI_API_KEY`, and
/// EMPTY when that variable is not set
pub open spec fn api_key_from_env() -> Seq<char> {
    match env_var_spec("BLOCKWATCH_AI_API_KEY"@) {
        Some(k) => k,
        None => ""@,
    }
}

/// VAn + VAk together: with `BLOCKWATCH_AI_API_KEY` unset, the client built by `new_from_env` has an
/// empty key, for which the head of `check_block` (VAk) returns `Err`
pub proof fn lemma_missing_api_key_is_empty_key()
    ensures env_var_spec("BLOCKWATCH_AI_API_KEY"@) is None ==> api_key_from_env().len() == 0, // [VAn.lemma.missing_api_key_is_empty_key]
{
    reveal_strlit("");
}

impl OpenAiClient {
//@unit id=VAn file=src/validators/check_ai.rs fn=<<impl OpenAiClient::new_from_env>> ret=r
//@contract
        ensures
            r.client.config_spec().api_key_spec() == api_key_from_env(), // [VAn.post.api_key_from_env_or_empty]
//@edit rule=E13 find=<<std::env::var($a)>> count=all optional=1
verif_env_var($a)
//@edit rule=E13 find=<<$a.into()>> count=all optional=1
verif_str_into_string($a)
//@edit rule=E13 find=<<$$s.into()>> count=all optional=1
verif_str_into_string($$s)
//@end

// VAk: the synchronous check at the head of the async `OpenAiClient::check_block`. The cut: the first
// `if` statement; the request construction and `.await` that follow are NOT part of the slice.
//@unit id=VAk file=src/validators/check_ai.rs fn=<<impl AiClient for OpenAiClient::check_block>> slice_from=<<if self.client.config().api_key().expose_secret().is_empty()>> slice_through=<<if self.client.config().api_key().expose_secret().is_empty()>>
//@wrapper
fn ai_api_key_check(&self) -> (r: anyhow::Result<Option<String>>)
    ensures
        self.client.config_spec().api_key_spec().len() == 0 ==> r is Err, // [VAk.post.empty_api_key_is_err]
        self.client.config_spec().api_key_spec().len() > 0 ==> r is Ok, // [VAk.post.otherwise_continues]
//@tail
    Ok(None) // stands for "the function goes on" (request construction and `.await`: not in the slice)
//@macro rule=E1 name=anyhow to=<<anyhow::verif_err()>> optional=1
//@end
}

impl<C: AiClient> CheckAiValidator<C> {
//@unit id=VAwc file=src/validators/check_ai.rs fn=<<impl<C: AiClient> CheckAiValidator<C>::with_client>> ret=r
//@end
}

//@unit id=V5a file=src/validators/check_ai.rs fn=create_violation ret=r
//@contract
    requires
        // the only caller (`process_ai_response`) runs in a task spawned for a block that has the attribute
        attr_view(block.attributes@, "check-ai"@) is Some, // [V5a.pre.check_ai_attribute_present]
    ensures
        r matches Ok(v) ==> range_is_start_tag(v, *block), // [V5a.post.range_is_start_tag]
        r matches Ok(v) ==> v.code@ == "check-ai"@ && Ok::<BlockSeverity, anyhow::Error>(v.severity) == severity_spec(*block), // [V5a.post.code_and_severity]
        r matches Ok(v) ==> exists|d: serde_json::Value, payload: CheckAiViolation| v.data == Some(d) && #[trigger] serde_json::value_encodes(d, payload) // [V5a.post.payload]
            && payload.condition@ == trim_spec(attr_view(block.attributes@, "check-ai"@).unwrap())
            && (payload.ai_message matches Some(m) && m@ == ai_message@),
        severity_spec(*block) is Err ==> r is Err, // [V5a.post.bad_severity_is_err]
//@macro rule=E1 name=format to=<<verif_message()>> optional=1
//@dropcall rule=E1 name=context optional=1
//@edit rule=E2 find=<<serde_json::to_value(>> optional=1
verif_to_value(
//@end

/// the payload of an AI diagnostic: the block's (trimmed) condition and the model's message
pub open spec fn ai_violation_ok(v: Violation, b: Block, msg: Seq<char>) -> bool {
    &&& range_is_start_tag(v, b)
    &&& v.code@ == "check-ai"@
    &&& Ok::<BlockSeverity, anyhow::Error>(v.severity) == severity_spec(b)
    &&& exists|d: serde_json::Value, payload: CheckAiViolation| v.data == Some(d) && #[trigger] serde_json::value_encodes(d, payload)
            && payload.condition@ == trim_spec(attr_view(b.attributes@, "check-ai"@).unwrap())
            && (payload.ai_message matches Some(m) && m@ == msg)
}

impl<C: AiClient> CheckAiValidator<C> {
// VAp: what the task does with the model's answer (a plain function called at the end of the spawned
// task): an API error is an error (C13), `None` ("OK") is silent, a message becomes one diagnostic.
//@unit id=VAp file=src/validators/check_ai.rs fn=<<impl<C: AiClient> CheckAiValidator<C>::process_ai_response>> ret=r
//@contract
        requires
            attr_view(block_with_context.block.attributes@, "check-ai"@) is Some, // [VAp.pre.check_ai_attribute_present]
        ensures
            result is Err ==> r is Err, // [VAp.post.api_error_is_err]
            result matches Ok(None) ==> r matches Ok(None), // [VAp.post.ok_answer_is_silent]
            result matches Ok(Some(msg)) && severity_spec(block_with_context.block) is Err ==> r is Err, // [VAp.post.bad_severity_is_err]
            result matches Ok(Some(msg)) ==> (r matches Ok(o) ==> (o matches Some(fv) && fv.0 == file_path // [VAp.post.message_becomes_one_diagnostic_on_the_start_tag]
                && ai_violation_ok(fv.1, block_with_context.block, msg@))),
//@macro rule=E1 name=format to=<<anyhow::verif_msg()>> optional=1
//@end
}

impl CheckAiValidatorDetector {
//@unit id=VAdet file=src/validators/check_ai.rs fn=<<impl ValidatorDetector for CheckAiValidatorDetector::detect>>
//@sig rule=E7 was=<<fn detect(&self, block_with_context: &BlockWithContext,) -> anyhow::Result<Option<ValidatorType>>>>
    fn detect(&self, block_with_context: &BlockWithContext) -> (r: anyhow::Result<Option<ValidatorType>>)
//@contract
        ensures
            r is Ok, // [VAdet.post.never_err]
            r matches Ok(o) ==> (o is Some <==> attr_view(block_with_context.block.attributes@, "check-ai"@) is Some), // [VAdet.post.fires_iff_attribute_present]
            r matches Ok(Some(t)) ==> t is Async, // [VAdet.post.async_validator]
//@end
}

// VAe: the synchronous check at the head of the per-block loop of the async `validate`; same cut as VLe.
//@unit id=VAe file=src/validators/check_ai.rs fn=<<impl<C: AiClient + 'static> ValidatorAsync for CheckAiValidator<C>::validate>> slice_from=<<if let Some(condition) = block_with_context.block.attributes.get(>> slice_through=<<if let Some(condition) = block_with_context.block.attributes.get(>>
//@wrapper
fn ai_condition_check(block_with_context: &BlockWithContext, file_path: &PathBuf) -> (r: anyhow::Result<HashMap<PathBuf, Vec<Violation>>>)
    ensures
        rule_is_blank(block_with_context.block, "check-ai"@) ==> r is Err, // [VAe.post.empty_condition_is_err]
        !rule_is_blank(block_with_context.block, "check-ai"@) ==> r is Ok, // [VAe.post.otherwise_continues]
//@tail
    Ok(HashMap::new()) // stands for "the loop goes on" (`else { continue; }`, task spawn, join loop: not in the slice)
//@macro rule=E1 name=anyhow to=<<anyhow::verif_err()>> optional=1
//@end

//@unit id=VAc file=src/validators/check_ai.rs fn=block_content ret=r
//@contract
    ensures
        r matches Ok(c) ==> script_content(block_with_context.block, file_content@, "check-ai-pattern"@) == Some(c@), // [VAc.post.value_group_else_match_else_empty_or_trimmed_content]
        r is Err ==> script_content(block_with_context.block, file_content@, "check-ai-pattern"@) is None, // [VAc.post.err_only_for_invalid_pattern]
//@closure rule=E12 find=<<|m|>> params=<<|m: regex::Match<'c>|>> ret=<<t: &'c str>> optional=1
            ensures t@ == regex::match_view(m).text,
//@end

} // mod ai

} // verus!
fn main() {}
