// Group `detectors`: the `detect` methods of the four line-validator detectors (property C14: the
// validator of rule R runs iff some block in the context carries attribute R; they never fail).
// AffectsValidatorDetector::detect is unit V6d of group `affects`; the two script detectors are in
// group `scripts`.
use vstd::prelude::*;
use std::cmp::Ordering;
use std::collections::{HashMap, HashSet};
use std::ops::{Range, RangeInclusive};
use std::path::{Path, PathBuf};

//@include prelude/anyhow.rs
//@include prelude/tstr_mod.rs

verus! {

//@include prelude/std_range.rs
//@include prelude/strings.rs
//@include prelude/domain.rs

// T-dyn stand-ins: the validator traits only occur as `Box<dyn ..>` inside `ValidatorType` here;
// their methods are not called.
pub trait ValidatorSync {}
pub trait ValidatorAsync {}
//@item file=src/validators/mod.rs kind=enum name=ValidatorType

//@item file=src/validators/keep_sorted.rs kind=struct name=KeepSortedValidator
//@item file=src/validators/keep_sorted.rs kind=struct name=KeepSortedValidatorDetector
//@item file=src/validators/keep_unique.rs kind=struct name=KeepUniqueValidator
//@item file=src/validators/keep_unique.rs kind=struct name=KeepUniqueValidatorDetector
//@item file=src/validators/line_pattern.rs kind=struct name=LinePatternValidator
//@item file=src/validators/line_pattern.rs kind=struct name=LinePatternValidatorDetector
//@item file=src/validators/line_count.rs kind=struct name=LineCountValidator
//@item file=src/validators/line_count.rs kind=struct name=LineCountValidatorDetector
impl ValidatorSync for KeepSortedValidator {}
impl ValidatorSync for KeepUniqueValidator {}
impl ValidatorSync for LinePatternValidator {}
impl ValidatorSync for LineCountValidator {}

impl KeepSortedValidator {
//@unit id=V1new file=src/validators/keep_sorted.rs fn=<<impl KeepSortedValidator::new>> ret=r
//@end
}
impl KeepUniqueValidator {
//@unit id=V2new file=src/validators/keep_unique.rs fn=<<impl KeepUniqueValidator::new>> ret=r
//@end
}
impl LinePatternValidator {
//@unit id=V3new file=src/validators/line_pattern.rs fn=<<impl LinePatternValidator::new>> ret=r
//@end
}
impl LineCountValidator {
//@unit id=V4new file=src/validators/line_count.rs fn=<<impl LineCountValidator::new>> ret=r
//@end
}

impl KeepSortedValidatorDetector {
//@unit id=V1det file=src/validators/keep_sorted.rs fn=<<impl ValidatorDetector for KeepSortedValidatorDetector::detect>>
//@sig rule=E7 was=<<fn detect(&self, block_with_context: &BlockWithContext,) -> anyhow::Result<Option<ValidatorType>>>>
    fn detect(&self, block_with_context: &BlockWithContext) -> (r: anyhow::Result<Option<ValidatorType>>)
//@contract
        ensures
            r is Ok, // [V1det.post.never_err]
            r matches Ok(o) ==> (o is Some <==> attr_view(block_with_context.block.attributes@, "keep-sorted"@) is Some), // [V1det.post.fires_iff_attribute_present]
            r matches Ok(Some(t)) ==> t is Sync, // [V1det.post.sync_validator]
//@end
}

impl KeepUniqueValidatorDetector {
//@unit id=V2det file=src/validators/keep_unique.rs fn=<<impl ValidatorDetector for KeepUniqueValidatorDetector::detect>>
//@sig rule=E7 was=<<fn detect(&self, block_with_context: &BlockWithContext,) -> anyhow::Result<Option<ValidatorType>>>>
    fn detect(&self, block_with_context: &BlockWithContext) -> (r: anyhow::Result<Option<ValidatorType>>)
//@contract
        ensures
            r is Ok, // [V2det.post.never_err]
            r matches Ok(o) ==> (o is Some <==> attr_view(block_with_context.block.attributes@, "keep-unique"@) is Some), // [V2det.post.fires_iff_attribute_present]
            r matches Ok(Some(t)) ==> t is Sync, // [V2det.post.sync_validator]
//@end
}

impl LinePatternValidatorDetector {
//@unit id=V3det file=src/validators/line_pattern.rs fn=<<impl ValidatorDetector for LinePatternValidatorDetector::detect>>
//@sig rule=E7 was=<<fn detect(&self, block_with_context: &BlockWithContext,) -> anyhow::Result<Option<ValidatorType>>>>
    fn detect(&self, block_with_context: &BlockWithContext) -> (r: anyhow::Result<Option<ValidatorType>>)
//@contract
        ensures
            r is Ok, // [V3det.post.never_err]
            r matches Ok(o) ==> (o is Some <==> attr_view(block_with_context.block.attributes@, "line-pattern"@) is Some), // [V3det.post.fires_iff_attribute_present]
            r matches Ok(Some(t)) ==> t is Sync, // [V3det.post.sync_validator]
//@end
}

impl LineCountValidatorDetector {
//@unit id=V4det file=src/validators/line_count.rs fn=<<impl ValidatorDetector for LineCountValidatorDetector::detect>>
//@sig rule=E7 was=<<fn detect(&self, block_with_context: &BlockWithContext,) -> anyhow::Result<Option<ValidatorType>>>>
    fn detect(&self, block_with_context: &BlockWithContext) -> (r: anyhow::Result<Option<ValidatorType>>)
//@contract
        ensures
            r is Ok, // [V4det.post.never_err]
            r matches Ok(o) ==> (o is Some <==> attr_view(block_with_context.block.attributes@, "line-count"@) is Some), // [V4det.post.fires_iff_attribute_present]
            r matches Ok(Some(t)) ==> t is Sync, // [V4det.post.sync_validator]
//@end
}

} // verus!
fn main() {}
