// Group `detect`: unit V10 — `detect_validators` (src/validators/mod.rs), the lazy loop that turns the
// --enable/--disable sets and the blocks of the run into the validators that will run.
// Properties: C14 (exactly the selected validators run), C20 (the result does not depend on the
// hash-map iteration order), C13 (a detector error is not swallowed), C04 (termination of the
// nested pop loop, no arithmetic/bounds failure).
use vstd::prelude::*;
use std::collections::{HashMap, HashSet};
use std::ops::{Range, RangeInclusive};
use std::path::PathBuf;
use std::sync::Arc;

//@include prelude/anyhow.rs
//@include prelude/orch_ext.rs

verus! {

//@include prelude/orch_model.rs

//@item file=src/validators/mod.rs kind=type name=SyncValidators
//@item file=src/validators/mod.rs kind=type name=AsyncValidators

// `type DetectorFactory = fn() -> Box<dyn ValidatorDetector>;` — Verus has no function pointer
// types ("The verifier does not yet support ... function pointer types"), so the alias is replaced
// by an opaque wrapper (T-ext stand-in). It is only ever *called* inside the E3 shim below.
#[verifier::external_body]
pub struct DetectorFactory { f: fn() -> Box<dyn ValidatorDetector> }

// ---------------------------------------------------------------------------------------------
// Specification, written from the statement of C14 (and C20), not from the code.

/// What the detector produced by the factory at table position `id` answers for block `b`.
/// (Factories are deterministic and detectors are stateless: the answer depends on the table
/// entry and the block only. This is the assumption of the E3 shim, see there.)
pub uninterp spec fn detects_by(id: int, b: BlockWithContext) -> DetectOutcome;

/// C14: "--enable V keeps exactly V's, --disable V removes exactly V's": a name is selected iff,
/// when some validator is enabled, it is one of the enabled ones; otherwise iff it is not disabled.
pub open spec fn name_selected<'a>(enabled: Set<&'a str>, disabled: Set<&'a str>, name: &'a str) -> bool {
    if (exists|x: &'a str| enabled.contains(x)) { enabled.contains(name) } else { !disabled.contains(name) }
}

/// The set E of the design: table positions whose name is selected.
pub open spec fn in_e<'a>(table: Seq<(&'a str, DetectorFactory)>, enabled: Set<&'a str>, disabled: Set<&'a str>, i: int) -> bool {
    0 <= i < table.len() && name_selected(enabled, disabled, table[i].0)
}

/// `b` is one of the blocks of the run (any file).
pub open spec fn ctx_has_block(ctx: ValidationContext, b: BlockWithContext) -> bool {
    exists|fb: FileBlocks, j: int| ctx.blocks@.values().contains(fb) && 0 <= j < fb.blocks_with_context@.len() && #[trigger] fb.blocks_with_context@[j] == b
}

pub open spec fn sync_origins(s: Seq<Box<dyn ValidatorSync>>) -> Seq<int> {
    Seq::new(s.len(), |k: int| s[k].origin())
}

pub open spec fn async_origins(s: Seq<Box<dyn ValidatorAsync>>) -> Seq<int> {
    Seq::new(s.len(), |k: int| s[k].origin())
}

pub open spec fn det_ids(s: Seq<Box<dyn ValidatorDetector>>) -> Seq<int> {
    Seq::new(s.len(), |k: int| s[k].id())
}

pub open spec fn distinct(x: Seq<int>) -> bool {
    forall|k: int, l: int| 0 <= k < l < x.len() ==> x[k] != x[l]
}

pub open spec fn disjoint(x: Seq<int>, y: Seq<int>) -> bool {
    forall|k: int, l: int| 0 <= k < x.len() && 0 <= l < y.len() ==> x[k] != y[l]
}

/// A validator from table position `i` is returned (in either list).
pub open spec fn returned(s: Seq<int>, a: Seq<int>, i: int) -> bool {
    s.contains(i) || a.contains(i)
}

/// Everything V10 guarantees about an `Ok` result, as one predicate over the two lists of origins.
pub open spec fn v10_ok_post<'a>(ctx: ValidationContext, table: Seq<(&'a str, DetectorFactory)>, enabled: Set<&'a str>, disabled: Set<&'a str>, so: Seq<int>, ao: Seq<int>) -> bool {
    &&& forall|k: int| 0 <= k < so.len() ==> in_e(table, enabled, disabled, #[trigger] so[k])
            && exists|b: BlockWithContext| ctx_has_block(ctx, b) && #[trigger] detects_by(so[k], b) is SyncValidator
    &&& forall|k: int| 0 <= k < ao.len() ==> in_e(table, enabled, disabled, #[trigger] ao[k])
            && exists|b: BlockWithContext| ctx_has_block(ctx, b) && #[trigger] detects_by(ao[k], b) is AsyncValidator
    &&& distinct(so) && distinct(ao) && disjoint(so, ao)
    &&& forall|i: int, b: BlockWithContext| in_e(table, enabled, disabled, i) && ctx_has_block(ctx, b) && (#[trigger] detects_by(i, b)).fires()
            ==> returned(so, ao, i)
}

/// Every selected detector answers with one kind of validator (true of the seven real detectors:
/// each `detect` body has a single `Some(ValidatorType::X(..))`).
pub open spec fn kind_uniform<'a>(ctx: ValidationContext, table: Seq<(&'a str, DetectorFactory)>, enabled: Set<&'a str>, disabled: Set<&'a str>) -> bool {
    forall|i: int, b1: BlockWithContext, b2: BlockWithContext|
        in_e(table, enabled, disabled, i) && ctx_has_block(ctx, b1) && ctx_has_block(ctx, b2)
        && (#[trigger] detects_by(i, b1)).fires() && (#[trigger] detects_by(i, b2)).fires()
        ==> detects_by(i, b1) == detects_by(i, b2)
}

/// C20 (order independence of V10). `detect_validators` is proved for an *arbitrary* iteration order
/// of `context.blocks.values()` (E4: the ghost sequence `it.seq()` is only known to enumerate the
/// map's values), so two runs that differ in hash seeds both satisfy `v10_ok_post`. This lemma shows
/// that `v10_ok_post` leaves no freedom: the *set* of validators in each list is determined by the
/// context and the flags. (Which list *position* a validator gets does depend on the order; the
/// merge contract V7 is insensitive to it up to the order of diagnostics within a file.)
pub proof fn lemma_v10_order_independent<'a>(ctx: ValidationContext, table: Seq<(&'a str, DetectorFactory)>, enabled: Set<&'a str>, disabled: Set<&'a str>,
    so1: Seq<int>, ao1: Seq<int>, so2: Seq<int>, ao2: Seq<int>)
    requires
        v10_ok_post(ctx, table, enabled, disabled, so1, ao1),
        v10_ok_post(ctx, table, enabled, disabled, so2, ao2),
        kind_uniform(ctx, table, enabled, disabled),
    ensures
        so1.to_set() == so2.to_set() && ao1.to_set() == ao2.to_set(), // [V10.post.order_independent]
{
    lemma_v10_subset(ctx, table, enabled, disabled, so1, ao1, so2, ao2);
    lemma_v10_subset(ctx, table, enabled, disabled, so2, ao2, so1, ao1);
    assert(so1.to_set() =~= so2.to_set());
    assert(ao1.to_set() =~= ao2.to_set());
}

proof fn lemma_v10_subset<'a>(ctx: ValidationContext, table: Seq<(&'a str, DetectorFactory)>, enabled: Set<&'a str>, disabled: Set<&'a str>,
    so1: Seq<int>, ao1: Seq<int>, so2: Seq<int>, ao2: Seq<int>)
    requires
        v10_ok_post(ctx, table, enabled, disabled, so1, ao1),
        v10_ok_post(ctx, table, enabled, disabled, so2, ao2),
        kind_uniform(ctx, table, enabled, disabled),
    ensures
        forall|i: int| so1.contains(i) ==> so2.contains(i),
        forall|i: int| ao1.contains(i) ==> ao2.contains(i),
{
    assert forall|i: int| so1.contains(i) implies so2.contains(i) by {
        let k = choose|k: int| 0 <= k < so1.len() && so1[k] == i;
        let b = choose|b: BlockWithContext| ctx_has_block(ctx, b) && #[trigger] detects_by(so1[k], b) is SyncValidator;
        assert(detects_by(i, b).fires());
        assert(returned(so2, ao2, i));
        if ao2.contains(i) {
            let k2 = choose|k2: int| 0 <= k2 < ao2.len() && ao2[k2] == i;
            let b2 = choose|b2: BlockWithContext| ctx_has_block(ctx, b2) && #[trigger] detects_by(ao2[k2], b2) is AsyncValidator;
            assert(detects_by(i, b2).fires());
            assert(detects_by(i, b) == detects_by(i, b2));
        }
    }
    assert forall|i: int| ao1.contains(i) implies ao2.contains(i) by {
        let k = choose|k: int| 0 <= k < ao1.len() && ao1[k] == i;
        let b = choose|b: BlockWithContext| ctx_has_block(ctx, b) && #[trigger] detects_by(ao1[k], b) is AsyncValidator;
        assert(detects_by(i, b).fires());
        assert(returned(so2, ao2, i));
        if so2.contains(i) {
            let k2 = choose|k2: int| 0 <= k2 < so2.len() && so2[k2] == i;
            let b2 = choose|b2: BlockWithContext| ctx_has_block(ctx, b2) && #[trigger] detects_by(so2[k2], b2) is SyncValidator;
            assert(detects_by(i, b2).fires());
            assert(detects_by(i, b) == detects_by(i, b2));
        }
    }
}

// ---- helper predicates of the loop invariants -----------------------------------------------

/// every detector still in the pool comes from a selected table entry and behaves like it
pub open spec fn pool_wf<'a>(p: Seq<Box<dyn ValidatorDetector>>, table: Seq<(&'a str, DetectorFactory)>, enabled: Set<&'a str>, disabled: Set<&'a str>) -> bool {
    forall|k: int| 0 <= k < p.len() ==> in_e(table, enabled, disabled, (#[trigger] p[k]).id())
        && (forall|b: BlockWithContext| p[k].detects(b) == #[trigger] detects_by(p[k].id(), b))
}

/// every returned validator comes from a selected entry that fired (with that kind) on a block of the run
pub open spec fn sync_wf<'a>(s: Seq<Box<dyn ValidatorSync>>, ctx: ValidationContext, table: Seq<(&'a str, DetectorFactory)>, enabled: Set<&'a str>, disabled: Set<&'a str>) -> bool {
    forall|k: int| 0 <= k < s.len() ==> in_e(table, enabled, disabled, (#[trigger] s[k]).origin())
        && exists|b: BlockWithContext| ctx_has_block(ctx, b) && #[trigger] detects_by(s[k].origin(), b) is SyncValidator
}

pub open spec fn async_wf<'a>(s: Seq<Box<dyn ValidatorAsync>>, ctx: ValidationContext, table: Seq<(&'a str, DetectorFactory)>, enabled: Set<&'a str>, disabled: Set<&'a str>) -> bool {
    forall|k: int| 0 <= k < s.len() ==> in_e(table, enabled, disabled, (#[trigger] s[k]).origin())
        && exists|b: BlockWithContext| ctx_has_block(ctx, b) && #[trigger] detects_by(s[k].origin(), b) is AsyncValidator
}

/// the detectors of `p` answered `Nothing` on every block seen so far
pub open spec fn saw_nothing(p: Seq<Box<dyn ValidatorDetector>>, seen: Set<BlockWithContext>) -> bool {
    forall|k: int, b: BlockWithContext| 0 <= k < p.len() && seen.contains(b) ==> #[trigger] detects_by((#[trigger] p[k]).id(), b) is Nothing
}

/// every block of the first `files` files (in the iteration order `vals`) has been seen
pub open spec fn seen_prefix(seen: Set<BlockWithContext>, vals: Seq<&FileBlocks>, files: int) -> bool {
    forall|q: int, j: int| 0 <= q < files && q < vals.len() && 0 <= j < vals[q].blocks_with_context@.len()
        ==> seen.contains(#[trigger] vals[q].blocks_with_context@[j])
}

// ---- E3 shim: `detectors.iter().filter(F).map(|(_, factory)| factory()).collect()` -------------
// Verus rejects iterator adapters, so the chain is a shim whose body is the same std chain. Trusted:
//  * `Iterator::filter` keeps exactly the entries on which `F` returned true (stated through F's own
//    verified contract: `call_ensures(f, (x,), true/false)`), `map`/`collect` produce one detector per
//    kept entry (std docs);
//  * the ghost labelling `id()`: the detector produced from table entry `i` is labelled `i`;
//  * factories are deterministic and detectors stateless: the detector made from entry `i` answers
//    `detects_by(i, _)`. (All seven real factories are `|| Box::new(XDetector::new())` on field-less
//    structs.)
// The order of the produced vector is left unspecified (weaker than std's guarantee; not needed).
#[verifier::external_body]
pub fn verif_filter_build_collect<'a, 'b, F: FnMut(&&'a (&'b str, DetectorFactory)) -> bool>(
    detectors: &'a [(&'b str, DetectorFactory)],
    f: F,
) -> (r: Vec<Box<dyn ValidatorDetector>>)
    requires
        forall|i: int| 0 <= i < detectors@.len() ==> call_requires(f, (&&detectors@[i],)),
    ensures
        forall|k: int| 0 <= k < r@.len() ==> 0 <= (#[trigger] r@[k]).id() < detectors@.len()
            && call_ensures(f, (&&detectors@[r@[k].id()],), true),
        forall|k: int, b: BlockWithContext| 0 <= k < r@.len() ==> (#[trigger] r@[k]).detects(b) == #[trigger] detects_by(r@[k].id(), b),
        distinct(det_ids(r@)),
        forall|i: int| 0 <= i < detectors@.len() && !det_ids(r@).contains(i) ==> call_ensures(f, (&&#[trigger] detectors@[i],), false),
{
    detectors.iter().filter(f).map(|(_, factory)| (factory.f)()).collect()
}

// ---- shim: `Vec::extend(Vec)` (vstd has no specification for `Extend`) ---------------------------
// std doc of `Extend for Vec`: appends all items of the iterator, in order.
#[verifier::external_body]
pub fn verif_vec_extend<T>(v: &mut Vec<T>, other: Vec<T>)
    ensures final(v)@ == old(v)@ + other@,
{
    v.extend(other)
}

// facts about variables a loop does not modify stay visible inside it (needed for `break 'outer`
// out of the inner `for`: the outer iterator's hidden invariants must hold at the break)
#[verifier::loop_isolation(false)]
//@unit id=V10 file=src/validators/mod.rs fn=detect_validators ret=r
//@contract
    ensures
        // nothing originates from a detector outside E, and a returned validator was really
        // detected, with the kind of its list, on some block of the run
        r matches Ok(v) ==> sync_wf(v.0@, *context, detectors@, enabled_validators@, disabled_validators@), // [V10.post.sync_only_selected_and_detected]
        r matches Ok(v) ==> async_wf(v.1@, *context, detectors@, enabled_validators@, disabled_validators@), // [V10.post.async_only_selected_and_detected]
        // at most one validator per detector, over both lists
        r matches Ok(v) ==> distinct(sync_origins(v.0@)) && distinct(async_origins(v.1@)) // [V10.post.at_most_one_per_detector]
            && disjoint(sync_origins(v.0@), async_origins(v.1@)),
        // a selected detector that fires on some block of the run has its validator returned
        // (whatever the iteration order: the early `break 'outer` loses nothing)
        r matches Ok(v) ==> forall|i: int, b: BlockWithContext| // [V10.post.detected_is_returned]
            in_e(detectors@, enabled_validators@, disabled_validators@, i) && ctx_has_block(*context, b) && (#[trigger] detects_by(i, b)).fires()
            ==> returned(sync_origins(v.0@), async_origins(v.1@), i),
        // a detector error is not swallowed: Ok is only possible if every selected detector that
        // fails on some block also fired on some block (so it was retired before seeing the error)
        r matches Ok(v) ==> forall|i: int, b: BlockWithContext| // [V10.post.detect_err_is_err]
            in_e(detectors@, enabled_validators@, disabled_validators@, i) && ctx_has_block(*context, b) && #[trigger] detects_by(i, b) is Fails
            ==> returned(sync_origins(v.0@), async_origins(v.1@), i),
        // summary used by the C20 lemma below (same facts over the two origin lists)
        r matches Ok(v) ==> v10_ok_post(*context, detectors@, enabled_validators@, disabled_validators@, sync_origins(v.0@), async_origins(v.1@)), // [V10.post.ok_summary]
        // and an error is never invented
        r is Err ==> exists|i: int, b: BlockWithContext| // [V10.post.err_only_from_detect]
            in_e(detectors@, enabled_validators@, disabled_validators@, i) && ctx_has_block(*context, b) && #[trigger] detects_by(i, b) is Fails,
//@edit rule=E12 after=<<|(validator_name, _)| {>>
            let (validator_name, _) = entry;
            proof { lemma_nonempty(enabled_validators@); }
//@closure rule=E12 find=<<|(validator_name, _)|>> params=<<|entry: &&(&str, DetectorFactory)|>> ret=<<keep: bool>>
            ensures
                keep == name_selected(enabled_validators@, disabled_validators@, entry.0), // [V10.closure.filter_is_selection]
//@chain rule=E3 find=<<.iter().filter(>> to=verif_filter_build_collect suffix=<<.map(|(_, factory)| factory()).collect()>>
//@edit rule=ghost before=<<let mut validator_detectors>>
    broadcast use axiom_pathbuf_key_model, axiom_str_key_model;
//@edit rule=ghost before=<<let mut sync_validators>>
    proof {
        assert(pool_wf(validator_detectors@, detectors@, enabled_validators@, disabled_validators@));
    }
//@edit rule=E15 find=<<'outer: for file_blocks in context.blocks.values()>>
    let ghost mut seen: Set<BlockWithContext> = Set::empty();
    'outer: for file_blocks in it: context.blocks.values()
        invariant
            pool_wf(validator_detectors@, detectors@, enabled_validators@, disabled_validators@), // [V10.inv.pool_from_selected_entries]
            sync_wf(sync_validators@, *context, detectors@, enabled_validators@, disabled_validators@), // [V10.inv.sync_selected_and_detected]
            async_wf(async_validators@, *context, detectors@, enabled_validators@, disabled_validators@), // [V10.inv.async_selected_and_detected]
            distinct(det_ids(validator_detectors@)) && distinct(sync_origins(sync_validators@)) && distinct(async_origins(async_validators@)), // [V10.inv.one_per_detector]
            disjoint(det_ids(validator_detectors@), sync_origins(sync_validators@)) // [V10.inv.partition_disjoint]
                && disjoint(det_ids(validator_detectors@), async_origins(async_validators@))
                && disjoint(sync_origins(sync_validators@), async_origins(async_validators@)),
            // "undetected + detected = E": what justifies the early `break 'outer`
            forall|i: int| in_e(detectors@, enabled_validators@, disabled_validators@, i) ==> // [V10.inv.partition_covers_e]
                det_ids(validator_detectors@).contains(i) || returned(sync_origins(sync_validators@), async_origins(async_validators@), i),
            saw_nothing(validator_detectors@, seen), // [V10.inv.pool_saw_nothing_so_far]
            seen_prefix(seen, it.seq(), it.index@), // [V10.inv.seen_covers_visited_files]
            // E4 / C20: whatever order `values()` yields, once it is exhausted every block of the run was seen
            it.index@ == it.seq().len() ==> (forall|b: BlockWithContext| ctx_has_block(*context, b) ==> seen.contains(b)), // [V10.inv.any_order_sees_every_block]
            it.seq().unref().to_set() == context.blocks@.values(),
//@edit rule=E15 find=<<for block in &file_blocks.blocks_with_context>>
        proof {
            assert(it.seq().unref()[it.index@] == *file_blocks);
            assert(it.seq().unref().to_set().contains(*file_blocks));
        }
        for block in it2: &file_blocks.blocks_with_context
            invariant
                pool_wf(validator_detectors@, detectors@, enabled_validators@, disabled_validators@), // [V10.inv2.pool_from_selected_entries]
                sync_wf(sync_validators@, *context, detectors@, enabled_validators@, disabled_validators@), // [V10.inv2.sync_selected_and_detected]
                async_wf(async_validators@, *context, detectors@, enabled_validators@, disabled_validators@), // [V10.inv2.async_selected_and_detected]
                distinct(det_ids(validator_detectors@)) && distinct(sync_origins(sync_validators@)) && distinct(async_origins(async_validators@)), // [V10.inv2.one_per_detector]
                disjoint(det_ids(validator_detectors@), sync_origins(sync_validators@)) // [V10.inv2.partition_disjoint]
                    && disjoint(det_ids(validator_detectors@), async_origins(async_validators@))
                    && disjoint(sync_origins(sync_validators@), async_origins(async_validators@)),
                forall|i: int| in_e(detectors@, enabled_validators@, disabled_validators@, i) ==> // [V10.inv2.partition_covers_e]
                    det_ids(validator_detectors@).contains(i) || returned(sync_origins(sync_validators@), async_origins(async_validators@), i),
                saw_nothing(validator_detectors@, seen), // [V10.inv2.pool_saw_nothing_so_far]
                seen_prefix(seen, it.seq(), it.index@), // [V10.inv2.seen_covers_visited_files]
                forall|j: int| 0 <= j < it2.index@ ==> seen.contains(#[trigger] file_blocks.blocks_with_context@[j]),
//@whilelet rule=E6 find=<<while let Some(detector) = validator_detectors.pop()>>
                invariant
                    pool_wf(validator_detectors@, detectors@, enabled_validators@, disabled_validators@), // [V10.inv3.pool_from_selected_entries]
                    pool_wf(undetected@, detectors@, enabled_validators@, disabled_validators@), // [V10.inv3.undetected_from_selected_entries]
                    sync_wf(sync_validators@, *context, detectors@, enabled_validators@, disabled_validators@), // [V10.inv3.sync_selected_and_detected]
                    async_wf(async_validators@, *context, detectors@, enabled_validators@, disabled_validators@), // [V10.inv3.async_selected_and_detected]
                    distinct(det_ids(validator_detectors@)) && distinct(det_ids(undetected@)) // [V10.inv3.one_per_detector]
                        && distinct(sync_origins(sync_validators@)) && distinct(async_origins(async_validators@)),
                    disjoint(det_ids(validator_detectors@), det_ids(undetected@)), // [V10.inv3.pool_undetected_disjoint]
                    disjoint(det_ids(validator_detectors@), sync_origins(sync_validators@)) // [V10.inv3.partition_disjoint]
                        && disjoint(det_ids(validator_detectors@), async_origins(async_validators@))
                        && disjoint(det_ids(undetected@), sync_origins(sync_validators@))
                        && disjoint(det_ids(undetected@), async_origins(async_validators@))
                        && disjoint(sync_origins(sync_validators@), async_origins(async_validators@)),
                    forall|i: int| in_e(detectors@, enabled_validators@, disabled_validators@, i) ==> // [V10.inv3.partition_covers_e]
                        det_ids(validator_detectors@).contains(i) || det_ids(undetected@).contains(i)
                        || returned(sync_origins(sync_validators@), async_origins(async_validators@), i),
                    saw_nothing(validator_detectors@, seen), // [V10.inv3.pool_saw_nothing_so_far]
                    saw_nothing(undetected@, seen.insert(*block)), // [V10.inv.undetected_saw_nothing_on_this_block]
                decreases validator_detectors@.len(), // [V10.safety.pop_loop_terminates]
//@edit rule=ghost before=<<match validator_detectors.pop()>>
              let ghost pool0 = validator_detectors@;
              let ghost und0 = undetected@;
              let ghost sync0 = sync_validators@;
              let ghost async0 = async_validators@;
//@edit rule=ghost after=<<match validator_detectors.pop() { Some(detector) => {>>
                proof {
                    let i0 = detector.id();
                    assert(detector == pool0[pool0.len() - 1]);
                    assert(det_ids(pool0)[pool0.len() - 1] == i0);
                    assert(det_ids(validator_detectors@) =~= det_ids(pool0).drop_last());
                    assert(in_e(detectors@, enabled_validators@, disabled_validators@, i0));
                    assert(*block == file_blocks.blocks_with_context@[it2.index@]);
                    assert(ctx_has_block(*context, *block));
                    assert(detector.detects(*block) == detects_by(i0, *block));
                }
//@edit rule=ghost after=<<sync_validators.push(validator);>>
                        proof {
                            let i0 = detector.id();
                            assert(sync_validators@[sync0.len() as int].origin() == i0);
                            assert forall|k: int| 0 <= k < sync_validators@.len() implies in_e(detectors@, enabled_validators@, disabled_validators@, (#[trigger] sync_validators@[k]).origin())
                                && exists|b: BlockWithContext| ctx_has_block(*context, b) && #[trigger] detects_by(sync_validators@[k].origin(), b) is SyncValidator by {
                                if k < sync0.len() {
                                    assert(sync_validators@[k] == sync0[k]);
                                } else {
                                    assert(sync_validators@[k].origin() == i0);
                                    assert(in_e(detectors@, enabled_validators@, disabled_validators@, i0));
                                    assert(ctx_has_block(*context, *block) && detects_by(i0, *block) is SyncValidator);
                                }
                            }
                            assert(sync_origins(sync_validators@) =~= sync_origins(sync0).push(i0));
                            lemma_retire(det_ids(pool0), det_ids(und0), sync_origins(sync0), async_origins(async0), i0);
                            assert forall|i: int| in_e(detectors@, enabled_validators@, disabled_validators@, i) implies
                                det_ids(validator_detectors@).contains(i) || det_ids(undetected@).contains(i)
                                || returned(sync_origins(sync_validators@), async_origins(async_validators@), i) by {
                                lemma_cover(det_ids(pool0), sync_origins(sync0), i);
                            }
                        }
//@edit rule=ghost after=<<async_validators.push(validator);>>
                        proof {
                            let i0 = detector.id();
                            assert(async_validators@[async0.len() as int].origin() == i0);
                            assert(detects_by(i0, *block) is AsyncValidator);
                            assert forall|k: int| 0 <= k < async_validators@.len() implies in_e(detectors@, enabled_validators@, disabled_validators@, (#[trigger] async_validators@[k]).origin())
                                && exists|b: BlockWithContext| ctx_has_block(*context, b) && #[trigger] detects_by(async_validators@[k].origin(), b) is AsyncValidator by {
                                if k < async0.len() {
                                    assert(async_validators@[k] == async0[k]);
                                } else {
                                    assert(async_validators@[k].origin() == i0);
                                    assert(in_e(detectors@, enabled_validators@, disabled_validators@, i0));
                                    assert(ctx_has_block(*context, *block) && detects_by(i0, *block) is AsyncValidator);
                                }
                            }
                            assert(async_origins(async_validators@) =~= async_origins(async0).push(i0));
                            lemma_retire(det_ids(pool0), det_ids(und0), async_origins(async0), sync_origins(sync0), i0);
                            assert forall|i: int| in_e(detectors@, enabled_validators@, disabled_validators@, i) implies
                                det_ids(validator_detectors@).contains(i) || det_ids(undetected@).contains(i)
                                || returned(sync_origins(sync_validators@), async_origins(async_validators@), i) by {
                                lemma_cover(det_ids(pool0), async_origins(async0), i);
                            }
                        }
//@edit rule=ghost after=<<undetected.push(detector);>>
                        proof {
                            let i0 = detector.id();
                            assert(det_ids(undetected@) =~= det_ids(und0).push(i0));
                            lemma_retire(det_ids(pool0), sync_origins(sync0), det_ids(und0), async_origins(async0), i0);
                            assert forall|i: int| in_e(detectors@, enabled_validators@, disabled_validators@, i) implies
                                det_ids(validator_detectors@).contains(i) || det_ids(undetected@).contains(i)
                                || returned(sync_origins(sync_validators@), async_origins(async_validators@), i) by {
                                lemma_cover(det_ids(pool0), det_ids(und0), i);
                            }
                        }
//@edit rule=ghost after=<<_ => { break; } } }>>
            proof { seen = seen.insert(*block); }
//@edit rule=ghost before=<<} Ok((sync_validators, async_validators))>>
        proof {
            assert(seen_prefix(seen, it.seq(), it.index@ + 1));
            assert(it.index@ + 1 == it.seq().len() ==> (forall|b: BlockWithContext| ctx_has_block(*context, b) ==> seen.contains(b))) by {
                if it.index@ + 1 == it.seq().len() {
                    lemma_all_seen(*context, it.seq(), seen);
                }
            }
        }
//@edit rule=ghost before=<<Ok((sync_validators, async_validators))>>
    proof {
        // Here either the loop ran to the end of `values()` (then every block of the run was seen,
        // V10.inv.any_order_sees_every_block) or `break 'outer` was taken (then the pool is empty).
        assert(validator_detectors@.len() == 0 || (forall|b: BlockWithContext| ctx_has_block(*context, b) ==> seen.contains(b))); // [V10.proof.break_outer_only_when_pool_empty]
        assert forall|i: int, b: BlockWithContext|
            in_e(detectors@, enabled_validators@, disabled_validators@, i) && ctx_has_block(*context, b)
            && !returned(sync_origins(sync_validators@), async_origins(async_validators@), i)
            implies #[trigger] detects_by(i, b) is Nothing by {
            assert(det_ids(validator_detectors@).contains(i)); // [V10.proof.unreturned_detector_still_in_pool]
            let k = choose|k: int| 0 <= k < validator_detectors@.len() && det_ids(validator_detectors@)[k] == i;
            assert(validator_detectors@[k].id() == i);
            assert(seen.contains(b));
        }
        let so = sync_origins(sync_validators@);
        let ao = async_origins(async_validators@);
        assert forall|k: int| 0 <= k < so.len() implies in_e(detectors@, enabled_validators@, disabled_validators@, #[trigger] so[k])
            && exists|b: BlockWithContext| ctx_has_block(*context, b) && #[trigger] detects_by(so[k], b) is SyncValidator by {
            assert(so[k] == sync_validators@[k].origin());
        }
        assert forall|k: int| 0 <= k < ao.len() implies in_e(detectors@, enabled_validators@, disabled_validators@, #[trigger] ao[k])
            && exists|b: BlockWithContext| ctx_has_block(*context, b) && #[trigger] detects_by(ao[k], b) is AsyncValidator by {
            assert(ao[k] == async_validators@[k].origin());
        }
    }
//@edit rule=E5 find=<<validator_detectors.extend(undetected)>> optional=1
verif_vec_extend(&mut validator_detectors, undetected)
//@end

/// Moving the last element `i0` of `p` to the end of `t`: all the distinctness / disjointness facts
/// of the partition (p | u | t | a) carry over to (p.drop_last() | u | t.push(i0) | a).
proof fn lemma_retire(p: Seq<int>, u: Seq<int>, t: Seq<int>, a: Seq<int>, i0: int)
    requires
        p.len() > 0,
        p[p.len() - 1] == i0,
        distinct(p), distinct(u), distinct(t), distinct(a),
        disjoint(p, u), disjoint(p, t), disjoint(p, a),
        disjoint(u, t) || disjoint(t, u),
        disjoint(a, t) || disjoint(t, a),
    ensures
        distinct(p.drop_last()),
        distinct(t.push(i0)),
        disjoint(p.drop_last(), u), disjoint(p.drop_last(), t.push(i0)), disjoint(p.drop_last(), a),
        disjoint(u, t.push(i0)), disjoint(t.push(i0), u),
        disjoint(a, t.push(i0)), disjoint(t.push(i0), a),
{
    let n = p.len() - 1;
    let t2 = t.push(i0);
    assert forall|k: int, l: int| 0 <= k < p.drop_last().len() && 0 <= l < t2.len() implies p.drop_last()[k] != t2[l] by {
        assert(p.drop_last()[k] == p[k]);
        if l == t.len() { assert(p[k] != p[n]); } else { assert(t2[l] == t[l]); }
    }
    assert forall|k: int, l: int| 0 <= k < l < t2.len() implies t2[k] != t2[l] by {
        if l == t.len() { assert(t2[k] == t[k]); assert(p[n] != t[k]); }
    }
    assert forall|k: int, l: int| 0 <= k < u.len() && 0 <= l < t2.len() implies u[k] != t2[l] by {
        if l == t.len() { assert(p[n] != u[k]); } else { assert(t2[l] == t[l]); assert(u[k] != t[l]); }
    }
    assert forall|k: int, l: int| 0 <= k < a.len() && 0 <= l < t2.len() implies a[k] != t2[l] by {
        if l == t.len() { assert(p[n] != a[k]); } else { assert(t2[l] == t[l]); assert(a[k] != t[l]); }
    }
}

/// An index covered by `p` is covered by `p.drop_last()` or is the retired last element, now in `t.push(..)`.
proof fn lemma_cover(p: Seq<int>, t: Seq<int>, i: int)
    requires p.len() > 0,
    ensures
        p.contains(i) ==> p.drop_last().contains(i) || t.push(p[p.len() - 1]).contains(i),
        forall|x: int| t.contains(i) ==> #[trigger] t.push(x).contains(i),
{
    if p.contains(i) {
        let k = choose|k: int| 0 <= k < p.len() && p[k] == i;
        if k == p.len() - 1 {
            assert(t.push(p[p.len() - 1])[t.len() as int] == i);
        } else {
            assert(p.drop_last()[k] == i);
        }
    }
    assert forall|x: int| t.contains(i) implies #[trigger] t.push(x).contains(i) by {
        let k = choose|k: int| 0 <= k < t.len() && t[k] == i;
        assert(t.push(x)[k] == i);
    }
}

/// E4: if the iteration sequence `vals` enumerates the map's values (as a set) and every block of
/// every element of `vals` has been seen, then every block of the run has been seen.
proof fn lemma_all_seen(ctx: ValidationContext, vals: Seq<&FileBlocks>, seen: Set<BlockWithContext>)
    requires
        vals.unref().to_set() == ctx.blocks@.values(),
        seen_prefix(seen, vals, vals.len() as int),
    ensures
        forall|b: BlockWithContext| ctx_has_block(ctx, b) ==> seen.contains(b),
{
    assert forall|b: BlockWithContext| ctx_has_block(ctx, b) implies seen.contains(b) by {
        let (fb, j) = choose|fb: FileBlocks, j: int| ctx.blocks@.values().contains(fb) && 0 <= j < fb.blocks_with_context@.len() && #[trigger] fb.blocks_with_context@[j] == b;
        assert(vals.unref().to_set().contains(fb));
        assert(vals.unref().contains(fb));
        let q = choose|q: int| 0 <= q < vals.unref().len() && vals.unref()[q] == fb;
        assert(*vals[q] == fb);
        assert(seen.contains(vals[q].blocks_with_context@[j]));
    }
}

/// finite sets: "not empty" as `len` (what `HashSet::is_empty` reports) and as membership
proof fn lemma_nonempty<A>(s: Set<A>)
    ensures (s.len() != 0) <==> (exists|x: A| s.contains(x)),
{
    if s.len() != 0 {
        assert(s.contains(s.choose()));
    }
    if (exists|x: A| s.contains(x)) {
        let x = choose|x: A| s.contains(x);
        if s.len() == 0 {
            s.lemma_len0_is_empty();
            assert(!Set::<A>::empty().contains(x));
        }
    }
}

} // verus!
fn main() {}
