// Group `difflines_kf`: known finding KF1 (property C01). A copy of the D-b units of difflines.rs in
// which the two clauses that difflines.rs proves only under the carve-out `kf1_carve_out` are stated
// WITHOUT it. This group is EXPECTED TO FAIL, exactly on
//     Db.post.deletion_new_numbering      Db.post.strictly_sorted
// (pure deletions are recorded with the OLD-file line number; diff_parser.rs `fold_deleted_lines`).
// Anything else failing here, or these two passing, is a change of status. Keep the rest of the
// unit text identical to difflines.rs (only the two places marked KF1 differ).
use vstd::prelude::*;
use std::collections::{HashMap, VecDeque};
use std::ops::Range;
use std::path::PathBuf;

//@include prelude/anyhow.rs

verus! {

//@include prelude/diff_unidiff.rs
//@item file=src/diff_parser.rs kind=struct name=LineChange

pub open spec fn ranges_wf(r: Seq<Range<usize>>) -> bool {
    &&& forall|i: int| 0 <= i < r.len() ==> (#[trigger] r[i]).start < r[i].end
    &&& forall|i: int, j: int| 0 <= i < j < r.len() ==> (#[trigger] r[i]).end < (#[trigger] r[j]).start
}

pub open spec fn lc_wf(lc: LineChange) -> bool {
    lc.ranges matches Some(v) ==> ranges_wf(v@)
}

//@include prelude/diff_lines_spec.rs
//@include prelude/diff_lines_proof.rs
//@include prelude/diff_parse_hunk.rs
//@include prelude/diff_patchset.rs
//@include prelude/diff_unquote.rs

/// `max(new.len(), 1)` (same definition as in groups/diffranges.rs)
spec fn line_bound(new: &str) -> int {
    if new.len() == 0 { 1 } else { new.len() as int }
}

/// every range ends at or before column `b` (same definition as in groups/diffranges.rs; opaque
/// here: no proof of this group looks inside, and the quantifier stays out of the solver's way)
#[verifier::opaque]
spec fn ranges_within(r: Seq<Range<usize>>, b: int) -> bool {
    forall|i: int| 0 <= i < r.len() ==> (#[trigger] r[i]).end <= b
}

/// Contract of D-d `line_diff`: pulled mechanically (//@stubof) from group diffranges, where it is
/// PROVED on the real text for any sequence of diff ops.
//@stubof group=diffranges unit=Dd


//@unit id=Db.fold file=src/diff_parser.rs fn=fold_deleted_lines
//@contract
    requires
        old(deleted_lines)@.len() > 0 ==> old(deleted_lines)@[0].source_line_no is Some, // [Db.fold.pre.front_numbered]
    ensures
        final(deleted_lines)@.len() == 0, // [Db.fold.post.queue_cleared]
        old(deleted_lines)@.len() == 0 ==> final(line_changes)@ == old(line_changes)@, // [Db.fold.post.empty_no_entry]
        old(deleted_lines)@.len() > 0 ==> final(line_changes)@ == old(line_changes)@.push(deletion_entry(*old(deleted_lines)@[0])), // [Db.fold.post.one_entry_first_removed]
//@end

//@unit id=Db.cof file=src/diff_parser.rs fn=clear_or_fold_deleted_lines
//@contract
    requires
        old(deleted_lines)@.len() > 0 ==> old(deleted_lines)@[0].source_line_no is Some, // [Db.cof.pre.front_numbered]
    ensures
        final(deleted_lines)@.len() == 0, // [Db.cof.post.queue_cleared]
        (prev_line matches Some(p) && kind(**p) == Kind::Add) || old(deleted_lines)@.len() == 0
            ==> final(line_changes)@ == old(line_changes)@, // [Db.cof.post.after_added_no_entry]
        !(prev_line matches Some(p) && kind(**p) == Kind::Add) && old(deleted_lines)@.len() > 0
            ==> final(line_changes)@ == old(line_changes)@.push(deletion_entry(*old(deleted_lines)@[0])), // [Db.cof.post.one_entry_first_removed]
//@closure rule=E12 find=<<|prev: &Line|>> params=<<|prev: &Line|>> ret=<<b: bool>>
            ensures b == (kind(*prev) == Kind::Add), // [Db.cof.closure.is_added]
//@end

//@unit id=Db file=src/diff_parser.rs fn=line_changes ret=r
//@contract
    requires
        file_numbered(*patched_file), // [Db.pre.lines_numbered]
    ensures
        file_wf(*patched_file) ==> exists|origin: Seq<Orig>| db_post(*patched_file, r@, origin), // [Db.post.entries]
        // KF1: no carve-out (difflines.rs: `&& kf1_carve_out(*patched_file)`)
        file_wf(*patched_file) && kf1_carve_out(*patched_file) ==> strictly_sorted(r@), // [Db.post.strictly_sorted.carved]
//@bind rule=E21 canon=prev_line find=<<let mut $v = None;>>
//@bind rule=E21 canon=deleted_lines find=<<let mut $v: VecDeque<&Line> = VecDeque::new();>>
//@bind rule=E21 canon=line_changes find=<<let mut $v = Vec::new();>>
//@edit rule=E16 find=<<let mut prev_line = None;>>
let mut prev_line: Option<&Line> = None;
//@edit rule=ghost before=<<for hunk in patched_file.hunks()>>
    let ghost f = *patched_file;
    let ghost wf = file_wf(f);
    let ghost carve = kf1_carve_out(f);
    let ghost mut origin: Seq<Orig> = Seq::empty();
    proof {
        lemma_line_types_distinct();
        lemma_outer_init(f, carve);
    }
//@edit rule=E15 find=<<for hunk in patched_file.hunks()>>
for hunk in ith: patched_file.hunks()
        invariant
            f == *patched_file,
            wf == file_wf(f),
            carve == kf1_carve_out(f),
            file_numbered(f),
            deleted_lines@.len() == 0, // [Db.inv.queue_empty_between_hunks]
            wf ==> inv_outer(f, ith.index@ as int, line_changes@, origin, carve), // [Db.inv.between_hunks]
            0 <= ith.index@ <= f.spec_hunks().len(),
//@edit rule=E15 find=<<for line in hunk.lines()>>
let ghost h = ith.index@ as int;
        let ghost ls = hunk_lines(f, h);
        let ghost mut gs = 0int;
        let ghost mut fa = 0int;
        proof {
            if wf { lemma_outer_to_inner(f, h, deleted_lines@, prev_line, line_changes@, origin, carve); }
        }
        for line in itl: hunk.lines()
            invariant
                f == *patched_file,
                wf == file_wf(f),
                carve == kf1_carve_out(f),
                file_numbered(f),
                h == ith.index@,
                0 <= h < f.spec_hunks().len(),
                *hunk == f.spec_hunks()[h],
                ls == hunk_lines(f, h),
                forall|j: int| 0 <= j < deleted_lines@.len() ==> (#[trigger] deleted_lines@[j]).source_line_no is Some, // [Db.inv.queue_numbered]
                wf ==> inv_group(f, h, itl.index@ as int, gs, fa, deleted_lines@, prev_line), // [Db.inv.group_and_queue]
                wf ==> inv_entries(f, h, itl.index@ as int, gs, fa, false, line_changes@, origin, carve), // [Db.inv.entries]
                0 <= itl.index@ <= ls.len(),
//@edit rule=ghost before=<<if line.is_added()>>
            let ghost k = itl.index@ as int;
            let ghost dq0 = deleted_lines@;
            let ghost lc0 = line_changes@;
            let ghost origin0 = origin;
            let ghost prev0 = prev_line;
            proof {
                assert(*line == ls[k]);
                assert(line_numbered(hunk_lines(f, h)[k]));
                lemma_line_types_distinct();
                if wf {
                    assert(hunk_wf(f.spec_hunks()[h]));
                    assert(line_wf(f.spec_hunks()[h], k));
                }
            }
//@edit rule=ghost before=<<prev_line = Some(line);>>
            proof {
                if wf {
                    if kind(ls[k]) == Kind::Add {
                        lemma_step_add(f, h, k, gs, fa, dq0, prev0, lc0, origin0, carve, deleted_lines@, line, line_changes@.last()); // [Db.step.added_line]
                        origin = origin0.push(Orig { h: h, k: k, e: -1 });
                        assert(line_changes@ == lc0.push(line_changes@.last())); // [Db.step.added_line_one_entry]
                    } else if kind(ls[k]) == Kind::Rem {
                        lemma_step_rem(f, h, k, gs, fa, dq0, prev0, lc0, origin0, carve, line); // [Db.step.removed_line]
                        fa = k + 1;
                        assert(deleted_lines@ == dq0.push(line)); // [Db.step.removed_line_queued]
                        assert(line_changes@ == lc0); // [Db.step.removed_line_no_entry_yet]
                    } else if kind(ls[k]) == Kind::Ctx {
                        lemma_step_fold(f, h, k, gs, fa, dq0, prev0, lc0, origin0, carve, line_changes@); // [Db.step.context_line_fold]
                        origin = fold_origin(origin0, h, k, gs, dq0, prev0);
                        lemma_closed_to_inner(f, h, k, line_changes@, origin, carve, deleted_lines@, line); // [Db.step.context_line_closes_group]
                        gs = k + 1;
                        fa = k + 1;
                    } else {
                        // a `\ No newline at end of file` marker line: no line of either file; the code takes
                        // none of its branches, only `prev_line` becomes the marker (nobody reads it there:
                        // the next line is an added line)
                        lemma_step_marker(f, h, k, gs, fa, dq0, prev0, lc0, origin0, carve, line); // [Db.step.marker_line]
                        fa = k + 1;
                        assert(deleted_lines@ == dq0); // [Db.step.marker_line_queue_unchanged]
                        assert(line_changes@ == lc0); // [Db.step.marker_line_no_entry]
                    }
                }
            }
//@edit rule=ghost after=<<prev_line = Some(line); }>>
        let ghost k = ls.len() as int;
        let ghost dq0 = deleted_lines@;
        let ghost lc0 = line_changes@;
        let ghost origin0 = origin;
        let ghost prev0 = prev_line;
//@edit rule=ghost before=<<} line_changes }>>
        proof {
            if wf {
                lemma_step_fold(f, h, k, gs, fa, dq0, prev0, lc0, origin0, carve, line_changes@); // [Db.step.hunk_end_fold]
                origin = fold_origin(origin0, h, k, gs, dq0, prev0);
                lemma_closed_to_outer(f, h, line_changes@, origin, carve);
            }
        }
//@edit rule=ghost before=<<line_changes }>>
    proof {
        if wf {
            lemma_outer_to_post(f, line_changes@, origin, carve);
            assert(post_every_added(f, origin)); // [Db.post.every_added_line_has_entry]
            assert(post_every_pure_deletion(f, origin)); // [Db.post.every_pure_deletion_run_has_entry]
            assert(post_nothing_else(f, line_changes@, origin)); // [Db.post.nothing_else]
            assert(post_origin_increasing(origin)); // [Db.post.one_entry_per_origin_in_order]
            if carve {
                lemma_carved_numbering(f, line_changes@, origin);
            }
            // checked in a scope of its own, so that the (failing) clause is not assumed afterwards
            assert(true) by {
                // KF1: no carve-out (difflines.rs: inside `if carve { .. }`)
                assert(post_deletion_new_numbering(f, line_changes@, origin)); // [Db.post.deletion_new_numbering]
            }
            if kf2_carve_out(f) {
                lemma_removed_accounted(f, line_changes@, origin);
            }
            // KF2, checked in a scope of its own like KF1, so that neither failing clause hides the other
            assert(true) by {
                // KF2: no carve-out (difflines.rs: inside `if kf2_carve_out(f) { .. }`)
                assert(post_removed_accounted(f, line_changes@, origin)); // [Db.post.surplus_deletions_reported]
            }
            assert(db_post(f, line_changes@, origin));
        }
    }
//@end

/// Contract of Dq `unquote_git_path`: pulled mechanically from group difflines, where it is proved.
//@stubof group=difflines unit=Dq

// D-a, a copy of the unit of difflines.rs with ONE clause uncarved (KF3): a file contributes nothing
// only if it is deleted. Expected to fail on `Da.post.only_deleted_files_are_skipped` (a postcondition
// of a function of its own, hence independent of the two expected failures inside `line_changes`).
//@unit id=Da file=src/diff_parser.rs fn=line_changes_from_diff ret=r
//@contract
    ensures
        r is Err <==> parse_patch(patch_diff@) is None, // [Da.post.err_iff_unparsable]
        r matches Ok(m) ==> forall|i: int| 0 <= i < parse_patch(patch_diff@).unwrap().len() && !removed_file(#[trigger] parse_patch(patch_diff@).unwrap()[i]) // [Da.post.key_is_the_path_git_meant]
            ==> m@.contains_key(path_of_bytes(strip_once_bytes(unquote_bytes_spec(parse_patch(patch_diff@).unwrap()[i].target_file@)))),
        // KF3: no carve-out (difflines.rs: `kf3_carve_out(files) ==> ...`)
        r matches Ok(m) ==> only_deleted_files_are_skipped(parse_patch(patch_diff@).unwrap(), m@), // [Da.post.only_deleted_files_are_skipped]
        r matches Ok(m) ==> forall|key: PathBuf| #[trigger] m@.contains_key(key) // [Da.post.removed_files_contribute_nothing]
            ==> exists|j: int| last_file_with_key(parse_patch(patch_diff@).unwrap(), parse_patch(patch_diff@).unwrap().len() as int, key, j),
        r matches Ok(m) ==> forall|key: PathBuf, j: int| #[trigger] m@.contains_key(key) // [Da.post.value_is_line_changes]
            && #[trigger] last_file_with_key(parse_patch(patch_diff@).unwrap(), parse_patch(patch_diff@).unwrap().len() as int, key, j)
            ==> db_result(parse_patch(patch_diff@).unwrap()[j], m@[key]@),
//@edit rule=E14 find=<<PatchSet::from_str(patch_diff)?>>
verif_patchset_from_str(patch_diff)?
//@edit rule=E16 find=<<let mut result = HashMap::new();>>
let mut result: HashMap<PathBuf, Vec<LineChange>> = HashMap::new();
//@edit rule=ghost before=<<for patched_file in patch_set>>
    let ghost files = patch_set.spec_files();
    proof {
        // every hunk was built by unidiff's `parse_hunk` (proved on the crate's text: X.parse_hunk, group
        // unidiffparse), hence every line carries the numbers `line_changes` unwraps
        assert forall|i: int| 0 <= i < files.len() implies file_numbered(#[trigger] files[i]) by {
            lemma_parsed_file_numbered(files[i]); // [Da.step.files_numbered_because_parsed]
        }
    }
    broadcast use axiom_diff_pathbuf_key_model;
//@edit rule=E14 find=<<for patched_file in patch_set {>>
let mut it = verif_patchset_into_iter(patch_set);
    let ghost mut n: int = 0;
    loop
        invariant
            parse_patch(patch_diff@) == Some(files),
            forall|i: int| 0 <= i < files.len() ==> file_numbered(#[trigger] files[i]),
            0 <= n <= files.len(),
            it.pending() == files.skip(n), // [Da.inv.cursor]
            forall|i: int| 0 <= i < n && !removed_file(#[trigger] files[i]) ==> result@.contains_key(da_key(files[i])), // [Da.inv.key_strip_once]
            forall|key: PathBuf| #[trigger] result@.contains_key(key) ==> exists|j: int| last_file_with_key(files, n, key, j), // [Da.inv.only_non_removed_files]
            forall|key: PathBuf, j: int| #[trigger] result@.contains_key(key) && #[trigger] last_file_with_key(files, n, key, j) // [Da.inv.value_is_line_changes]
                ==> db_result(files[j], result@[key]@),
        ensures
            n == files.len(), // [Da.inv.all_files_visited]
        decreases files.len() - n, // [Da.term.files_loop]
    {
        match it.next() { Some(patched_file) => {
        broadcast use axiom_diff_pathbuf_key_model;
        let ghost result0 = result@;
        let ghost n0 = n;
        proof {
            assert(files.skip(n)[0] == files[n]);
            assert(files.skip(n).skip(1) =~= files.skip(n + 1));
            n = n + 1;
            if removed_file(files[n0]) {
                // a removed file changes nothing: "last file with this key" is the same before and after it
                assert forall|key: PathBuf, j: int| last_file_with_key(files, n0, key, j) implies last_file_with_key(files, n, key, j) by {}
                assert forall|key: PathBuf, j: int| last_file_with_key(files, n, key, j) implies last_file_with_key(files, n0, key, j) by {}
            }
        }
//@edit rule=E14 before=<<Ok(result)>>
None => { break; } } }
//@edit rule=ghost before=<<} None => { break; } } }>>
        proof {
            // (reached for a removed file too when the guard is written `if !removed { .. }` instead of `continue`)
            if removed_file(files[n0]) {
                assert(result@ == result0); // [Da.step.removed_file_adds_nothing]
            } else {
            let key0 = da_key(files[n0]);
            // exactly one leading "b/" is removed (whichever reading of the path), checked in a scope of its own
            assert(true) by {
                assert(result@ == result0.insert(key0, result@[key0]) || result@ == result0.insert(da_key_raw(files[n0]), result@[da_key_raw(files[n0])])); // [Da.post.key_strip_once]
            }
            // ... from the path as git meant it (C-unquoted), not from the text of the diff line
            assert(result@ == result0.insert(key0, result@[key0])); // [Da.post.key_is_the_path_git_meant]
            assert(last_file_with_key(files, n, key0, n0)); // [Da.post.removed_files_contribute_nothing]
            assert forall|key: PathBuf, j: int| key != key0 && last_file_with_key(files, n0, key, j) implies last_file_with_key(files, n, key, j) by {}
            assert forall|key: PathBuf, j: int| key != key0 && last_file_with_key(files, n, key, j) implies last_file_with_key(files, n0, key, j) by {}
            assert forall|j: int| last_file_with_key(files, n, key0, j) implies j == n0 by {}
            }
        }
//@edit rule=ghost before=<<Ok(result)>>
    proof {
        assert forall|key: PathBuf, j: int| last_file_with_key(files, n, key, j) implies last_file_with_key(files, files.len() as int, key, j) by {}
        assert forall|key: PathBuf, j: int| last_file_with_key(files, files.len() as int, key, j) implies last_file_with_key(files, n, key, j) by {}
    }
//@edit rule=E13 find=<<$a.strip_prefix(b"b/").unwrap_or(&$a)>>
verif_bytes_unwrap_or(verif_bytes_strip_b_slash(&$a), &$a)
//@end

} // verus!
fn main() {}
