// Group `langclosures`: the per-language comment-visitor closures of src/language_parsers/{rust,php,
// c_sharp,sql,bash,css}.rs (closure bodies inside `comments_parser()`), plus `MdParser::parse` /
// `MdParser::parse_html_blocks` of markdown.rs (merge of the two block lists).
// Units (bodies are the real text of /repo; each closure unit is the WHOLE closure body, rule SLICE with
// `slice_closure=<<|node, $s|>>`: kind test, slicing of the source, marker branches):
//   LRS  rust.rs    `///`, `//!`, `//` blanked, other line comments unchanged; block_comment via N1
//   LPHP php.rs     `//`, `#` blanked, else block comment via N1
//   LCS  c_sharp.rs `///`, `//` blanked, else block comment via N1
//   LSQL sql.rs     `--` blanked for kind "comment", N1 for kind "marginalia"
//   LB   bash.rs    `#!` shebang is NOT a comment; other comments get the first `#` blanked
//   LCSS css.rs     N1 for kind "comment"
//   MD2  MdParser::parse_html_blocks (html comments -> P1), MD1 MdParser::parse (sorted merge of both lists),
//   MD.ord / MD.pord `impl Ord / PartialOrd for Block` (the order the merge uses)
// Property-level fact (C03 "each with [...] the line and column of its `<`"; T-ext comment invariant the
// other groups assume): for a node the closure accepts, the returned text has the SAME BYTE LENGTH as the
// node's source text, every '\n' stays at its byte offset, and the text differs from the source only
// at the bytes of the comment marker (which become spaces; N1 also blanks decorative `*`). For a
// node kind the language does not treat as a comment the result is None.
// C03 "blocks are reported in source order", nothing lost (MD1); C12 errors of either part propagate.
// C04: no precondition on the node TEXT; the only precondition is T-ext `node_in_source`.
// Trusted: see langclosures.notes.md.
#![feature(allocator_api)]
use vstd::prelude::*;
use vstd::utf8::*;
use vstd::string::*;
use vstd::std_specs::char::is_white_space;
use vstd::std_specs::iter::IteratorSpec;
use vstd::std_specs::cmp::{PartialEqSpecImpl, PartialOrdSpecImpl, OrdSpecImpl, PartialOrdSpec};
use std::cmp::Ordering;
use std::collections::HashMap;
use std::ops::{Range, RangeInclusive};
use std::rc::Rc;

//@include prelude/anyhow.rs
//@include prelude/tstr_mod.rs
//@include prelude/tagnorm_auto.rs
//@include prelude/langc_ts_mod.rs

verus! {

// `axiom_blen`, `axiom_str_view_injective` of prelude/tstr_mod.rs; proved UTF-8 facts
broadcast use {tstr::group_tstr, tagnorm_auto::group_tagnorm_auto};

//@include prelude/tagnorm_bytes.rs
//@include prelude/tagnorm_norm.rs
//@include prelude/langc_node.rs

// ---------------------------------------------------------------------------------------------
// Specification vocabulary of group `normalise`, copied mechanically (//@copyfrom):
//   b_open .. n1_frame_unterminated, lemma_n1_frame*  (N1's spec functions)
//   b_slashes .. lemma_splice_blanked, lemma_has_first (blanked_at, same_len_and_newlines, first_blanked,
//                                                      lemma_literals)
// (`lemma_replace_first` is NOT copied: its precondition repeats the self-feeding quantifier of the
//  `replacen` shim and it ran into the resource limit inside unrelated mutant files; prelude/langc_norm.rs
//  proves the same facts from the opaque `replaced_first`.)
//@copyfrom file=groups/normalise.rs from=<<pub open spec fn b_open()>> until=<<// N1 has NO precondition>>
//@copyfrom file=groups/normalise.rs from=<<pub open spec fn b_slashes()>> until=<</// what `replacen(pat, spaces, 1)` yields>>
//@copyfrom file=groups/normalise.rs from=<</// an occurrence implies a first occurrence>> until=<<//@unit id=N2>>

// N1 `c_style_multiline_comment_processor`: proved in group `normalise` for ANY text; its contract is
// pulled textually (rule SLICE-CALL).
//@stubof group=normalise unit=N1

// verified wrappers around the std shims (nothing trusted)
//@include prelude/langc_norm.rs

// rule E17 shims `verif_str_eq` / `verif_str_ne` (`X == "lit"` on &str is accepted by Verus but unspecified)
//@copyfrom file=prelude/strings.rs from=<<// ---- generic string comparison shims>> until=<<// ---- default std-idiom shims>>

// ---------------------------------------------------------------------------------------------
// Specification of this group.

pub open spec fn b_doc3() -> Seq<u8> { seq![0x2fu8, 0x2fu8, 0x2fu8] }      // "///"
pub open spec fn b_inner_doc() -> Seq<u8> { seq![0x2fu8, 0x2fu8, 0x21u8] } // "//!"
pub open spec fn b_dashes() -> Seq<u8> { seq![0x2du8, 0x2du8] }            // "--"
pub open spec fn b_shebang() -> Seq<u8> { seq![0x23u8, 0x21u8] }           // "#!"

/// The T-ext comment invariant (what blockpairs' position arithmetic relies on): same byte length,
/// every '\n' where it was, and a byte that differs from the source is a space that replaced a
/// byte that was not a line break.
pub open spec fn comment_text_inv(inp: Seq<u8>, out: Seq<u8>) -> bool {
    &&& same_len_and_newlines(inp, out)
    &&& forall|i: int| 0 <= i < inp.len() ==> #[trigger] out[i] == inp[i] || (out[i] == 0x20u8 && inp[i] != 0x0au8)
}

/// All of N1's postcondition as one predicate of (comment text, result bytes): what "normalised by
/// `c_style_multiline_comment_processor`" means. Proved at each call from the stub's contract.
pub open spec fn n1_post(t: Seq<char>, out: Seq<u8>) -> bool {
    let b = utf8(t);
    &&& same_len_and_newlines(b, out)
    &&& ((forall|q: int| !#[trigger] occurs_at(b, q, b_open())) ==> out == b)
    &&& (forall|o: int, c: int| #![trigger first_occ(b, o, b_open()), last_occ(b, c, b_close())]
            first_occ(b, o, b_open()) && last_occ(b, c, b_close()) && o + 2 <= c ==> n1_frame(b, out, o, c) && out == n1_result(t, o, c))
    &&& (forall|o: int| #![trigger first_occ(b, o, b_open())]
            first_occ(b, o, b_open()) && no_close_after(b, o) ==> n1_frame_unterminated(b, out, o) && out == n1_result_unterminated(t, o))
}

proof fn lemma_langc_literals()
    ensures
        utf8("//"@) == b_slashes(), utf8("  "@) == sp(2), utf8("#"@) == b_hash(), utf8(" "@) == sp(1), utf8("   "@) == sp(3),
        utf8("///"@) == b_doc3(), utf8("//!"@) == b_inner_doc(), utf8("--"@) == b_dashes(), utf8("#!"@) == b_shebang(),
{
    lemma_literals();
    reveal_strlit("///"); reveal_strlit("//!"); reveal_strlit("--"); reveal_strlit("#!");
    assert("///"@ =~= seq!['/', '/'] + seq!['/']);
    assert("//!"@ =~= seq!['/', '/'] + seq!['!']);
    assert("--"@ =~= seq!['-', '-']);
    assert("#!"@ =~= seq!['#', '!']);
    lemma_utf8_two('/', '/'); lemma_utf8_one('/'); lemma_utf8_one('!'); lemma_utf8_two('-', '-'); lemma_utf8_two('#', '!');
    assert(utf8("///"@) =~= b_doc3());
    assert(utf8("//!"@) =~= b_inner_doc());
}

/// a text that starts with "///" or "//!" starts with "//"; one that starts with "#!" starts with "#" (proved)
proof fn lemma_doc_markers_start_with_slashes(b: Seq<u8>)
    ensures
        occurs_at(b, 0, b_doc3()) ==> occurs_at(b, 0, b_slashes()),
        occurs_at(b, 0, b_inner_doc()) ==> occurs_at(b, 0, b_slashes()),
        occurs_at(b, 0, b_shebang()) ==> occurs_at(b, 0, b_hash()),
{
    if occurs_at(b, 0, b_shebang()) {
        assert(b.subrange(0, 2)[0] == b[0]);
        assert(b.subrange(0, 1) =~= b_hash());
    }
    if occurs_at(b, 0, b_doc3()) {
        assert(b.subrange(0, 3)[0] == b[0] && b.subrange(0, 3)[1] == b[1]);
        assert(b.subrange(0, 2) =~= b_slashes());
    }
    if occurs_at(b, 0, b_inner_doc()) {
        assert(b.subrange(0, 3)[0] == b[0] && b.subrange(0, 3)[1] == b[1]);
        assert(b.subrange(0, 2) =~= b_slashes());
    }
}

/// a marker `pat` at offset 0 replaced by as many spaces: blanked at offset 0 (proved)
proof fn lemma_marker_at_start(inp: Seq<u8>, out: Seq<u8>, pat: Seq<u8>)
    requires
        occurs_at(inp, 0, pat),
        replaced_first(inp, out, pat, sp(pat.len())),
    ensures
        blanked_at(inp, out, 0, pat.len() as int),
{
    lemma_replaced_at_start(inp, out, pat, sp(pat.len()));
    lemma_splice_blanked(inp, out, 0, pat.len() as int);
}

/// first occurrence of `pat` (no line break in it) blanked, or nothing changed: invariant kept (proved)
proof fn lemma_first_blanked_inv(inp: Seq<u8>, out: Seq<u8>, pat: Seq<u8>)
    requires
        pat.len() > 0,
        forall|j: int| 0 <= j < pat.len() ==> #[trigger] pat[j] != 0x0au8,
        replaced_first(inp, out, pat, sp(pat.len())),
    ensures
        first_blanked(inp, out, pat),
        comment_text_inv(inp, out),
{
    lemma_replaced_by_spaces(inp, out, pat);
    if exists|q: int| #[trigger] occurs_at(inp, q, pat) {
        let q0 = choose|q: int| #[trigger] occurs_at(inp, q, pat);
        lemma_has_first(inp, pat, q0);
        let p = choose|p: int| #[trigger] first_occ(inp, p, pat);
        assert(blanked_at(inp, out, p, pat.len() as int));
        assert forall|i: int| 0 <= i < inp.len() implies #[trigger] out[i] == inp[i] || (out[i] == 0x20u8 && inp[i] != 0x0au8) by {
            if p <= i < p + pat.len() { assert(inp.subrange(p, p + pat.len())[i - p] == pat[i - p]); }
        }
    }
}

/// WHICHEVER of the line-comment markers of the six languages was replaced by as many spaces (first
/// occurrence only), the T-ext invariant holds (proved). Keeps the length / line-break clauses of a
/// unit independent of its marker clauses: a branch that blanks the wrong marker fails the marker clause only.
proof fn lemma_blanked_marker_inv(inp: Seq<u8>, out: Seq<u8>)
    ensures
        replaced_first(inp, out, b_doc3(), sp(3)) || replaced_first(inp, out, b_inner_doc(), sp(3))
            || replaced_first(inp, out, b_slashes(), sp(2)) || replaced_first(inp, out, b_dashes(), sp(2))
            || replaced_first(inp, out, b_hash(), sp(1)) ==> comment_text_inv(inp, out),
{
    if replaced_first(inp, out, b_doc3(), sp(3)) { lemma_first_blanked_inv(inp, out, b_doc3()); }
    if replaced_first(inp, out, b_inner_doc(), sp(3)) { lemma_first_blanked_inv(inp, out, b_inner_doc()); }
    if replaced_first(inp, out, b_slashes(), sp(2)) { lemma_first_blanked_inv(inp, out, b_slashes()); }
    if replaced_first(inp, out, b_dashes(), sp(2)) { lemma_first_blanked_inv(inp, out, b_dashes()); }
    if replaced_first(inp, out, b_hash(), sp(1)) { lemma_first_blanked_inv(inp, out, b_hash()); }
}

/// N1's frame for a terminated comment implies the invariant (proved)
proof fn lemma_n1_frame_inv(b: Seq<u8>, out: Seq<u8>, o: int, c: int)
    requires
        same_len_and_newlines(b, out), n1_frame(b, out, o, c),
        occurs_at(b, o, b_open()), occurs_at(b, c, b_close()),
    ensures comment_text_inv(b, out)
{
    assert(b.subrange(o, o + 2)[0] == b[o] && b.subrange(o, o + 2)[1] == b[o + 1]);
    assert(b.subrange(c, c + 2)[0] == b[c] && b.subrange(c, c + 2)[1] == b[c + 1]);
    assert forall|i: int| 0 <= i < b.len() implies #[trigger] out[i] == b[i] || (out[i] == 0x20u8 && b[i] != 0x0au8) by {
        if i == o || i == o + 1 || i == c || i == c + 1 { } else { }
    }
}

/// ... and for an unterminated one (proved)
proof fn lemma_n1_frame_unterminated_inv(b: Seq<u8>, out: Seq<u8>, o: int)
    requires
        same_len_and_newlines(b, out), n1_frame_unterminated(b, out, o),
        occurs_at(b, o, b_open()),
    ensures comment_text_inv(b, out)
{
    assert(b.subrange(o, o + 2)[0] == b[o] && b.subrange(o, o + 2)[1] == b[o + 1]);
    assert forall|i: int| 0 <= i < b.len() implies #[trigger] out[i] == b[i] || (out[i] == 0x20u8 && b[i] != 0x0au8) by {
        if i == o || i == o + 1 { } else { }
    }
}

/// N1's postcondition implies the invariant (proved; exhaustive case split on the delimiters)
proof fn lemma_n1_post_inv(t: Seq<char>, out: Seq<u8>)
    requires n1_post(t, out)
    ensures comment_text_inv(utf8(t), out)
{
    let b = utf8(t);
    if exists|q: int| #[trigger] occurs_at(b, q, b_open()) {
        let q0 = choose|q: int| #[trigger] occurs_at(b, q, b_open());
        lemma_has_first(b, b_open(), q0);
        let o = choose|o: int| #[trigger] first_occ(b, o, b_open());
        if exists|c: int| #[trigger] last_occ(b, c, b_close()) && o + 2 <= c {
            let c = choose|c: int| #[trigger] last_occ(b, c, b_close()) && o + 2 <= c;
            assert(n1_frame(b, out, o, c));
            lemma_n1_frame_inv(b, out, o, c);
        } else {
            assert(no_close_after(b, o));
            assert(n1_frame_unterminated(b, out, o));
            lemma_n1_frame_unterminated_inv(b, out, o);
        }
    }
}

/// any str whose bytes are the node's bytes IS the node's text (proved: decode . encode = id)
proof fn lemma_node_text_unique(node: &Node, source: Seq<char>)
    ensures forall|v: Seq<char>| #[trigger] utf8(v) == node_bytes(node, source) ==> v == node_text(node, source)
{
    assert forall|v: Seq<char>| #[trigger] utf8(v) == node_bytes(node, source) implies v == node_text(node, source) by {
        encode_utf8_decode_utf8(v);
    }
}

/// a char-boundary range of a text is itself valid UTF-8: encoding the node's text gives back exactly the
/// source bytes in the node's range (proved from vstd's UTF-8 lemmas; nothing assumed)
proof fn lemma_node_text_bytes(node: &Node, source: Seq<char>)
    requires node_in_source(node, source)
    ensures utf8(node_text(node, source)) == node_bytes(node, source)
{
    let b = utf8(source);
    let a = node.byte_range_spec().start as int;
    let e = node.byte_range_spec().end as int;
    encode_utf8_valid_utf8(source);
    lemma_boundary_is_vstd(source, a);
    lemma_boundary_is_vstd(source, e);
    valid_utf8_split(b, e);
    let b1 = b.subrange(0, e);
    assert(is_char_boundary(b1, a)) by {
        is_char_boundary_start_end_of_seq(b1);
        if 0 < a < b1.len() {
            is_char_boundary_iff_not_is_continuation_byte(b, a);
            is_char_boundary_iff_not_is_continuation_byte(b1, a);
            assert(b1[a] == b[a]);
        }
    }
    valid_utf8_split(b1, a);
    assert(b1.subrange(a, b1.len() as int) =~= b.subrange(a, e));
    decode_utf8_encode_utf8(b.subrange(a, e));
}

// ---------------------------------------------------------------------------------------------
// LRS — rust.rs. The whole closure body (`match node.kind() { .. }`).

//@unit id=LRS file=src/language_parsers/rust.rs fn=comments_parser slice_closure=<<|node, $s|>>
//@wrapper
fn lrs_visit_node(node: &Node, source_code: &str) -> (r: Option<String>)
    requires
        node_in_source(node, source_code@), // [LRS.pre.node_range_is_char_boundary_range_of_source]
    ensures
        node.kind_spec() != "line_comment"@ && node.kind_spec() != "block_comment"@ ==> r is None, // [LRS.post.other_node_kinds_are_not_comments]
        node.kind_spec() == "line_comment"@ || node.kind_spec() == "block_comment"@ ==> r is Some, // [LRS.post.comment_nodes_are_accepted]
        utf8(node_text(node, source_code@)) == node_bytes(node, source_code@), // [LRS.post.text_is_the_source_in_the_node_range]
        r matches Some(s) ==> utf8(s@).len() == node_bytes(node, source_code@).len(), // [LRS.post.same_byte_length]
        r matches Some(s) ==> comment_text_inv(node_bytes(node, source_code@), utf8(s@)), // [LRS.post.newlines_in_place_only_blanks_differ]
        r matches Some(s) ==> node.kind_spec() == "line_comment"@ && occurs_at(node_bytes(node, source_code@), 0, b_doc3()) // [LRS.post.outer_doc_marker_blanked]
            ==> blanked_at(node_bytes(node, source_code@), utf8(s@), 0, 3),
        r matches Some(s) ==> node.kind_spec() == "line_comment"@ && occurs_at(node_bytes(node, source_code@), 0, b_inner_doc()) // [LRS.post.inner_doc_marker_blanked]
            ==> blanked_at(node_bytes(node, source_code@), utf8(s@), 0, 3),
        r matches Some(s) ==> node.kind_spec() == "line_comment"@ && occurs_at(node_bytes(node, source_code@), 0, b_slashes()) // [LRS.post.line_marker_blanked]
            && !occurs_at(node_bytes(node, source_code@), 0, b_doc3()) && !occurs_at(node_bytes(node, source_code@), 0, b_inner_doc())
            ==> blanked_at(node_bytes(node, source_code@), utf8(s@), 0, 2),
        r matches Some(s) ==> node.kind_spec() == "line_comment"@ && !occurs_at(node_bytes(node, source_code@), 0, b_slashes()) // [LRS.post.no_marker_text_unchanged]
            ==> utf8(s@) == node_bytes(node, source_code@),
        r matches Some(s) ==> node.kind_spec() == "block_comment"@ ==> n1_post(node_text(node, source_code@), utf8(s@)), // [LRS.post.block_comment_normalised_by_N1]
//@head
    proof { lemma_langc_literals(); lemma_node_text_unique(node, source_code@); lemma_node_text_bytes(node, source_code@); }
    let ghost nb = node_bytes(node, source_code@);
    let verif_r = {
//@tail
    };
    proof {
        lemma_doc_markers_start_with_slashes(nb);
        if verif_r is Some {
            let out = utf8(verif_r->Some_0@);
            lemma_blanked_marker_inv(nb, out);
            if n1_post(node_text(node, source_code@), out) { lemma_n1_post_inv(node_text(node, source_code@), out); }
            if node.kind_spec() == "line_comment"@ {
                // (conditions, not assertions: a text whose marker is not replaced by as many spaces fails the CLAUSES)
                if occurs_at(nb, 0, b_doc3()) {
                    if replaced_first(nb, out, b_doc3(), sp(3)) { lemma_marker_at_start(nb, out, b_doc3()); }
                } else if occurs_at(nb, 0, b_inner_doc()) {
                    if replaced_first(nb, out, b_inner_doc(), sp(3)) { lemma_marker_at_start(nb, out, b_inner_doc()); }
                } else if occurs_at(nb, 0, b_slashes()) {
                    if replaced_first(nb, out, b_slashes(), sp(2)) { lemma_marker_at_start(nb, out, b_slashes()); }
                }
            }
        }
    }
    verif_r
//@edit rule=E13 find=<<&$a[node.byte_range()]>> count=all optional=1
verif_str_index($a, node.byte_range())
//@edit rule=E13 find=<<$a[node.byte_range()]>> count=all optional=1
verif_str_index($a, node.byte_range())
//@chain rule=E13 find=<<.starts_with(>> to=verif_starts_with_str argkind=str count=all optional=1
//@chain rule=E13 find=<<.replacen(>> to=langc_replacen argkind=str count=all optional=1
//@end

// ---------------------------------------------------------------------------------------------
// LPHP — php.rs. The whole closure body (kind test, `let comment`, the three-way branch).

//@unit id=LPHP file=src/language_parsers/php.rs fn=comments_parser slice_closure=<<|node, $s|>>
//@wrapper
fn lphp_visit_node(node: &Node, source_code: &str) -> (r: Option<String>)
    requires
        node_in_source(node, source_code@), // [LPHP.pre.node_range_is_char_boundary_range_of_source]
    ensures
        node.kind_spec() != "comment"@ ==> r is None, // [LPHP.post.other_node_kinds_are_not_comments]
        node.kind_spec() == "comment"@ ==> r is Some, // [LPHP.post.comment_nodes_are_accepted]
        utf8(node_text(node, source_code@)) == node_bytes(node, source_code@), // [LPHP.post.text_is_the_source_in_the_node_range]
        r matches Some(s) ==> utf8(s@).len() == node_bytes(node, source_code@).len(), // [LPHP.post.same_byte_length]
        r matches Some(s) ==> comment_text_inv(node_bytes(node, source_code@), utf8(s@)), // [LPHP.post.newlines_in_place_only_blanks_differ]
        r matches Some(s) ==> occurs_at(node_bytes(node, source_code@), 0, b_slashes()) // [LPHP.post.slash_marker_blanked]
            ==> blanked_at(node_bytes(node, source_code@), utf8(s@), 0, 2),
        r matches Some(s) ==> !occurs_at(node_bytes(node, source_code@), 0, b_slashes()) && occurs_at(node_bytes(node, source_code@), 0, b_hash()) // [LPHP.post.hash_marker_blanked]
            ==> blanked_at(node_bytes(node, source_code@), utf8(s@), 0, 1),
        r matches Some(s) ==> !occurs_at(node_bytes(node, source_code@), 0, b_slashes()) && !occurs_at(node_bytes(node, source_code@), 0, b_hash()) // [LPHP.post.block_comment_normalised_by_N1]
            ==> n1_post(node_text(node, source_code@), utf8(s@)),
//@head
    proof { lemma_langc_literals(); lemma_node_text_unique(node, source_code@); lemma_node_text_bytes(node, source_code@); }
    let ghost nb = node_bytes(node, source_code@);
    let verif_r = {
//@tail
    };
    proof {
        if verif_r is Some {
            let out = utf8(verif_r->Some_0@);
            lemma_blanked_marker_inv(nb, out);
            if n1_post(node_text(node, source_code@), out) { lemma_n1_post_inv(node_text(node, source_code@), out); }
            // (conditions, not assertions: a text whose marker is not replaced by as many spaces fails the CLAUSES)
            if occurs_at(nb, 0, b_slashes()) {
                if replaced_first(nb, out, b_slashes(), sp(2)) { lemma_marker_at_start(nb, out, b_slashes()); }
            } else if occurs_at(nb, 0, b_hash()) {
                if replaced_first(nb, out, b_hash(), sp(1)) { lemma_marker_at_start(nb, out, b_hash()); }
            }
        }
    }
    verif_r
//@edit rule=E17 find=<<node.kind() != $$s>> count=all optional=1
verif_str_ne(&node.kind(), $$s)
//@edit rule=E17 find=<<node.kind() == $$s>> count=all optional=1
verif_str_eq(&node.kind(), $$s)
//@edit rule=E13 find=<<&$a[node.byte_range()]>> count=all optional=1
verif_str_index($a, node.byte_range())
//@edit rule=E13 find=<<$a[node.byte_range()]>> count=all optional=1
verif_str_index($a, node.byte_range())
//@chain rule=E13 find=<<.starts_with(>> to=verif_starts_with_str argkind=str count=all optional=1
//@chain rule=E13 find=<<.replacen(>> to=langc_replacen argkind=str count=all optional=1
//@end

// ---------------------------------------------------------------------------------------------
// LCS — c_sharp.rs. The whole closure body (`if node.kind() == "comment" { .. } else { None }`).

//@unit id=LCS file=src/language_parsers/c_sharp.rs fn=comments_parser slice_closure=<<|node, $s|>>
//@wrapper
fn lcs_visit_node(node: &Node, source_code: &str) -> (r: Option<String>)
    requires
        node_in_source(node, source_code@), // [LCS.pre.node_range_is_char_boundary_range_of_source]
    ensures
        node.kind_spec() != "comment"@ ==> r is None, // [LCS.post.other_node_kinds_are_not_comments]
        node.kind_spec() == "comment"@ ==> r is Some, // [LCS.post.comment_nodes_are_accepted]
        utf8(node_text(node, source_code@)) == node_bytes(node, source_code@), // [LCS.post.text_is_the_source_in_the_node_range]
        r matches Some(s) ==> utf8(s@).len() == node_bytes(node, source_code@).len(), // [LCS.post.same_byte_length]
        r matches Some(s) ==> comment_text_inv(node_bytes(node, source_code@), utf8(s@)), // [LCS.post.newlines_in_place_only_blanks_differ]
        r matches Some(s) ==> occurs_at(node_bytes(node, source_code@), 0, b_doc3()) // [LCS.post.doc_marker_blanked]
            ==> blanked_at(node_bytes(node, source_code@), utf8(s@), 0, 3),
        r matches Some(s) ==> occurs_at(node_bytes(node, source_code@), 0, b_slashes()) && !occurs_at(node_bytes(node, source_code@), 0, b_doc3()) // [LCS.post.line_marker_blanked]
            ==> blanked_at(node_bytes(node, source_code@), utf8(s@), 0, 2),
        r matches Some(s) ==> !occurs_at(node_bytes(node, source_code@), 0, b_slashes()) // [LCS.post.block_comment_normalised_by_N1]
            ==> n1_post(node_text(node, source_code@), utf8(s@)),
//@head
    proof { lemma_langc_literals(); lemma_node_text_unique(node, source_code@); lemma_node_text_bytes(node, source_code@); }
    let ghost nb = node_bytes(node, source_code@);
    let verif_r = {
//@tail
    };
    proof {
        lemma_doc_markers_start_with_slashes(nb);
        if verif_r is Some {
            let out = utf8(verif_r->Some_0@);
            lemma_blanked_marker_inv(nb, out);
            if n1_post(node_text(node, source_code@), out) { lemma_n1_post_inv(node_text(node, source_code@), out); }
            // (conditions, not assertions: a text whose marker is not replaced by as many spaces fails the CLAUSES)
            if occurs_at(nb, 0, b_doc3()) {
                if replaced_first(nb, out, b_doc3(), sp(3)) { lemma_marker_at_start(nb, out, b_doc3()); }
            } else if occurs_at(nb, 0, b_slashes()) {
                if replaced_first(nb, out, b_slashes(), sp(2)) { lemma_marker_at_start(nb, out, b_slashes()); }
            }
        }
    }
    verif_r
//@edit rule=E17 find=<<node.kind() != $$s>> count=all optional=1
verif_str_ne(&node.kind(), $$s)
//@edit rule=E17 find=<<node.kind() == $$s>> count=all optional=1
verif_str_eq(&node.kind(), $$s)
//@edit rule=E13 find=<<&$a[node.byte_range()]>> count=all optional=1
verif_str_index($a, node.byte_range())
//@edit rule=E13 find=<<$a[node.byte_range()]>> count=all optional=1
verif_str_index($a, node.byte_range())
//@chain rule=E13 find=<<.starts_with(>> to=verif_starts_with_str argkind=str count=all optional=1
//@chain rule=E13 find=<<.replacen(>> to=langc_replacen argkind=str count=all optional=1
//@end

// ---------------------------------------------------------------------------------------------
// LSQL — sql.rs. The whole closure body (`match node.kind() { .. }`).

//@unit id=LSQL file=src/language_parsers/sql.rs fn=comments_parser slice_closure=<<|node, $s|>>
//@wrapper
fn lsql_visit_node(node: &Node, source_code: &str) -> (r: Option<String>)
    requires
        node_in_source(node, source_code@), // [LSQL.pre.node_range_is_char_boundary_range_of_source]
    ensures
        node.kind_spec() != "comment"@ && node.kind_spec() != "marginalia"@ ==> r is None, // [LSQL.post.other_node_kinds_are_not_comments]
        node.kind_spec() == "comment"@ || node.kind_spec() == "marginalia"@ ==> r is Some, // [LSQL.post.comment_nodes_are_accepted]
        utf8(node_text(node, source_code@)) == node_bytes(node, source_code@), // [LSQL.post.text_is_the_source_in_the_node_range]
        r matches Some(s) ==> utf8(s@).len() == node_bytes(node, source_code@).len(), // [LSQL.post.same_byte_length]
        r matches Some(s) ==> comment_text_inv(node_bytes(node, source_code@), utf8(s@)), // [LSQL.post.newlines_in_place_only_blanks_differ]
        r matches Some(s) ==> node.kind_spec() == "comment"@ ==> first_blanked(node_bytes(node, source_code@), utf8(s@), b_dashes()), // [LSQL.post.first_dashes_blanked_rest_unchanged]
        r matches Some(s) ==> node.kind_spec() == "comment"@ && occurs_at(node_bytes(node, source_code@), 0, b_dashes()) // [LSQL.post.line_marker_blanked]
            ==> blanked_at(node_bytes(node, source_code@), utf8(s@), 0, 2),
        r matches Some(s) ==> node.kind_spec() == "marginalia"@ ==> n1_post(node_text(node, source_code@), utf8(s@)), // [LSQL.post.block_comment_normalised_by_N1]
//@head
    proof { lemma_langc_literals(); lemma_node_text_unique(node, source_code@); lemma_node_text_bytes(node, source_code@); }
    let ghost nb = node_bytes(node, source_code@);
    let verif_r = {
//@tail
    };
    proof {
        if verif_r is Some {
            let out = utf8(verif_r->Some_0@);
            lemma_blanked_marker_inv(nb, out);
            if n1_post(node_text(node, source_code@), out) { lemma_n1_post_inv(node_text(node, source_code@), out); }
            if node.kind_spec() == "comment"@ {
                // (conditions, not assertions: a text whose marker is not replaced by as many spaces fails the CLAUSES)
                if replaced_first(nb, out, b_dashes(), sp(2)) {
                    lemma_first_blanked_inv(nb, out, b_dashes());
                    if occurs_at(nb, 0, b_dashes()) { lemma_marker_at_start(nb, out, b_dashes()); }
                }
            }
        }
    }
    verif_r
//@edit rule=E17 find=<<node.kind() != $$s>> count=all optional=1
verif_str_ne(&node.kind(), $$s)
//@edit rule=E17 find=<<node.kind() == $$s>> count=all optional=1
verif_str_eq(&node.kind(), $$s)
//@edit rule=E13 find=<<&$a[node.byte_range()]>> count=all optional=1
verif_str_index($a, node.byte_range())
//@edit rule=E13 find=<<$a[node.byte_range()]>> count=all optional=1
verif_str_index($a, node.byte_range())
//@chain rule=E13 find=<<.starts_with(>> to=verif_starts_with_str argkind=str count=all optional=1
//@chain rule=E13 find=<<.replacen(>> to=langc_replacen argkind=str count=all optional=1
//@end

// ---------------------------------------------------------------------------------------------
// LB — bash.rs. The whole closure body (kind test, `let comment`, shebang test).

//@unit id=LB file=src/language_parsers/bash.rs fn=comments_parser slice_closure=<<|node, $s|>>
//@wrapper
fn lb_visit_node(node: &Node, source: &str) -> (r: Option<String>)
    requires
        node_in_source(node, source@), // [LB.pre.node_range_is_char_boundary_range_of_source]
    ensures
        node.kind_spec() != "comment"@ ==> r is None, // [LB.post.other_node_kinds_are_not_comments]
        node.kind_spec() == "comment"@ && occurs_at(node_bytes(node, source@), 0, b_shebang()) ==> r is None, // [LB.post.shebang_is_not_a_comment]
        node.kind_spec() == "comment"@ && !occurs_at(node_bytes(node, source@), 0, b_shebang()) ==> r is Some, // [LB.post.comment_nodes_are_accepted]
        utf8(node_text(node, source@)) == node_bytes(node, source@), // [LB.post.text_is_the_source_in_the_node_range]
        r matches Some(s) ==> utf8(s@).len() == node_bytes(node, source@).len(), // [LB.post.same_byte_length]
        r matches Some(s) ==> comment_text_inv(node_bytes(node, source@), utf8(s@)), // [LB.post.newlines_in_place_only_blanks_differ]
        r matches Some(s) ==> first_blanked(node_bytes(node, source@), utf8(s@), b_hash()), // [LB.post.first_hash_blanked_rest_unchanged]
        r matches Some(s) ==> occurs_at(node_bytes(node, source@), 0, b_hash()) // [LB.post.hash_marker_blanked]
            ==> blanked_at(node_bytes(node, source@), utf8(s@), 0, 1),
//@head
    proof { lemma_langc_literals(); lemma_node_text_unique(node, source@); lemma_node_text_bytes(node, source@); }
    let ghost nb = node_bytes(node, source@);
    let verif_r = {
//@tail
    };
    proof {
        lemma_doc_markers_start_with_slashes(nb);
        if verif_r is Some {
            let out = utf8(verif_r->Some_0@);
            lemma_blanked_marker_inv(nb, out);
            // (conditions, not assertions: a text whose marker is not replaced by as many spaces fails the CLAUSES)
            if replaced_first(nb, out, b_hash(), sp(1)) {
                lemma_first_blanked_inv(nb, out, b_hash());
                if occurs_at(nb, 0, b_hash()) { lemma_marker_at_start(nb, out, b_hash()); }
            }
        }
    }
    verif_r
//@edit rule=E17 find=<<node.kind() != $$s>> count=all optional=1
verif_str_ne(&node.kind(), $$s)
//@edit rule=E17 find=<<node.kind() == $$s>> count=all optional=1
verif_str_eq(&node.kind(), $$s)
//@edit rule=E13 find=<<&$a[node.byte_range()]>> count=all optional=1
verif_str_index($a, node.byte_range())
//@edit rule=E13 find=<<$a[node.byte_range()]>> count=all optional=1
verif_str_index($a, node.byte_range())
//@chain rule=E13 find=<<.starts_with(>> to=verif_starts_with_str argkind=str count=all optional=1
//@chain rule=E13 find=<<.replacen(>> to=langc_replacen argkind=str count=all optional=1
//@end

// ---------------------------------------------------------------------------------------------
// LCSS — css.rs. The whole closure body (`if node.kind() == "comment" { Some(N1(..)) } else { None }`).

//@unit id=LCSS file=src/language_parsers/css.rs fn=comments_parser slice_closure=<<|node, $s|>>
//@wrapper
fn lcss_visit_node(node: &Node, source_code: &str) -> (r: Option<String>)
    requires
        node_in_source(node, source_code@), // [LCSS.pre.node_range_is_char_boundary_range_of_source]
    ensures
        node.kind_spec() != "comment"@ ==> r is None, // [LCSS.post.other_node_kinds_are_not_comments]
        node.kind_spec() == "comment"@ ==> r is Some, // [LCSS.post.comment_nodes_are_accepted]
        utf8(node_text(node, source_code@)) == node_bytes(node, source_code@), // [LCSS.post.text_is_the_source_in_the_node_range]
        r matches Some(s) ==> utf8(s@).len() == node_bytes(node, source_code@).len(), // [LCSS.post.same_byte_length]
        r matches Some(s) ==> comment_text_inv(node_bytes(node, source_code@), utf8(s@)), // [LCSS.post.newlines_in_place_only_blanks_differ]
        r matches Some(s) ==> n1_post(node_text(node, source_code@), utf8(s@)), // [LCSS.post.block_comment_normalised_by_N1]
//@head
    proof { lemma_node_text_unique(node, source_code@); lemma_node_text_bytes(node, source_code@); }
    let ghost nb = node_bytes(node, source_code@);
    let verif_r = {
//@tail
    };
    proof {
        if verif_r is Some {
            let out = utf8(verif_r->Some_0@);
            if n1_post(node_text(node, source_code@), out) { lemma_n1_post_inv(node_text(node, source_code@), out); }
        }
    }
    verif_r
//@edit rule=E17 find=<<node.kind() != $$s>> count=all optional=1
verif_str_ne(&node.kind(), $$s)
//@edit rule=E17 find=<<node.kind() == $$s>> count=all optional=1
verif_str_eq(&node.kind(), $$s)
//@edit rule=E13 find=<<&$a[node.byte_range()]>> count=all optional=1
verif_str_index($a, node.byte_range())
//@edit rule=E13 find=<<$a[node.byte_range()]>> count=all optional=1
verif_str_index($a, node.byte_range())
//@chain rule=E13 find=<<.starts_with(>> to=verif_starts_with_str argkind=str count=all optional=1
//@chain rule=E13 find=<<.replacen(>> to=langc_replacen argkind=str count=all optional=1
//@end

// =============================================================================================
// MD1 / MD2 — markdown.rs: `MdParser::parse` merges the blocks of the Markdown comments (`[//]: # (..)`)
// with the blocks of the HTML comments; `MdParser::parse_html_blocks` pairs the HTML comments' tags.
// C03: "blocks are reported in source order", nothing lost; C12: an error of either part is an error.

// ---- vocabulary of group `blockpairs` (types, Position order, P1's specification), pulled mechanically
//@include prelude/std_range.rs
//@include prelude/blockp_strings.rs
//@include prelude/blockp_types.rs
//@include prelude/blockp_std.rs
//@include prelude/blockp_tagparser.rs
//@copyfrom file=groups/blockpairs.rs from=<<spec fn same_comment>> until=<<impl Block {>>
//@copyfrom file=groups/blockpairs.rs from=<<spec fn source_position_spec>> until=<</// `p` is the offset>>
//@copyfrom file=groups/blockpairs.rs from=<</// The start-tag record>> until=<<spec fn lex_lt>>
//@copyfrom file=groups/blockpairs.rs from=<<spec fn is_start>> until=<</// Once in error>>
//@copyfrom file=groups/blockpairs.rs from=<</// What the recursive definitions mean>> until=<<proof fn lemma_pairing_struct>>

// P1 `parse_blocks_from_comments`: proved in group `blockpairs`; contract pulled textually (SLICE-CALL).
//@stubof group=blockpairs unit=P1

//@include prelude/langc_merge.rs

// ---- `impl PartialOrd for Block` / `impl Ord for Block` (src/blocks.rs): bodies from /repo, VERIFIED against
// `block_cmp`: vstd checks an `Ord`/`PartialOrd` impl against `cmp_spec`/`partial_cmp_spec` when `obeys_*` is true
// (that obligation is vstd's own `ensures` of the trait method and carries no label; the explicit labelled
// `ensures` of the two units says the same through the public copy `langc_block_cmp` - naming `cmp_spec`
// itself in an `ensures` of the impl is rejected as a cyclic reference).
// `#[derive(PartialEq, Eq)]` of Block (stripped by E11) is needed only as a supertrait: it is declared without
// a specification (`obeys_eq_spec() == false`, external body) - nothing in this group compares blocks with `==`.
impl PartialEqSpecImpl for Block {
    open spec fn obeys_eq_spec() -> bool { false }
    open spec fn eq_spec(&self, other: &Self) -> bool { *self == *other }
}
impl PartialEq for Block {
    #[verifier::external_body]
    fn eq(&self, other: &Self) -> (r: bool) { unimplemented!() }
}
impl Eq for Block {}
impl PartialOrdSpecImpl for Block {
    closed spec fn obeys_partial_cmp_spec() -> bool { true }
    closed spec fn partial_cmp_spec(&self, other: &Self) -> Option<Ordering> { Some(block_cmp(*self, *other)) }
}
impl OrdSpecImpl for Block {
    closed spec fn obeys_cmp_spec() -> bool { true }
    closed spec fn cmp_spec(&self, other: &Self) -> Ordering { block_cmp(*self, *other) }
}
impl PartialOrd for Block {
//@unit id=MD.pord file=src/blocks.rs fn=<<impl PartialOrd for Block::partial_cmp>> ret=r
//@contract
        ensures r == Some(langc_block_cmp(*self, *other)), // [MD.pord.post.is_cmp_by_start_tag_position]
//@end
}
impl Ord for Block {
//@unit id=MD.ord file=src/blocks.rs fn=<<impl Ord for Block::cmp>> ret=r
//@contract
        ensures r == langc_block_cmp(*self, *other), // [MD.ord.post.compares_start_tag_positions]
//@end
}

// ---- stand-ins (T-ext) ----------------------------------------------------------------------------------
/// stand-in for the trait `CommentsParser` (its only method returns `impl Iterator`, FFI behind it)
pub trait CommentsParser {}
/// stand-in for `TreeSitterCommentsParser` (field of MdParser; tree-sitter handles + the visitor closure)
#[verifier::external_body]
pub struct TreeSitterCommentsParser { _opaque: () }

//@item file=src/block_parser.rs kind=struct name=BlocksFromCommentsParser
//@item file=src/language_parsers/markdown.rs kind=struct name=MdParser

/// the blocks of the Markdown comments of a text: `BlocksFromCommentsParser::<C>::parse(contents)` - a
/// function of the text (tree-sitter parsing with a fixed grammar is deterministic; the parser objects
/// hold no state that outlives a call except caches)
pub uninterp spec fn md_blocks_of(contents: Seq<char>) -> anyhow::Result<Vec<Block>>;
/// the HTML comments of a text with file positions: `MdParser::parse_html_comments(contents)` (its
/// per-comment arithmetic is unit N7 of group `normalise`; the query loop is FFI)
pub uninterp spec fn html_comments_of(contents: Seq<char>) -> anyhow::Result<Vec<Comment>>;

impl<C: CommentsParser> BlocksFromCommentsParser<C> {
    /// ASSUMED (E7: `impl BlocksParser for BlocksFromCommentsParser<C>` -> inherent fn; the body is the one
    /// call `parse_blocks_from_comments(self.comments_parser.parse(contents))`, block_parser.rs:28-30, whose
    /// argument type `impl Iterator + 'source` of a trait method is outside Verus' subset). The sortedness
    /// clause is `P1.post.sorted_by_start_tag` of that call (proved in group blockpairs) and the documented
    /// contract of `BlocksParser::parse` ("The blocks are required to be sorted by the `starts_at` field").
    #[verifier::external_body]
    fn parse(&mut self, contents: &str) -> (r: anyhow::Result<Vec<Block>>)
        ensures
            r == md_blocks_of(contents@),
            r matches Ok(v) ==> blocks_sorted(v@), // [MD1.assume.markdown_blocks_sorted_by_P1]
    { unimplemented!() }
}

/// P1's postcondition for a comment list `cs`, as a predicate of the result (restated over the event
/// sequence of `cs`; proved in MD2 from the stub's contract)
spec fn html_events(cs: Seq<Comment>) -> Seq<anyhow::Result<PartialBlock>> { events_from(None, 0, cs) }

spec fn p1_post(cs: Seq<Comment>, r: anyhow::Result<Vec<Block>>) -> bool {
    let ev = html_events(cs);
    &&& (r is Ok <==> balanced(ev))
    &&& (r matches Ok(v) ==> v@.to_multiset() == pair_blocks(ev, ev.len() as int).to_multiset())
    &&& (r matches Ok(v) ==> v@.len() == count_starts(ev, ev.len() as int))
    &&& (r is Ok ==> pairing_wf(ev, ev.len() as int))
    &&& (r matches Ok(v) ==> blocks_sorted(v@))
}

impl<C: CommentsParser> MdParser<C> {
    /// ASSUMED stand-in for `parse_html_comments` (tree-sitter query loop, FFI). T-ext: every comment it
    /// returns is well-formed in the sense of blockpairs' `comment_wf` (line / column plus text length fit
    /// `usize`: all are bounded by the file size) - P1's precondition.
    #[verifier::external_body]
    fn parse_html_comments(&mut self, contents: &str) -> (r: anyhow::Result<Vec<Comment>>)
        ensures
            r == html_comments_of(contents@),
            r matches Ok(cs) ==> forall|i: int| 0 <= i < cs@.len() ==> comment_wf(#[trigger] cs@[i]), // [MD2.assume.html_comments_well_formed]
    { unimplemented!() }

//@unit id=MD2 file=src/language_parsers/markdown.rs fn=<<impl<C: CommentsParser> MdParser<C>::parse_html_blocks>> ret=r
//@contract
        ensures
            html_comments_of(contents@) is Err ==> r is Err, // [MD2.post.comment_error_propagates]
            html_comments_of(contents@) matches Ok(cs) ==> p1_post(cs@, r), // [MD2.post.blocks_are_the_pairs_of_the_html_comments_in_source_order]
//@end

//@unit id=MD1 file=src/language_parsers/markdown.rs fn=<<impl<C: CommentsParser> BlocksParser for MdParser<C>::parse>>
//@sig rule=E7 was=<<fn parse(&mut self, contents: &str) -> anyhow::Result<Vec<Block>>>>
    fn parse(&mut self, contents: &str) -> (r: anyhow::Result<Vec<Block>>)
//@contract
        ensures
            md_blocks_of(contents@) is Err ==> r is Err, // [MD1.post.markdown_error_propagates]
            html_comments_of(contents@) is Err ==> r is Err, // [MD1.post.html_comment_error_propagates]
            html_comments_of(contents@) matches Ok(cs) && !balanced(html_events(cs@)) ==> r is Err, // [MD1.post.unbalanced_html_tags_are_an_error]
            md_blocks_of(contents@) is Ok && (html_comments_of(contents@) matches Ok(cs) && balanced(html_events(cs@))) ==> r is Ok, // [MD1.post.ok_otherwise]
            r matches Ok(v) ==> (md_blocks_of(contents@) matches Ok(m) && html_comments_of(contents@) matches Ok(cs) // [MD1.post.nothing_lost_nothing_added]
                && v@.to_multiset() == m@.to_multiset().add(pair_blocks(html_events(cs@), html_events(cs@).len() as int).to_multiset())
                && v@.len() == m@.len() + count_starts(html_events(cs@), html_events(cs@).len() as int)),
            r matches Ok(v) ==> blocks_sorted(v@), // [MD1.post.blocks_in_source_order]
//@edit rule=ghost after=<<let html_blocks = self.parse_html_blocks(contents)?;>> optional=1
        proof {
            // (hints only; both argument orders, so that `html.merge(md)` is followed as well)
            vstd::seq_lib::lemma_multiset_commutative(md_blocks@, html_blocks@);
            lemma_merge_perm(md_blocks@, html_blocks@);
            lemma_merge_sorted(md_blocks@, html_blocks@);
            lemma_merge_perm(html_blocks@, md_blocks@);
            lemma_merge_sorted(html_blocks@, md_blocks@);
        }
//@chain rule=E13 find=<<.into_iter().merge(>> to=verif_merge_collect suffix=<<.collect()>> optional=1
//@chain rule=E13 find=<<.into_iter().chain(>> to=verif_chain_collect suffix=<<.collect()>> optional=1
//@end
}

} // verus!
fn main() {}
