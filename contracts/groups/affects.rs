// Group `affects`: unit V6 of the design — the drift rule `affects="file:name, :name"`.
//   V6p  `parse_affects_attribute`            the references of one attribute value (C01, C13)
//   V6c  `create_violation` (affects.rs)      the diagnostic: start-tag range, code, payload (C10, C13)
//   V6d  `AffectsValidatorDetector::detect`   fires iff content modified and `affects` present (C01)
//   V6   `AffectsValidator::validate`         one violation per unsatisfied reference (C01, C13, C20)
// plus `Block::name` (V6n) and `AffectsValidator::new` (V6new), which V6 / V6d call.
use vstd::prelude::*;
use std::cmp::Ordering;
use std::collections::{HashMap, HashSet};
use std::ops::{Range, RangeInclusive};
use std::path::{Path, PathBuf};
use std::sync::Arc;

//@include prelude/anyhow.rs
//@include prelude/tstr_mod.rs
//@include prelude/regex.rs
//@include prelude/aff_axioms_mod.rs

verus! {

//@include prelude/std_range.rs
//@include prelude/strings.rs
//@include prelude/domain.rs
//@include prelude/block_fns.rs
//@include prelude/aff_strings.rs
//@include prelude/aff_maps.rs

// ---- specification of one reference list (from properties C01 / C13) ---------------------------------
/// the first ':' of `t` is at char index `i`
pub open spec fn first_colon_at(t: Seq<char>, i: int) -> bool {
    0 <= i < t.len() && t[i] == ':' && forall|j: int| 0 <= j < i ==> #[trigger] t[j] != ':'
}

/// One reference `file:name` / `:name`. The piece is trimmed; without a ':' it is malformed (None);
/// otherwise: (None if the trimmed text before the FIRST ':' is empty, else the path of that text;
/// the trimmed text after the first ':').
pub open spec fn ref_of_piece(piece: Seq<char>) -> Option<(Option<PathBuf>, Seq<char>)> {
    let t = trim_spec(piece);
    if !t.contains(':') {
        None
    } else {
        let i = choose|i: int| first_colon_at(t, i);
        let f = trim_spec(t.subrange(0, i));
        let n = trim_spec(t.subrange(i + 1, t.len() as int));
        Some((if f.len() == 0 { None } else { Some(path_of(f)) }, n))
    }
}

/// C13: "an `affects` reference without a colon"
pub open spec fn refs_malformed(value: Seq<char>) -> bool {
    exists|k: int| 0 <= k < split_comma_spec(value).len() && (#[trigger] ref_of_piece(split_comma_spec(value)[k])) is None
}

/// `refs` is the parsed form of `value`: one entry per comma-separated piece, in order
pub open spec fn refs_are(value: Seq<char>, refs: Seq<(Option<PathBuf>, String)>) -> bool {
    &&& refs.len() == split_comma_spec(value).len()
    &&& forall|k: int| 0 <= k < refs.len() ==> {
            &&& (#[trigger] ref_of_piece(split_comma_spec(value)[k])) is Some
            &&& refs[k].0 == ref_of_piece(split_comma_spec(value)[k]).unwrap().0
            &&& refs[k].1@ == ref_of_piece(split_comma_spec(value)[k]).unwrap().1
        }
}

/// `split_once(":")` on `t` in the terms of `ref_of_piece`
pub proof fn lemma_split_once_colon(t: Seq<char>)
    ensures
        split_once_spec(t, ":"@) is None <==> !t.contains(':'),
        split_once_spec(t, ":"@) matches Some(p) ==> {
            let i = choose|i: int| first_colon_at(t, i);
            first_colon_at(t, i) && p.0 == t.subrange(0, i) && p.1 == t.subrange(i + 1, t.len() as int)
        },
{
    reveal_strlit(":");
    let p = ":"@;
    assert(p =~= seq![':']);
    assert forall|i: int| #[trigger] occurs_at(t, p, i) <==> (0 <= i < t.len() && t[i] == ':') by {
        lemma_occurs_at_char(t, ':', i);
    }
    lemma_split_once_spec(t, p);
    if t.contains(':') {
        let idx = choose|idx: int| 0 <= idx < t.len() && t[idx] == ':';
        assert(occurs_at(t, p, idx));
        lemma_first_occurrence_exists(t, p, idx);
        let k = choose|k: int| 0 <= k <= idx && #[trigger] first_occurrence(t, p, k);
        assert forall|j: int| 0 <= j < k implies #[trigger] t[j] != ':' by {
            assert(!occurs_at(t, p, j));
        }
        assert(first_colon_at(t, k));
        let i = choose|i: int| first_colon_at(t, i);
        assert(first_colon_at(t, i));
        assert forall|j: int| 0 <= j < i implies !#[trigger] occurs_at(t, p, j) by {
            assert(t[j] != ':');
        }
        assert(first_occurrence(t, p, i));
    } else {
        assert forall|i: int| !#[trigger] occurs_at(t, p, i) by {
            if 0 <= i < t.len() && t[i] == ':' {
                assert(t.contains(':'));
            }
        }
    }
}

//@unit id=V6p file=src/validators/affects.rs fn=parse_affects_attribute ret=r
//@contract
    ensures
        // C13: Err iff SOME piece, trimmed, contains no ':'
        r is Err <==> refs_malformed(value@), // [V6p.post.no_colon_is_err]
        // otherwise one entry per piece, in order
        r matches Ok(v) ==> refs_are(value@, v@), // [V6p.post.one_entry_per_piece_in_order]
//@edit rule=E19 find=<<let mut result = Vec::new()>>
let mut result: Vec<(Option<PathBuf>, String)> = Vec::new()
//@edit rule=E13 find=<<for $x in $v.split(',')>>
    let ghost pieces = split_comma_spec($v@);
    let verif_pieces = verif_split_char($v, ',');
    for $x in it: verif_pieces
        invariant
            pieces == split_comma_spec($v@),
            verif_pieces@.len() == pieces.len(),
            forall|i: int| 0 <= i < verif_pieces@.len() ==> (#[trigger] verif_pieces@[i])@ == pieces[i],
            result@.len() == it.index@, // [V6p.inv.one_entry_per_piece_so_far]
            forall|k: int| 0 <= k < it.index@ ==> { // [V6p.inv.entries_are_the_references]
                &&& (#[trigger] ref_of_piece(pieces[k])) is Some
                &&& result@[k].0 == ref_of_piece(pieces[k]).unwrap().0
                &&& result@[k].1@ == ref_of_piece(pieces[k]).unwrap().1
            },
//@chain rule=E13 find=<<.split_once(>> to=verif_split_once_str argkind=str count=all optional=1
//@chain rule=E13 find=<<.rsplit_once(>> to=verif_rsplit_once_str argkind=str count=all optional=1
//@macro rule=E1 name=format to=<<verif_message()>> optional=1
//@chain rule=E1 find=<<.context(>> to=verif_opt_context count=all optional=1
//@edit rule=E13 find=<<$a.into()>> count=all optional=1
verif_str_into_pathbuf($a)
//@edit rule=ghost before=<<let (mut filename, block_name)>>
        proof {
            assert(block@ == trim_spec(pieces[it.index@ as int]));
            lemma_split_once_colon(trim_spec(pieces[it.index@]));
            assert(split_once_spec(block@, ":"@) is None ==> ref_of_piece(pieces[it.index@]) is None); // [V6p.assert.no_colon_piece_is_malformed]
        }
//@end

// ---- types of src/validators/affects.rs and what they mention ------------------------------------------
//@item file=src/validators/mod.rs kind=struct name=ValidationContext
//@item file=src/validators/affects.rs kind=struct name=AffectsValidator
//@item file=src/validators/affects.rs kind=struct name=AffectsViolation
//@item file=src/validators/affects.rs kind=struct name=AffectsValidatorDetector

// T-dyn stand-ins: the two validator traits only occur as `Box<dyn ..>` inside `ValidatorType` here
// (V6d builds `ValidatorType::Sync(Box::new(AffectsValidator::new()))`); their methods are not called.
pub trait ValidatorSync {}
pub trait ValidatorAsync {}
impl ValidatorSync for AffectsValidator {}
//@item file=src/validators/mod.rs kind=enum name=ValidatorType

impl Block {
//@unit id=V6n file=src/blocks.rs fn=<<impl Block::name>> ret=r
//@contract
        ensures opt_view(r) == attr_view(self.attributes@, "name"@), // [V6n.post.name_is_name_attribute]
//@chain rule=E13 find=<<.map(String::as_str)>> to=verif_opt_as_str
//@end
}

impl AffectsValidator {
//@unit id=V6new file=src/validators/affects.rs fn=<<impl AffectsValidator::new>> ret=r
//@end
}

// ---- V6c: the diagnostic ---------------------------------------------------------------------------------
/// the machine-readable payload of `v` encodes an `AffectsViolation` naming (file, name)
pub open spec fn names_reference(v: Violation, affected_file: PathBuf, affected_name: Seq<char>) -> bool {
    exists|d: serde_json::Value, payload: AffectsViolation| v.data == Some(d) && #[trigger] serde_json::value_encodes(d, payload)
        && path_owned(payload.affected_block_file_path) == affected_file && payload.affected_block_name@ == affected_name
}

/// C10: "for drift ... violations the range spans exactly the block's start tag, from its `<` to its `>`";
/// code "affects"; severity of the modified block; the payload names the reference that is not modified.
pub open spec fn affects_violation_ok(v: Violation, b: Block, affected_file: PathBuf, affected_name: Seq<char>) -> bool {
    &&& v.range.start == b.start_tag_position_range@.start
    &&& v.range.end == b.start_tag_position_range@.end
    &&& v.code@ == "affects"@
    &&& Ok::<BlockSeverity, anyhow::Error>(v.severity) == severity_spec(b)
    &&& names_reference(v, affected_file, affected_name)
}

//@unit id=V6c file=src/validators/affects.rs fn=create_violation ret=r
//@contract
    ensures
        r matches Ok(v) ==> v.range.start == modified_block.start_tag_position_range@.start // [V6c.post.range_is_start_tag]
            && v.range.end == modified_block.start_tag_position_range@.end,
        r matches Ok(v) ==> v.code@ == "affects"@ && Ok::<BlockSeverity, anyhow::Error>(v.severity) == severity_spec(*modified_block), // [V6c.post.code_and_severity]
        r matches Ok(v) ==> affects_violation_ok(v, *modified_block, path_owned(affected_block_file_path), affected_block_name@), // [V6c.post.payload]
        severity_spec(*modified_block) is Err ==> r is Err, // [V6c.post.bad_severity_is_err]
//@macro rule=E1 name=format to=<<verif_message()>>
//@dropcall rule=E1 name=context optional=1
//@edit rule=E2 find=<<serde_json::to_value(>>
verif_to_value(
//@end

// ---- V6d: the detector -----------------------------------------------------------------------------------
impl AffectsValidatorDetector {
//@unit id=V6d file=src/validators/affects.rs fn=<<impl validators::ValidatorDetector for AffectsValidatorDetector::detect>>
//@sig rule=E7 was=<<fn detect(&self, block_with_context: &BlockWithContext,) -> anyhow::Result<Option<ValidatorType>>>>
    fn detect(&self, block_with_context: &BlockWithContext) -> (r: anyhow::Result<Option<ValidatorType>>)
//@contract
        ensures
            r is Ok, // [V6d.post.never_err]
            r matches Ok(o) ==> (o is Some <==> (block_with_context.is_content_modified // [V6d.post.fires_iff_modified_and_affects]
                && attr_view(block_with_context.block.attributes@, "affects"@) is Some)),
            r matches Ok(Some(t)) ==> t is Sync, // [V6d.post.sync_validator]
//@end
}

// ---- V6: specification, from the statement of C01 (not from the code) ---------------------------------
/// block `b` is modified and its `name` attribute is `name`
pub open spec fn named_modified(b: BlockWithContext, name: Seq<char>) -> bool {
    b.is_content_modified && attr_view(b.block.attributes@, "name"@) == Some(name)
}

/// Mod: "(file, name) has a modified block of that name" — the context has, in `file`, a block with
/// `is_content_modified` whose name attribute is `name`. Unmodified blocks satisfy nothing.
pub open spec fn in_mod(ctx: ValidationContext, file: PathBuf, name: Seq<char>) -> bool {
    ctx.blocks@.contains_key(file) && exists|j: int| 0 <= j < ctx.blocks@[file].blocks_with_context@.len()
        && named_modified(#[trigger] ctx.blocks@[file].blocks_with_context@[j], name)
}

/// "a modified block that declares `affects`". Unmodified blocks contribute nothing (not even parsed).
pub open spec fn declares_affects(b: BlockWithContext) -> bool {
    b.is_content_modified && attr_view(b.block.attributes@, "affects"@) is Some
}

pub open spec fn affects_value(b: BlockWithContext) -> Seq<char> {
    attr_view(b.block.attributes@, "affects"@).unwrap()
}

/// the (file, name) the i-th reference of `value` points to, for a block that lives in file `own`
pub open spec fn ref_target(value: Seq<char>, i: int, own: PathBuf) -> (PathBuf, Seq<char>) {
    let r = ref_of_piece(split_comma_spec(value)[i]).unwrap();
    (match r.0 { Some(p) => p, None => own }, r.1)
}

/// reference `i` of block `b` (which lives in file `f`) "has no modified block of that name"
pub open spec fn unsatisfied(ctx: ValidationContext, f: PathBuf, b: BlockWithContext, i: int) -> bool {
    !in_mod(ctx, ref_target(affects_value(b), i, f).0, ref_target(affects_value(b), i, f).1)
}

/// the unsatisfied references among the first `n` references of block `j` of file `f`, in order,
/// as (block index, reference index)
pub open spec fn block_expected(ctx: ValidationContext, f: PathBuf, fb: FileBlocks, j: int, n: int) -> Seq<(int, int)>
    decreases n
{
    if n <= 0 {
        Seq::empty()
    } else if unsatisfied(ctx, f, fb.blocks_with_context@[j], n - 1) {
        block_expected(ctx, f, fb, j, n - 1).push((j, n - 1))
    } else {
        block_expected(ctx, f, fb, j, n - 1)
    }
}

/// everything block `j` contributes
pub open spec fn block_all(ctx: ValidationContext, f: PathBuf, fb: FileBlocks, j: int) -> Seq<(int, int)> {
    if declares_affects(fb.blocks_with_context@[j]) {
        block_expected(ctx, f, fb, j, split_comma_spec(affects_value(fb.blocks_with_context@[j])).len() as int)
    } else {
        Seq::empty()
    }
}

/// everything the first `m` blocks of file `f` contribute
pub open spec fn file_expected(ctx: ValidationContext, f: PathBuf, fb: FileBlocks, m: int) -> Seq<(int, int)>
    decreases m
{
    if m <= 0 { Seq::empty() } else { file_expected(ctx, f, fb, m - 1) + block_all(ctx, f, fb, m - 1) }
}

/// `v` is THE violation for reference `o.1` of block `o.0` of file `f`: range = that block's start tag
/// (C10), severity of that block, payload = the (file, name) the reference points to
pub open spec fn viol_for(v: Violation, f: PathBuf, fb: FileBlocks, o: (int, int)) -> bool {
    let b = fb.blocks_with_context@[o.0];
    affects_violation_ok(v, b.block, ref_target(affects_value(b), o.1, f).0, ref_target(affects_value(b), o.1, f).1)
}

/// the list filed under `f` is, entry by entry, one violation per expected (block, reference)
pub open spec fn list_ok(vs: Seq<Violation>, exp: Seq<(int, int)>, f: PathBuf, fb: FileBlocks) -> bool {
    vs.len() == exp.len() && forall|k: int| 0 <= k < vs.len() ==> viol_for(#[trigger] vs[k], f, fb, exp[k])
}

/// C13: some modified block of the run has an `affects` reference without a colon
pub open spec fn has_malformed_reference(ctx: ValidationContext) -> bool {
    exists|f: PathBuf, j: int| ctx.blocks@.contains_key(f) && 0 <= j < ctx.blocks@[f].blocks_with_context@.len()
        && declares_affects(#[trigger] ctx.blocks@[f].blocks_with_context@[j])
        && refs_malformed(affects_value(ctx.blocks@[f].blocks_with_context@[j]))
}

/// some modified block of the run declares `affects` (the only blocks an error can come from)
pub open spec fn has_declaring_block(ctx: ValidationContext) -> bool {
    exists|f: PathBuf, j: int| ctx.blocks@.contains_key(f) && 0 <= j < ctx.blocks@[f].blocks_with_context@.len()
        && declares_affects(#[trigger] ctx.blocks@[f].blocks_with_context@[j])
}

/// The whole Ok-postcondition of V6 as a predicate of the context's MAP VIEW and the result's map view
/// (no iteration order in sight): C20.
pub open spec fn v6_ok_post(ctx: ValidationContext, m: Map<PathBuf, Vec<Violation>>) -> bool {
    &&& forall|f: PathBuf| #[trigger] m.contains_key(f) ==> ctx.blocks@.contains_key(f) && m[f]@.len() > 0
    &&& forall|f: PathBuf| #[trigger] ctx.blocks@.contains_key(f) ==> list_ok(map_get_or_empty(m, f),
            file_expected(ctx, f, ctx.blocks@[f], ctx.blocks@[f].blocks_with_context@.len() as int), f, ctx.blocks@[f])
}


// ---- what `file_expected` means (proved): exactly the unsatisfied references, each once ------------------
/// number of references of block `j`
pub open spec fn nrefs(fb: FileBlocks, j: int) -> int {
    split_comma_spec(affects_value(fb.blocks_with_context@[j])).len() as int
}

pub proof fn lemma_block_expected(ctx: ValidationContext, f: PathBuf, fb: FileBlocks, j: int, n: int)
    requires n >= 0,
    ensures
        forall|o: (int, int)| #[trigger] block_expected(ctx, f, fb, j, n).contains(o)
            <==> (o.0 == j && 0 <= o.1 < n && unsatisfied(ctx, f, fb.blocks_with_context@[j], o.1)),
        block_expected(ctx, f, fb, j, n).no_duplicates(),
    decreases n,
{
    let cur = block_expected(ctx, f, fb, j, n);
    if n > 0 {
        lemma_block_expected(ctx, f, fb, j, n - 1);
        let prev = block_expected(ctx, f, fb, j, n - 1);
        if unsatisfied(ctx, f, fb.blocks_with_context@[j], n - 1) {
            assert(cur == prev.push((j, n - 1)));
            assert forall|o: (int, int)| #[trigger] cur.contains(o)
                <==> (o.0 == j && 0 <= o.1 < n && unsatisfied(ctx, f, fb.blocks_with_context@[j], o.1)) by {
                if cur.contains(o) {
                    let k = choose|k: int| 0 <= k < cur.len() && cur[k] == o;
                    if k < prev.len() { assert(prev[k] == o); assert(prev.contains(o)); }
                }
                if o.0 == j && 0 <= o.1 < n && unsatisfied(ctx, f, fb.blocks_with_context@[j], o.1) {
                    if o.1 == n - 1 {
                        assert(cur[prev.len() as int] == o);
                    } else {
                        assert(prev.contains(o));
                        let k = choose|k: int| 0 <= k < prev.len() && prev[k] == o;
                        assert(cur[k] == o);
                    }
                }
            }
            assert forall|a: int, b: int| 0 <= a < cur.len() && 0 <= b < cur.len() && a != b implies cur[a] != cur[b] by {
                if a < prev.len() { assert(prev.contains(prev[a])); }
                if b < prev.len() { assert(prev.contains(prev[b])); }
            }
        }
    } else {
        assert forall|o: (int, int)| !(#[trigger] cur.contains(o)) by {}
    }
}

/// [V6.lemma.expected_is_exactly_the_unsatisfied_references] the expected list of a file holds
/// (block j, reference i) iff block j is modified, declares `affects`, and its i-th reference is
/// unsatisfied — and holds it ONCE. With `list_ok` this is "one violation per such triple, none otherwise".
pub proof fn lemma_file_expected(ctx: ValidationContext, f: PathBuf, fb: FileBlocks, m: int)
    requires m >= 0,
    ensures
        forall|o: (int, int)| #[trigger] file_expected(ctx, f, fb, m).contains(o)
            <==> (0 <= o.0 < m && declares_affects(fb.blocks_with_context@[o.0]) && 0 <= o.1 < nrefs(fb, o.0)
                  && unsatisfied(ctx, f, fb.blocks_with_context@[o.0], o.1)),
        file_expected(ctx, f, fb, m).no_duplicates(),
    decreases m,
{
    let cur = file_expected(ctx, f, fb, m);
    if m > 0 {
        lemma_file_expected(ctx, f, fb, m - 1);
        let prev = file_expected(ctx, f, fb, m - 1);
        let blk = block_all(ctx, f, fb, m - 1);
        assert(cur == prev + blk);
        if declares_affects(fb.blocks_with_context@[m - 1]) {
            lemma_block_expected(ctx, f, fb, m - 1, nrefs(fb, m - 1));
        } else {
            assert forall|o: (int, int)| !(#[trigger] blk.contains(o)) by {}
        }
        assert forall|o: (int, int)| #[trigger] cur.contains(o) <==> (prev.contains(o) || blk.contains(o)) by {
            if cur.contains(o) {
                let k = choose|k: int| 0 <= k < cur.len() && cur[k] == o;
                if k < prev.len() { assert(prev[k] == o); } else { assert(blk[k - prev.len()] == o); }
            }
            if prev.contains(o) {
                let k = choose|k: int| 0 <= k < prev.len() && prev[k] == o;
                assert(cur[k] == o);
            }
            if blk.contains(o) {
                let k = choose|k: int| 0 <= k < blk.len() && blk[k] == o;
                assert(cur[prev.len() + k] == o);
            }
        }
        assert forall|a: int, b: int| 0 <= a < cur.len() && 0 <= b < cur.len() && a != b implies cur[a] != cur[b] by {
            if a < prev.len() { assert(prev.contains(prev[a])); } else { assert(blk.contains(blk[a - prev.len()])); }
            if b < prev.len() { assert(prev.contains(prev[b])); } else { assert(blk.contains(blk[b - prev.len()])); }
        }
    } else {
        assert forall|o: (int, int)| !(#[trigger] cur.contains(o)) by {}
    }
}

// ---- C20: the Ok-postcondition leaves no freedom -----------------------------------------------------------
/// what two diagnostics for the same (block, reference) have in common: everything but the message text
pub open spec fn same_diagnostic(v1: Violation, v2: Violation) -> bool {
    &&& v1.range == v2.range && v1.code@ == v2.code@ && v1.severity == v2.severity
    &&& exists|af: PathBuf, an: Seq<char>| #[trigger] names_reference(v1, af, an) && names_reference(v2, af, an)
}

/// [V6.lemma.order_independent] Two results that both satisfy V6's Ok-postcondition for the same context
/// (e.g. two runs with different hash seeds: V6 is proved for an ARBITRARY iteration order of
/// `&context.blocks`, twice) report the same files and, per file, the same diagnostics in the same order.
pub proof fn lemma_v6_order_independent(ctx: ValidationContext, m1: Map<PathBuf, Vec<Violation>>, m2: Map<PathBuf, Vec<Violation>>)
    requires v6_ok_post(ctx, m1), v6_ok_post(ctx, m2),
    ensures
        m1.dom() == m2.dom(),
        forall|f: PathBuf| #[trigger] m1.contains_key(f) ==> m1[f]@.len() == m2[f]@.len(),
        forall|f: PathBuf, k: int| m1.contains_key(f) && 0 <= k < m1[f]@.len() ==> same_diagnostic(#[trigger] m1[f]@[k], m2[f]@[k]),
{
    assert forall|f: PathBuf| m1.contains_key(f) <==> m2.contains_key(f) by {
        if m1.contains_key(f) { assert(ctx.blocks@.contains_key(f)); }
        if m2.contains_key(f) { assert(ctx.blocks@.contains_key(f)); }
    }
    assert(m1.dom() =~= m2.dom());
    assert forall|f: PathBuf, k: int| m1.contains_key(f) && 0 <= k < m1[f]@.len() implies same_diagnostic(#[trigger] m1[f]@[k], m2[f]@[k]) by {
        assert(ctx.blocks@.contains_key(f));
        let fb = ctx.blocks@[f];
        let exp = file_expected(ctx, f, fb, fb.blocks_with_context@.len() as int);
        assert(viol_for(m1[f]@[k], f, fb, exp[k]));
        assert(viol_for(m2[f]@[k], f, fb, exp[k]));
    }
}

/// [V6.lemma.bad_severity_is_err] C13 "an unknown severity on a block that has a violation": if V6 returns
/// Ok, every modified block with an unsatisfied reference has a parsable severity (contrapositive: an
/// unknown severity on such a block makes V6 return Err).
pub proof fn lemma_v6_bad_severity_is_err(ctx: ValidationContext, m: Map<PathBuf, Vec<Violation>>, f: PathBuf, j: int, i: int)
    requires
        v6_ok_post(ctx, m),
        ctx.blocks@.contains_key(f), 0 <= j < ctx.blocks@[f].blocks_with_context@.len(),
        declares_affects(ctx.blocks@[f].blocks_with_context@[j]), 0 <= i < nrefs(ctx.blocks@[f], j),
        unsatisfied(ctx, f, ctx.blocks@[f].blocks_with_context@[j], i),
    ensures
        severity_spec(ctx.blocks@[f].blocks_with_context@[j].block) is Ok,
        m.contains_key(f),
{
    let fb = ctx.blocks@[f];
    let exp = file_expected(ctx, f, fb, fb.blocks_with_context@.len() as int);
    lemma_file_expected(ctx, f, fb, fb.blocks_with_context@.len() as int);
    assert(exp.contains((j, i)));
    let k = choose|k: int| 0 <= k < exp.len() && exp[k] == (j, i);
    assert(viol_for(map_get_or_empty(m, f)[k], f, fb, exp[k]));
}

// ---- loop-1 bookkeeping: which (file, name) pairs have been indexed so far -------------------------------
/// some block before position (`e`, `j`) of the iteration order `ents` is a modified block named
/// `name` of file `p`
pub open spec fn mod_upto(ents: Seq<(&PathBuf, &FileBlocks)>, e: int, j: int, p: PathBuf, name: Seq<char>) -> bool {
    exists|e2: int, j2: int| 0 <= e2 < ents.len() && (e2 < e || (e2 == e && j2 < j)) && *ents[e2].0 == p
        && 0 <= j2 < ents[e2].1.blocks_with_context@.len()
        && named_modified(#[trigger] ents[e2].1.blocks_with_context@[j2], name)
}

/// E4: whatever the order, once the entries are exhausted the index is exactly Mod
pub proof fn lemma_mod_upto_all(ctx: ValidationContext, ents: Seq<(&PathBuf, &FileBlocks)>, p: PathBuf, name: Seq<char>)
    requires ref_entries_of(ents, ctx.blocks@),
    ensures mod_upto(ents, ents.len() as int, 0, p, name) <==> in_mod(ctx, p, name),
{
    if mod_upto(ents, ents.len() as int, 0, p, name) {
        let (e2, j2) = choose|e2: int, j2: int| 0 <= e2 < ents.len() && (e2 < ents.len() || (e2 == ents.len() && j2 < 0)) && *ents[e2].0 == p
            && 0 <= j2 < ents[e2].1.blocks_with_context@.len()
            && named_modified(#[trigger] ents[e2].1.blocks_with_context@[j2], name);
        assert(ctx.blocks@.contains_key(*ents[e2].0) && ctx.blocks@[*ents[e2].0] == *ents[e2].1);
        assert(named_modified(ctx.blocks@[p].blocks_with_context@[j2], name));
    }
    if in_mod(ctx, p, name) {
        let j = choose|j: int| 0 <= j < ctx.blocks@[p].blocks_with_context@.len()
            && named_modified(#[trigger] ctx.blocks@[p].blocks_with_context@[j], name);
        let e = choose|e: int| 0 <= e < ents.len() && *(#[trigger] ents[e]).0 == p;
        assert(ctx.blocks@[*ents[e].0] == *ents[e].1);
        assert(named_modified(ents[e].1.blocks_with_context@[j], name));
    }
}

/// one more block indexed: position (e, j) -> (e, j + 1)
pub proof fn lemma_mod_step(ents: Seq<(&PathBuf, &FileBlocks)>, e: int, j: int)
    requires 0 <= e < ents.len(), 0 <= j < ents[e].1.blocks_with_context@.len(),
    ensures
        forall|p: PathBuf, name: Seq<char>| #[trigger] mod_upto(ents, e, j + 1, p, name)
            <==> (mod_upto(ents, e, j, p, name) || (p == *ents[e].0 && named_modified(ents[e].1.blocks_with_context@[j], name))),
{
    assert forall|p: PathBuf, name: Seq<char>| #[trigger] mod_upto(ents, e, j + 1, p, name)
        <==> (mod_upto(ents, e, j, p, name) || (p == *ents[e].0 && named_modified(ents[e].1.blocks_with_context@[j], name))) by {
        if mod_upto(ents, e, j, p, name) {
            let (e2, j2) = choose|e2: int, j2: int| 0 <= e2 < ents.len() && (e2 < e || (e2 == e && j2 < j)) && *ents[e2].0 == p
                && 0 <= j2 < ents[e2].1.blocks_with_context@.len() && named_modified(#[trigger] ents[e2].1.blocks_with_context@[j2], name);
            assert(named_modified(ents[e2].1.blocks_with_context@[j2], name) && (e2 < e || (e2 == e && j2 < j + 1)));
        }
        if p == *ents[e].0 && named_modified(ents[e].1.blocks_with_context@[j], name) {
            assert(named_modified(ents[e].1.blocks_with_context@[j], name) && (e < e || (e == e && j < j + 1)));
        }
    }
}

impl AffectsValidator {
#[verifier::loop_isolation(false)]
//@unit id=V6 file=src/validators/affects.rs fn=<<impl validators::ValidatorSync for AffectsValidator::validate>>
//@sig rule=E7 was=<<fn validate(&self, context: Arc<validators::ValidationContext>,) -> anyhow::Result<HashMap<PathBuf, Vec<Violation>>>>>
    fn validate(&self, context: Arc<ValidationContext>) -> (r: anyhow::Result<HashMap<PathBuf, Vec<Violation>>>)
//@contract
        ensures
            // C13: a reference without ':' on a MODIFIED block is an error, wherever the block sits
            has_malformed_reference(*context) ==> r is Err, // [V6.post.malformed_reference_is_err]
            // C01: per file, exactly one violation per unsatisfied reference of a modified block that
            // declares `affects`, none otherwise; stated on map views only (any iteration order, C20)
            r matches Ok(m) ==> v6_ok_post(*context, m@), // [V6.post.one_violation_per_unsatisfied_reference]
            // an error is not invented: it needs a modified block that declares `affects`
            r is Err ==> has_declaring_block(*context), // [V6.post.err_only_from_declaring_block]
//@edit rule=E19 find=<<let mut named_modified_blocks = HashMap::new()>>
let mut named_modified_blocks: HashMap<(PathBuf, String), Vec<&BlockWithContext>> = HashMap::new()
//@edit rule=E19 find=<<let mut violations = HashMap::new()>>
let mut violations: HashMap<PathBuf, Vec<Violation>> = HashMap::new()
//@edit rule=ghost before=<<let mut named_modified_blocks>>
        broadcast use affx::group_affx;
//@edit rule=E4 find=<<for (file_path, file_blocks) in &context.blocks>>
        let verif_ents1 = verif_ref_entries(&context.blocks);
        for (file_path, file_blocks) in it: verif_ents1
            invariant
                ref_entries_of(verif_ents1@, context.blocks@),
                forall|p: PathBuf, s: String| #[trigger] named_modified_blocks@.contains_key((p, s)) // [V6.inv1.index_is_mod_so_far]
                    <==> mod_upto(verif_ents1@, it.index@ as int, 0, p, s@),
//@foridx rule=E18 find=<<for block_with_context in &file_blocks.blocks_with_context>> idx=verif_j nth=0 of=2
                invariant
                    verif_j <= file_blocks.blocks_with_context@.len(),
                    0 <= it.index@ < verif_ents1@.len(),
                    verif_ents1@[it.index@ as int] == (file_path, file_blocks),
                    forall|p: PathBuf, s: String| #[trigger] named_modified_blocks@.contains_key((p, s)) // [V6.inv1b.index_is_mod_so_far]
                        <==> mod_upto(verif_ents1@, it.index@ as int, verif_j as int, p, s@),
                decreases file_blocks.blocks_with_context@.len() - verif_j,
//@edit rule=ghost after=<<verif_j = verif_j + 1;>>
                    proof {
                        lemma_mod_step(verif_ents1@, it.index@ as int, verif_j - 1);
                    }
//@edit rule=E5 find=<<$m.entry(($a.clone(), $b.to_string())).or_insert_with(Vec::new).push(>> count=all optional=1
verif_map_push_k(&mut $m, ($a.clone(), $b.to_string()),
//@edit rule=ghost before=<<for block_with_context in &file_blocks.blocks_with_context>> nth=0 of=1
            let ghost v0 = violations@;
            proof {
                assert(verif_ents2@[it2.index@ as int] == (modified_block_file_path, file_blocks));
                assert(!v0.contains_key(*modified_block_file_path)); // [V6.proof.each_file_visited_once]
            }
//@edit rule=E4 find=<<for (modified_block_file_path, file_blocks) in &context.blocks>>
        proof {
            assert forall|p: PathBuf, s: String| #[trigger] named_modified_blocks@.contains_key((p, s)) <==> in_mod(*context, p, s@) by {
                lemma_mod_upto_all(*context, verif_ents1@, p, s@);
            }
        }
        let verif_ents2 = verif_ref_entries(&context.blocks);
        for (modified_block_file_path, file_blocks) in it2: verif_ents2
            invariant
                ref_entries_of(verif_ents2@, context.blocks@),
                forall|p: PathBuf, s: String| #[trigger] named_modified_blocks@.contains_key((p, s)) <==> in_mod(*context, p, s@), // [V6.inv2.index_is_mod]
                forall|f: PathBuf| #[trigger] violations@.contains_key(f) ==> violations@[f]@.len() > 0 // [V6.inv2.only_visited_files]
                    && exists|e2: int| 0 <= e2 < it2.index@ && *(#[trigger] verif_ents2@[e2]).0 == f,
                forall|e2: int| 0 <= e2 < it2.index@ ==> list_ok(map_get_or_empty(violations@, *(#[trigger] verif_ents2@[e2]).0), // [V6.inv2.visited_files_done]
                    file_expected(*context, *verif_ents2@[e2].0, *verif_ents2@[e2].1, verif_ents2@[e2].1.blocks_with_context@.len() as int),
                    *verif_ents2@[e2].0, *verif_ents2@[e2].1),
                forall|e2: int, j2: int| 0 <= e2 < it2.index@ && 0 <= j2 < verif_ents2@[e2].1.blocks_with_context@.len() // [V6.inv2.visited_blocks_well_formed]
                    && declares_affects(#[trigger] verif_ents2@[e2].1.blocks_with_context@[j2])
                    ==> !refs_malformed(affects_value(verif_ents2@[e2].1.blocks_with_context@[j2])),
//@foridx rule=E18 find=<<for block_with_context in &file_blocks.blocks_with_context>> idx=verif_k nth=0 of=1
                invariant
                    verif_k <= file_blocks.blocks_with_context@.len(),
                    0 <= it2.index@ < verif_ents2@.len(),
                    verif_ents2@[it2.index@ as int] == (modified_block_file_path, file_blocks),
                    !v0.contains_key(*modified_block_file_path),
                    forall|k2: PathBuf| k2 != *modified_block_file_path ==> (violations@.contains_key(k2) <==> #[trigger] v0.contains_key(k2)), // [V6.inv2b.other_files_untouched]
                    forall|k2: PathBuf| k2 != *modified_block_file_path && #[trigger] v0.contains_key(k2) ==> violations@[k2] == v0[k2],
                    violations@.contains_key(*modified_block_file_path) ==> violations@[*modified_block_file_path]@.len() > 0,
                    list_ok(map_get_or_empty(violations@, *modified_block_file_path), // [V6.inv2b.file_list_is_expected_so_far]
                        file_expected(*context, *modified_block_file_path, *file_blocks, verif_k as int), *modified_block_file_path, *file_blocks),
                    forall|j2: int| 0 <= j2 < verif_k && declares_affects(#[trigger] file_blocks.blocks_with_context@[j2]) // [V6.inv2b.blocks_well_formed_so_far]
                        ==> !refs_malformed(affects_value(file_blocks.blocks_with_context@[j2])),
                decreases file_blocks.blocks_with_context@.len() - verif_k,
//@edit rule=ghost after=<<verif_k = verif_k + 1;>>
                    proof {
                        let j = verif_k - 1;
                        assert(*block_with_context == file_blocks.blocks_with_context@[j]);
                        assert(context.blocks@[*modified_block_file_path] == *file_blocks);
                        assert(!declares_affects(file_blocks.blocks_with_context@[j]) ==>
                            file_expected(*context, *modified_block_file_path, *file_blocks, j + 1) =~= file_expected(*context, *modified_block_file_path, *file_blocks, j));
                    }
//@edit rule=E15 find=<<for (affected_file_path, affected_block_name) in affected_blocks>>
                    proof {
                        assert(declares_affects(*block_with_context)); // [V6.proof.parsed_block_declares_affects]
                        assert(affects@ == affects_value(*block_with_context));
                        assert(!refs_malformed(affects@)); // [V6.proof.parsed_means_well_formed]
                        assert(block_expected(*context, *modified_block_file_path, *file_blocks, verif_k - 1, 0) =~= Seq::<(int, int)>::empty());
                        assert(file_expected(*context, *modified_block_file_path, *file_blocks, verif_k - 1) + Seq::<(int, int)>::empty()
                            =~= file_expected(*context, *modified_block_file_path, *file_blocks, verif_k - 1));
                    }
                    for (affected_file_path, affected_block_name) in it3: affected_blocks
                        invariant
                            refs_are(affects@, affected_blocks@),
                            forall|k2: PathBuf| k2 != *modified_block_file_path ==> (violations@.contains_key(k2) <==> #[trigger] v0.contains_key(k2)), // [V6.inv2c.other_files_untouched]
                            forall|k2: PathBuf| k2 != *modified_block_file_path && #[trigger] v0.contains_key(k2) ==> violations@[k2] == v0[k2],
                            violations@.contains_key(*modified_block_file_path) ==> violations@[*modified_block_file_path]@.len() > 0,
                            list_ok(map_get_or_empty(violations@, *modified_block_file_path), // [V6.inv2c.file_list_is_expected_so_far]
                                file_expected(*context, *modified_block_file_path, *file_blocks, verif_k - 1)
                                    + block_expected(*context, *modified_block_file_path, *file_blocks, verif_k - 1, it3.index@ as int),
                                *modified_block_file_path, *file_blocks),
//@closure rule=E12 find=<<||>> params=<<||>> ret=<<dflt: PathBuf>>
                            ensures dflt == *modified_block_file_path
//@edit rule=E5 find=<<$m.entry($k.clone()).or_insert_with(Vec::new).push(>> count=all optional=1
verif_map_push_k(&mut $m, $k.clone(),
//@edit rule=ghost before=<<} Ok(violations)>>
            proof {
                assert forall|f: PathBuf| #[trigger] violations@.contains_key(f) implies
                    exists|e2: int| 0 <= e2 < it2.index@ + 1 && *(#[trigger] verif_ents2@[e2]).0 == f by {
                    if f == *modified_block_file_path {
                        assert(*verif_ents2@[it2.index@ as int].0 == f);
                    } else {
                        assert(v0.contains_key(f));
                    }
                }
            }
//@edit rule=ghost before=<<Ok(violations)>>
        proof {
            assert(v6_ok_post(*context, violations@)); // [V6.proof.all_files_visited]
            assert(!has_malformed_reference(*context)); // [V6.proof.all_blocks_visited_none_malformed]
        }
//@end
}

} // verus!
fn main() {}
