// Group `affects`: unit V6 of the design — the drift rule `affects="file:name, :name"`.
//   V6p  `parse_affects_attribute`            the references of one attribute value (C01, C13)
//   V6c  `create_violation` (affects.rs)      the diagnostic: start-tag range, code, payload (C10, C13)
//   V6d  `AffectsValidatorDetector::detect`   fires iff content modified and `affects` present (C01)
//   V6   `AffectsValidator::validate`         one violation per unsatisfied reference (C01, C13, C20)
// plus `Block::name` (V6n) and `AffectsValidator::new` (V6new), which V6 / V6d call.
use vstd::prelude::*;
use std::cmp::Ordering;
use std::collections::{HashMap, HashSet};
use std::ops::{Range, RangeInclusive};
use std::path::{Path, PathBuf};
use std::sync::Arc;

//@include prelude/anyhow.rs
//@include prelude/tstr_mod.rs
//@include prelude/regex.rs

verus! {

//@include prelude/std_range.rs
//@include prelude/strings.rs
//@include prelude/domain.rs
//@include prelude/block_fns.rs
//@include prelude/aff_strings.rs

// ---- specification of one reference list (from properties C01 / C13) ---------------------------------
/// the first ':' of `t` is at char index `i`
pub open spec fn first_colon_at(t: Seq<char>, i: int) -> bool {
    0 <= i < t.len() && t[i] == ':' && forall|j: int| 0 <= j < i ==> #[trigger] t[j] != ':'
}

/// One reference `file:name` / `:name`. The piece is trimmed; without a ':' it is malformed (None);
/// otherwise: (None if the trimmed text before the FIRST ':' is empty, else the path of that text;
/// the trimmed text after the first ':').
pub open spec fn ref_of_piece(piece: Seq<char>) -> Option<(Option<PathBuf>, Seq<char>)> {
    let t = trim_spec(piece);
    if !t.contains(':') {
        None
    } else {
        let i = choose|i: int| first_colon_at(t, i);
        let f = trim_spec(t.subrange(0, i));
        let n = trim_spec(t.subrange(i + 1, t.len() as int));
        Some((if f.len() == 0 { None } else { Some(path_of(f)) }, n))
    }
}

/// C13: "an `affects` reference without a colon"
pub open spec fn refs_malformed(value: Seq<char>) -> bool {
    exists|k: int| 0 <= k < split_comma_spec(value).len() && (#[trigger] ref_of_piece(split_comma_spec(value)[k])) is None
}

/// `refs` is the parsed form of `value`: one entry per comma-separated piece, in order
pub open spec fn refs_are(value: Seq<char>, refs: Seq<(Option<PathBuf>, String)>) -> bool {
    &&& refs.len() == split_comma_spec(value).len()
    &&& forall|k: int| 0 <= k < refs.len() ==> {
            &&& (#[trigger] ref_of_piece(split_comma_spec(value)[k])) is Some
            &&& refs[k].0 == ref_of_piece(split_comma_spec(value)[k]).unwrap().0
            &&& refs[k].1@ == ref_of_piece(split_comma_spec(value)[k]).unwrap().1
        }
}

/// `split_once(":")` on `t` in the terms of `ref_of_piece`
pub proof fn lemma_split_once_colon(t: Seq<char>)
    ensures
        split_once_spec(t, ":"@) is None <==> !t.contains(':'),
        split_once_spec(t, ":"@) matches Some(p) ==> {
            let i = choose|i: int| first_colon_at(t, i);
            first_colon_at(t, i) && p.0 == t.subrange(0, i) && p.1 == t.subrange(i + 1, t.len() as int)
        },
{
    reveal_strlit(":");
    let p = ":"@;
    assert(p =~= seq![':']);
    assert forall|i: int| #[trigger] occurs_at(t, p, i) <==> (0 <= i < t.len() && t[i] == ':') by {
        lemma_occurs_at_char(t, ':', i);
    }
    lemma_split_once_spec(t, p);
    if t.contains(':') {
        let idx = choose|idx: int| 0 <= idx < t.len() && t[idx] == ':';
        assert(occurs_at(t, p, idx));
        lemma_first_occurrence_exists(t, p, idx);
        let k = choose|k: int| 0 <= k <= idx && #[trigger] first_occurrence(t, p, k);
        assert forall|j: int| 0 <= j < k implies #[trigger] t[j] != ':' by {
            assert(!occurs_at(t, p, j));
        }
        assert(first_colon_at(t, k));
        let i = choose|i: int| first_colon_at(t, i);
        assert(first_colon_at(t, i));
        assert forall|j: int| 0 <= j < i implies !#[trigger] occurs_at(t, p, j) by {
            assert(t[j] != ':');
        }
        assert(first_occurrence(t, p, i));
    } else {
        assert forall|i: int| !#[trigger] occurs_at(t, p, i) by {
            if 0 <= i < t.len() && t[i] == ':' {
                assert(t.contains(':'));
            }
        }
    }
}

//@unit id=V6p file=src/validators/affects.rs fn=parse_affects_attribute ret=r
//@contract
    ensures
        // C13: Err iff SOME piece, trimmed, contains no ':'
        r is Err <==> refs_malformed(value@), // [V6p.post.no_colon_is_err]
        // otherwise one entry per piece, in order
        r matches Ok(v) ==> refs_are(value@, v@), // [V6p.post.one_entry_per_piece_in_order]
//@edit rule=E19 find=<<let mut result = Vec::new()>>
let mut result: Vec<(Option<PathBuf>, String)> = Vec::new()
//@edit rule=E13 find=<<for $x in $v.split(',')>>
    let ghost pieces = split_comma_spec($v@);
    let verif_pieces = verif_split_char($v, ',');
    for $x in it: verif_pieces
        invariant
            pieces == split_comma_spec($v@),
            verif_pieces@.len() == pieces.len(),
            forall|i: int| 0 <= i < verif_pieces@.len() ==> (#[trigger] verif_pieces@[i])@ == pieces[i],
            result@.len() == it.index@, // [V6p.inv.one_entry_per_piece_so_far]
            forall|k: int| 0 <= k < it.index@ ==> { // [V6p.inv.entries_are_the_references]
                &&& (#[trigger] ref_of_piece(pieces[k])) is Some
                &&& result@[k].0 == ref_of_piece(pieces[k]).unwrap().0
                &&& result@[k].1@ == ref_of_piece(pieces[k]).unwrap().1
            },
//@chain rule=E13 find=<<.split_once(>> to=verif_split_once_str argkind=str count=all optional=1
//@chain rule=E13 find=<<.rsplit_once(>> to=verif_rsplit_once_str argkind=str count=all optional=1
//@macro rule=E1 name=format to=<<verif_message()>> optional=1
//@chain rule=E1 find=<<.context(>> to=verif_opt_context count=all optional=1
//@edit rule=E13 find=<<$a.into()>> count=all optional=1
verif_str_into_pathbuf($a)
//@edit rule=ghost before=<<let (mut filename, block_name)>>
        proof {
            assert(block@ == trim_spec(pieces[it.index@ as int]));
            lemma_split_once_colon(trim_spec(pieces[it.index@]));
            assert(split_once_spec(block@, ":"@) is None ==> ref_of_piece(pieces[it.index@]) is None); // [V6p.assert.no_colon_piece_is_malformed]
        }
//@end

} // verus!
fn main() {}
