// Group `affects`: unit V6 of the design — the drift rule `affects="file:name, :name"`.
//   V6p  `parse_affects_attribute`            the references of one attribute value (C01, C13)
//   V6c  `create_violation` (affects.rs)      the diagnostic: start-tag range, code, payload (C10, C13)
//   V6d  `AffectsValidatorDetector::detect`   fires iff content modified and `affects` present (C01)
//   V6   `AffectsValidator::validate`         one violation per unsatisfied reference (C01, C13, C20)
// plus `Block::name` (V6n) and `AffectsValidator::new` (V6new), which V6 / V6d call.
use vstd::prelude::*;
use std::cmp::Ordering;
use std::collections::{HashMap, HashSet};
use std::ops::{Range, RangeInclusive};
use std::path::{Path, PathBuf};
use std::sync::Arc;

//@include prelude/anyhow.rs
//@include prelude/tstr_mod.rs
//@include prelude/regex.rs

verus! {

//@include prelude/std_range.rs
//@include prelude/strings.rs
//@include prelude/domain.rs
//@include prelude/block_fns.rs
//@include prelude/aff_strings.rs

// ---- specification of one reference list (from properties C01 / C13) ---------------------------------
/// the first ':' of `t` is at char index `i`
pub open spec fn first_colon_at(t: Seq<char>, i: int) -> bool {
    0 <= i < t.len() && t[i] == ':' && forall|j: int| 0 <= j < i ==> #[trigger] t[j] != ':'
}

/// One reference `file:name` / `:name`. The piece is trimmed; without a ':' it is malformed (None);
/// otherwise: (None if the trimmed text before the FIRST ':' is empty, else the path of that text;
/// the trimmed text after the first ':').
pub open spec fn ref_of_piece(piece: Seq<char>) -> Option<(Option<PathBuf>, Seq<char>)> {
    let t = trim_spec(piece);
    if !t.contains(':') {
        None
    } else {
        let i = choose|i: int| first_colon_at(t, i);
        let f = trim_spec(t.subrange(0, i));
        let n = trim_spec(t.subrange(i + 1, t.len() as int));
        Some((if f.len() == 0 { None } else { Some(path_of(f)) }, n))
    }
}

/// C13: "an `affects` reference without a colon"
pub open spec fn refs_malformed(value: Seq<char>) -> bool {
    exists|k: int| 0 <= k < split_comma_spec(value).len() && (#[trigger] ref_of_piece(split_comma_spec(value)[k])) is None
}

/// `refs` is the parsed form of `value`: one entry per comma-separated piece, in order
pub open spec fn refs_are(value: Seq<char>, refs: Seq<(Option<PathBuf>, String)>) -> bool {
    &&& refs.len() == split_comma_spec(value).len()
    &&& forall|k: int| 0 <= k < refs.len() ==> {
            &&& (#[trigger] ref_of_piece(split_comma_spec(value)[k])) is Some
            &&& refs[k].0 == ref_of_piece(split_comma_spec(value)[k]).unwrap().0
            &&& refs[k].1@ == ref_of_piece(split_comma_spec(value)[k]).unwrap().1
        }
}

/// `split_once(":")` on `t` in the terms of `ref_of_piece`
pub proof fn lemma_split_once_colon(t: Seq<char>)
    ensures
        split_once_spec(t, ":"@) is None <==> !t.contains(':'),
        split_once_spec(t, ":"@) matches Some(p) ==> {
            let i = choose|i: int| first_colon_at(t, i);
            first_colon_at(t, i) && p.0 == t.subrange(0, i) && p.1 == t.subrange(i + 1, t.len() as int)
        },
{
    reveal_strlit(":");
    let p = ":"@;
    assert(p =~= seq![':']);
    assert forall|i: int| #[trigger] occurs_at(t, p, i) <==> (0 <= i < t.len() && t[i] == ':') by {
        lemma_occurs_at_char(t, ':', i);
    }
    lemma_split_once_spec(t, p);
    if t.contains(':') {
        let idx = choose|idx: int| 0 <= idx < t.len() && t[idx] == ':';
        assert(occurs_at(t, p, idx));
        lemma_first_occurrence_exists(t, p, idx);
        let k = choose|k: int| 0 <= k <= idx && #[trigger] first_occurrence(t, p, k);
        assert forall|j: int| 0 <= j < k implies #[trigger] t[j] != ':' by {
            assert(!occurs_at(t, p, j));
        }
        assert(first_colon_at(t, k));
        let i = choose|i: int| first_colon_at(t, i);
        assert(first_colon_at(t, i));
        assert forall|j: int| 0 <= j < i implies !#[trigger] occurs_at(t, p, j) by {
            assert(t[j] != ':');
        }
        assert(first_occurrence(t, p, i));
    } else {
        assert forall|i: int| !#[trigger] occurs_at(t, p, i) by {
            if 0 <= i < t.len() && t[i] == ':' {
                assert(t.contains(':'));
            }
        }
    }
}

//@unit id=V6p file=src/validators/affects.rs fn=parse_affects_attribute ret=r
//@contract
    ensures
        // C13: Err iff SOME piece, trimmed, contains no ':'
        r is Err <==> refs_malformed(value@), // [V6p.post.no_colon_is_err]
        // otherwise one entry per piece, in order
        r matches Ok(v) ==> refs_are(value@, v@), // [V6p.post.one_entry_per_piece_in_order]
//@edit rule=E19 find=<<let mut result = Vec::new()>>
let mut result: Vec<(Option<PathBuf>, String)> = Vec::new()
//@edit rule=E13 find=<<for $x in $v.split(',')>>
    let ghost pieces = split_comma_spec($v@);
    let verif_pieces = verif_split_char($v, ',');
    for $x in it: verif_pieces
        invariant
            pieces == split_comma_spec($v@),
            verif_pieces@.len() == pieces.len(),
            forall|i: int| 0 <= i < verif_pieces@.len() ==> (#[trigger] verif_pieces@[i])@ == pieces[i],
            result@.len() == it.index@, // [V6p.inv.one_entry_per_piece_so_far]
            forall|k: int| 0 <= k < it.index@ ==> { // [V6p.inv.entries_are_the_references]
                &&& (#[trigger] ref_of_piece(pieces[k])) is Some
                &&& result@[k].0 == ref_of_piece(pieces[k]).unwrap().0
                &&& result@[k].1@ == ref_of_piece(pieces[k]).unwrap().1
            },
//@chain rule=E13 find=<<.split_once(>> to=verif_split_once_str argkind=str count=all optional=1
//@chain rule=E13 find=<<.rsplit_once(>> to=verif_rsplit_once_str argkind=str count=all optional=1
//@macro rule=E1 name=format to=<<verif_message()>> optional=1
//@chain rule=E1 find=<<.context(>> to=verif_opt_context count=all optional=1
//@edit rule=E13 find=<<$a.into()>> count=all optional=1
verif_str_into_pathbuf($a)
//@edit rule=ghost before=<<let (mut filename, block_name)>>
        proof {
            assert(block@ == trim_spec(pieces[it.index@ as int]));
            lemma_split_once_colon(trim_spec(pieces[it.index@]));
            assert(split_once_spec(block@, ":"@) is None ==> ref_of_piece(pieces[it.index@]) is None); // [V6p.assert.no_colon_piece_is_malformed]
        }
//@end

// ---- types of src/validators/affects.rs and what they mention ------------------------------------------
//@item file=src/validators/mod.rs kind=struct name=ValidationContext
//@item file=src/validators/affects.rs kind=struct name=AffectsValidator
//@item file=src/validators/affects.rs kind=struct name=AffectsViolation
//@item file=src/validators/affects.rs kind=struct name=AffectsValidatorDetector

// T-dyn stand-ins: the two validator traits only occur as `Box<dyn ..>` inside `ValidatorType` here
// (V6d builds `ValidatorType::Sync(Box::new(AffectsValidator::new()))`); their methods are not called.
pub trait ValidatorSync {}
pub trait ValidatorAsync {}
impl ValidatorSync for AffectsValidator {}
//@item file=src/validators/mod.rs kind=enum name=ValidatorType

impl Block {
//@unit id=V6n file=src/blocks.rs fn=<<impl Block::name>> ret=r
//@contract
        ensures opt_view(r) == attr_view(self.attributes@, "name"@), // [V6n.post.name_is_name_attribute]
//@chain rule=E13 find=<<.map(String::as_str)>> to=verif_opt_as_str
//@end
}

impl AffectsValidator {
//@unit id=V6new file=src/validators/affects.rs fn=<<impl AffectsValidator::new>> ret=r
//@end
}

// ---- V6c: the diagnostic ---------------------------------------------------------------------------------
/// C10: "for drift ... violations the range spans exactly the block's start tag, from its `<` to its `>`";
/// code "affects"; severity of the modified block; the payload names the reference that is not modified.
pub open spec fn affects_violation_ok(v: Violation, b: Block, affected_file: &Path, affected_name: Seq<char>) -> bool {
    &&& v.range.start == b.start_tag_position_range@.start
    &&& v.range.end == b.start_tag_position_range@.end
    &&& v.code@ == "affects"@
    &&& Ok::<BlockSeverity, anyhow::Error>(v.severity) == severity_spec(b)
    &&& exists|d: serde_json::Value, payload: AffectsViolation| v.data == Some(d) && #[trigger] serde_json::value_encodes(d, payload)
            && payload.affected_block_file_path == affected_file && payload.affected_block_name@ == affected_name
}

//@unit id=V6c file=src/validators/affects.rs fn=create_violation ret=r
//@contract
    ensures
        r matches Ok(v) ==> v.range.start == modified_block.start_tag_position_range@.start // [V6c.post.range_is_start_tag]
            && v.range.end == modified_block.start_tag_position_range@.end,
        r matches Ok(v) ==> v.code@ == "affects"@ && Ok::<BlockSeverity, anyhow::Error>(v.severity) == severity_spec(*modified_block), // [V6c.post.code_and_severity]
        r matches Ok(v) ==> affects_violation_ok(v, *modified_block, affected_block_file_path, affected_block_name@), // [V6c.post.payload]
        severity_spec(*modified_block) is Err ==> r is Err, // [V6c.post.bad_severity_is_err]
//@macro rule=E1 name=format to=<<verif_message()>>
//@dropcall rule=E1 name=context optional=1
//@edit rule=E2 find=<<serde_json::to_value(>>
verif_to_value(
//@end

// ---- V6d: the detector -----------------------------------------------------------------------------------
impl AffectsValidatorDetector {
//@unit id=V6d file=src/validators/affects.rs fn=<<impl validators::ValidatorDetector for AffectsValidatorDetector::detect>>
//@sig rule=E7 was=<<fn detect(&self, block_with_context: &BlockWithContext,) -> anyhow::Result<Option<ValidatorType>>>>
    fn detect(&self, block_with_context: &BlockWithContext) -> (r: anyhow::Result<Option<ValidatorType>>)
//@contract
        ensures
            r is Ok, // [V6d.post.never_err]
            r matches Ok(o) ==> (o is Some <==> (block_with_context.is_content_modified // [V6d.post.fires_iff_modified_and_affects]
                && attr_view(block_with_context.block.attributes@, "affects"@) is Some)),
            r matches Ok(Some(t)) ==> t is Sync, // [V6d.post.sync_validator]
//@end
}

} // verus!
fn main() {}
