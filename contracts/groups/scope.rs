// Group `scope`: which paths are in scope (property C15) — PathCheckerImpl (allow = positional
// globs, ignore = --ignore globs) and the scoping statements of main.
// Glob semantics itself (globset) is uninterpreted: the contracts say that allow/ignore are exactly
// one match of the *repository-relative path* against the respective set, nothing more, nothing less.
use vstd::prelude::*;
use std::path::{Path, PathBuf};

//@include prelude/anyhow.rs

mod globset {
    use vstd::prelude::*;
    use std::path::Path;
    verus! {
    #[verifier::external_body]
    pub struct GlobSet { _p: u8 }

    /// what a value of any `AsRef<Path>` type denotes as a path text
    pub uninterp spec fn as_path_spec<P>(p: P) -> Seq<char>;
    /// globset's matching relation (uninterpreted: T-ext)
    pub uninterp spec fn glob_matches(set: GlobSet, path: Seq<char>) -> bool;
    pub uninterp spec fn glob_count(set: GlobSet) -> nat;

    impl GlobSet {
        #[verifier::external_body]
        #[verifier::allow(undeclared_external_trait)]
        pub fn is_match<P: AsRef<Path>>(&self, path: P) -> (r: bool)
            ensures r == glob_matches(*self, as_path_spec(path))
        { unimplemented!() }

        #[verifier::external_body]
        pub fn is_empty(&self) -> (r: bool)
            ensures r == (glob_count(*self) == 0)
        { unimplemented!() }

        #[verifier::external_body]
        pub fn len(&self) -> (r: usize)
            ensures r == glob_count(*self)
        { unimplemented!() }
    }
    }
}
use globset::GlobSet;

verus! {

#[verifier::external_type_specification]
#[verifier::external_body]
pub struct ExPath(Path);

#[verifier::external_type_specification]
#[verifier::external_body]
pub struct ExPathBuf(PathBuf);

#[verifier::external_type_specification]
#[verifier::external_body]
pub struct ExOsStr(std::ffi::OsStr);

/// T-std: `Path::file_name` — the last component, if any (its meaning is not needed: it is
/// specified only so that code calling it stays inside the verifier's subset)
pub uninterp spec fn file_name_spec(p: &Path) -> Option<&std::ffi::OsStr>;
pub assume_specification<'a>[ Path::file_name ](p: &'a Path) -> (r: Option<&'a std::ffi::OsStr>)
    ensures r == file_name_spec(p);

pub assume_specification<T, F: FnOnce(T) -> bool>[ Option::<T>::is_some_and ](o: Option<T>, f: F) -> (r: bool)
    requires o matches Some(x) ==> call_requires(f, (x,)),
    ensures (o matches Some(x) ==> call_ensures(f, (x,), r)), (o is None ==> !r);

//@item file=src/blocks.rs kind=struct name=PathCheckerImpl

impl PathCheckerImpl {

//@unit id=PCn file=src/blocks.rs fn=<<impl PathCheckerImpl::new>> ret=r
//@contract
        ensures r.glob_set == glob_set, r.ignored_glob_set == ignored_glob_set, // [PCn.post.fields]
//@end

// C15: "every file ... that matches a positional glob"
//@unit id=PCa file=src/blocks.rs fn=<<impl PathChecker for PathCheckerImpl::should_allow>> ret=r
//@contract
        ensures r == globset::glob_matches(self.glob_set, globset::as_path_spec(path)), // [PCa.post.allow_is_positional_glob_match_of_the_path]
//@end

// C15: "minus anything matching an --ignore glob" — the repository-relative path, as git wrote it
//@unit id=PCi file=src/blocks.rs fn=<<impl PathChecker for PathCheckerImpl::should_ignore>> ret=r
//@contract
        ensures r == globset::glob_matches(self.ignored_glob_set, globset::as_path_spec(path)), // [PCi.post.ignore_is_ignore_glob_match_of_the_path]
//@end

}

} // verus!
fn main() {}
