// Group `flagsparse`: `parse_extensions` (src/flags.rs), clap's value parser of `-E KEY=VALUE`
// (property C16: "the grammar a -E ext=known mapping assigns"): the pair is exactly the text
// before / after the first '=', trimmed — in particular the key's letter case is preserved, because
// the map is later looked up with the file's own extension.
use vstd::prelude::*;

//@include prelude/mainw_anyhow.rs
//@include prelude/tstr_mod.rs
use anyhow::Context;

verus! {

//@include prelude/strings.rs

/// split at the first occurrence of `c`
pub open spec fn first_at(t: Seq<char>, c: char, i: int) -> bool {
    0 <= i < t.len() && t[i] == c && forall|j: int| 0 <= j < i ==> #[trigger] t[j] != c
}

/// E13: `s.split_once(c)` for a char pattern; body is the identical std call
#[verifier::external_body]
pub fn verif_split_once_char<'a>(s: &'a str, c: char) -> (r: Option<(&'a str, &'a str)>)
    ensures
        r is None <==> !s@.contains(c),
        r matches Some(p) ==> exists|i: int| #[trigger] first_at(s@, c, i) && p.0@ == s@.subrange(0, i) && p.1@ == s@.subrange(i + 1, s@.len() as int),
{ s.split_once(c) }

/// rule E1
#[verifier::external_body]
pub fn verif_message() -> String { String::new() }

//@unit id=A0 file=src/flags.rs fn=parse_extensions ret=r
//@contract
    ensures
        r is Err <==> !s@.contains('='), // [A0.post.no_equals_sign_is_err]
        r matches Ok(p) ==> exists|i: int| #[trigger] first_at(s@, '=', i) // [A0.post.key_and_value_as_written]
            && p.0@ == trim_spec(s@.subrange(0, i)) && p.1@ == trim_spec(s@.subrange(i + 1, s@.len() as int)),
//@macro rule=E1 name=format to=<<verif_message()>>
//@chain rule=E13 find=<<.split_once(>> to=verif_split_once_char argkind=char
//@closure rule=E12 find=<<|(key, value)|>> params=<<|kv: (&str, &str)|>> ret=<<res: (String, String)>> bodyprefix=<<let (key, value) = kv;>>
        ensures res.0@ == trim_spec(kv.0@), res.1@ == trim_spec(kv.1@) // [A0.closure.key_and_value_trimmed_as_written]
//@end

} // verus!
fn main() {}
