// Group `normalise`: src/language_parsers/mod.rs — the comment normalisers ("delimiter blanking").
// Units (bodies are the real text of /repo):
//   N1  c_style_multiline_comment_processor (whole function)
//   N2  c_style_comments_parser closure: `comment.replacen("//", "  ", 1)` (slice)
//   N3  c_style_line_and_block_comments_parser closure: `source_code[..].replacen("//", "  ", 1)` (slice)
//   N4  python_style_comments_parser closure: `source_code[..].replacen("#", " ", 1)` (slice)
//   N5  xml_style_comments_parser closure: `<!--` / `-->` blanking (slice)
// Property-level fact (DESIGN section 5, T-ext; C03 "comment text [...] same byte length as the
// source range, so tag offsets map back to source positions"): the normalised text has the SAME BYTE
// LENGTH as the comment's source text, every '\n' stays at its byte offset, and every byte that is
// not part of a comment delimiter or a decorative leading `*` is unchanged.
// C04: the `expect(..)` / slicing panic sites become PRECONDITIONS (what tree-sitter must deliver).
// Trusted: see normalise.notes.md.
use vstd::prelude::*;
use vstd::utf8::*;
use vstd::string::*;
use vstd::std_specs::char::is_white_space;
use std::ops::Range;

//@include prelude/tstr_mod.rs
//@include prelude/tagnorm_auto.rs

verus! {

// `axiom_blen` of prelude/tstr_mod.rs (a str is at most isize::MAX bytes long), proved UTF-8 facts
broadcast use {tstr::group_tstr, tagnorm_auto::group_tagnorm_auto};

//@include prelude/tagnorm_bytes.rs
//@include prelude/tagnorm_norm.rs

// ---------------------------------------------------------------------------------------------
// Specification (bytes of the UTF-8 encoding; offsets are what tags and positions are measured in).

pub open spec fn b_open() -> Seq<u8> { seq![0x2fu8, 0x2au8] }   // "/*"
pub open spec fn b_close() -> Seq<u8> { seq![0x2au8, 0x2fu8] }  // "*/"
pub open spec fn sp(n: nat) -> Seq<u8> { Seq::new(n, |i: int| 0x20u8) }

/// first / last occurrence of a byte string
pub open spec fn first_occ(b: Seq<u8>, p: int, pat: Seq<u8>) -> bool {
    occurs_at(b, p, pat) && forall|q: int| 0 <= q < p ==> !#[trigger] occurs_at(b, q, pat)
}
pub open spec fn last_occ(b: Seq<u8>, p: int, pat: Seq<u8>) -> bool {
    occurs_at(b, p, pat) && forall|q: int| p < q ==> !#[trigger] occurs_at(b, q, pat)
}

/// the predicate of the real closure `|c: char| !c.is_whitespace()` (vstd's `char::is_whitespace`)
pub open spec fn not_ws() -> spec_fn(char) -> bool { |c: char| !is_white_space(c) }

/// Decorative-star rule (code comment "Replace '*' with a space"; README): on a line, if the FIRST
/// NON-WHITESPACE character is `*`, that one byte becomes a space; everything else stays.
pub open spec fn norm_line(l: Seq<char>) -> Seq<u8> {
    match find_pred_spec(l, not_ws()) {
        Some(p) => if p < utf8(l).len() && utf8(l)[p as int] == 0x2au8 { utf8(l).update(p as int, 0x20u8) } else { utf8(l) },
        None => utf8(l),
    }
}

/// the first `k` lines, normalised, one after the other
pub open spec fn norm_flat(ls: Seq<Seq<char>>, k: int) -> Seq<u8>
    decreases k
{
    if k <= 0 { Seq::<u8>::empty() } else { norm_flat(ls, k - 1) + norm_line(ls[k - 1]) }
}

/// `out` differs from `inp` only where a `*` became a space
pub open spec fn only_stars_blanked(inp: Seq<u8>, out: Seq<u8>) -> bool {
    &&& out.len() == inp.len()
    &&& forall|i: int| 0 <= i < inp.len() ==> #[trigger] out[i] == inp[i] || (inp[i] == 0x2au8 && out[i] == 0x20u8)
}

/// normalising the lines keeps the length and changes nothing but `*` -> ` ` (proved)
pub proof fn lemma_norm_flat(ls: Seq<Seq<char>>, k: int)
    requires 0 <= k <= ls.len()
    ensures only_stars_blanked(flat_bytes(ls, k), norm_flat(ls, k))
    decreases k
{
    if k > 0 {
        lemma_norm_flat(ls, k - 1);
        let a = flat_bytes(ls, k - 1);
        let b = norm_flat(ls, k - 1);
        let l = utf8(ls[k - 1]);
        let m = norm_line(ls[k - 1]);
        assert(m.len() == l.len());
        assert forall|i: int| 0 <= i < (a + l).len() implies #[trigger] (b + m)[i] == (a + l)[i] || ((a + l)[i] == 0x2au8 && (b + m)[i] == 0x20u8) by {
            if i < a.len() {
                assert((b + m)[i] == b[i] && (a + l)[i] == a[i]);
            } else {
                assert((b + m)[i] == m[i - a.len()] && (a + l)[i] == l[i - a.len()]);
            }
        }
    }
}

/// What N1 returns when both delimiters are there (first "/*" at `o`, last "*/" at `c`, `o + 2 <= c`):
/// text before "/*", two spaces, the content with every line normalised, two spaces, text after "*/".
pub open spec fn n1_result(t: Seq<char>, o: int, c: int) -> Seq<u8> {
    let b = utf8(t);
    let lines = split_inclusive_spec(decode_utf8(b.subrange(o + 2, c)), '\n');
    b.subrange(0, o) + sp(2) + norm_flat(lines, lines.len() as int) + sp(2) + b.subrange(c + 2, b.len() as int)
}

/// ... and when there is no closing delimiter after the opening one (unterminated comment, or `/*/`):
/// the content runs to the end of the text and nothing is blanked at the end.
pub open spec fn n1_result_unterminated(t: Seq<char>, o: int) -> Seq<u8> {
    let b = utf8(t);
    let lines = split_inclusive_spec(decode_utf8(b.subrange(o + 2, b.len() as int)), '\n');
    b.subrange(0, o) + sp(2) + norm_flat(lines, lines.len() as int)
}

/// no "*/" at or after `o + 2` (the last "*/", if any, overlaps the opening delimiter or precedes it)
pub open spec fn no_close_after(b: Seq<u8>, o: int) -> bool {
    forall|c: int| #[trigger] last_occ(b, c, b_close()) ==> c < o + 2
}

/// The property-level fact (T-ext): same length, newlines in place, only delimiters and `*` touched.
pub open spec fn n1_frame(inp: Seq<u8>, out: Seq<u8>, o: int, c: int) -> bool {
    &&& out.len() == inp.len()
    &&& forall|i: int| 0 <= i < inp.len() ==> (#[trigger] out[i] == 0x0au8) == (inp[i] == 0x0au8)
    &&& forall|i: int| 0 <= i < inp.len() && i != o && i != o + 1 && i != c && i != c + 1 ==>
            #[trigger] out[i] == inp[i] || (o + 2 <= i < c && inp[i] == 0x2au8 && out[i] == 0x20u8)
    &&& out[o] == 0x20u8 && out[o + 1] == 0x20u8 && out[c] == 0x20u8 && out[c + 1] == 0x20u8
}

/// same for an unterminated comment: only the opening delimiter and `*` after it are touched
pub open spec fn n1_frame_unterminated(inp: Seq<u8>, out: Seq<u8>, o: int) -> bool {
    &&& out.len() == inp.len()
    &&& forall|i: int| 0 <= i < inp.len() && i != o && i != o + 1 ==>
            #[trigger] out[i] == inp[i] || (o + 2 <= i && inp[i] == 0x2au8 && out[i] == 0x20u8)
    &&& out[o] == 0x20u8 && out[o + 1] == 0x20u8
}

/// the first / last occurrence is unique (proved)
pub proof fn lemma_first_is_unique(b: Seq<u8>, o: int, pat: Seq<u8>)
    requires first_occ(b, o, pat)
    ensures forall|o2: int| #[trigger] first_occ(b, o2, pat) ==> o2 == o
{
    assert forall|o2: int| #[trigger] first_occ(b, o2, pat) implies o2 == o by {
        if o2 < o { assert(occurs_at(b, o2, pat)); }
        if o < o2 { assert(occurs_at(b, o, pat)); }
    }
}
pub proof fn lemma_last_is_unique(b: Seq<u8>, c: int, pat: Seq<u8>)
    requires last_occ(b, c, pat)
    ensures forall|c2: int| #[trigger] last_occ(b, c2, pat) ==> c2 == c
{
    assert forall|c2: int| #[trigger] last_occ(b, c2, pat) implies c2 == c by {
        if c2 < c { assert(occurs_at(b, c, pat)); }
        if c < c2 { assert(occurs_at(b, c2, pat)); }
    }
}

/// the pushed pieces, put together, satisfy the frame (proved; split off N1 to keep it well below the
/// solver's resource limit)
pub proof fn lemma_n1_frame(b: Seq<u8>, out: Seq<u8>, o: int, c: int, mid: Seq<u8>)
    requires
        0 <= o && o + 2 <= c && c + 2 <= b.len(),
        occurs_at(b, o, b_open()) && occurs_at(b, c, b_close()),
        only_stars_blanked(b.subrange(o + 2, c), mid),
        out == b.subrange(0, o) + sp(2) + mid + sp(2) + b.subrange(c + 2, b.len() as int),
    ensures
        n1_frame(b, out, o, c),
{
    assert(out.len() == b.len());
    assert(b.subrange(o, o + 2)[0] == b[o] && b.subrange(o, o + 2)[1] == b[o + 1]);
    assert(b.subrange(c, c + 2)[0] == b[c] && b.subrange(c, c + 2)[1] == b[c + 1]);
    assert forall|i: int| 0 <= i < b.len() implies
        (if i == o || i == o + 1 || i == c || i == c + 1 { #[trigger] out[i] == 0x20u8 }
         else { out[i] == b[i] || (o + 2 <= i < c && b[i] == 0x2au8 && out[i] == 0x20u8) }) by {
        if i < o { assert(out[i] == b.subrange(0, o)[i]); }
        else if i < o + 2 { assert(out[i] == sp(2)[i - o]); }
        else if i < c { assert(out[i] == mid[i - (o + 2)]); assert(b.subrange(o + 2, c)[i - (o + 2)] == b[i]); }
        else if i < c + 2 { assert(out[i] == sp(2)[i - c]); }
        else { assert(out[i] == b.subrange(c + 2, b.len() as int)[i - (c + 2)]); }
    }
}

pub proof fn lemma_n1_frame_unterminated(b: Seq<u8>, out: Seq<u8>, o: int, mid: Seq<u8>)
    requires
        0 <= o && o + 2 <= b.len(),
        occurs_at(b, o, b_open()),
        only_stars_blanked(b.subrange(o + 2, b.len() as int), mid),
        out == b.subrange(0, o) + sp(2) + mid,
    ensures
        n1_frame_unterminated(b, out, o),
        same_len_and_newlines(b, out),
{
    assert(out.len() == b.len());
    assert(b.subrange(o, o + 2)[0] == b[o] && b.subrange(o, o + 2)[1] == b[o + 1]);
    assert forall|i: int| 0 <= i < b.len() implies
        (if i == o || i == o + 1 { #[trigger] out[i] == 0x20u8 }
         else { out[i] == b[i] || (o + 2 <= i && b[i] == 0x2au8 && out[i] == 0x20u8) }) by {
        if i < o { assert(out[i] == b.subrange(0, o)[i]); }
        else if i < o + 2 { assert(out[i] == sp(2)[i - o]); }
        else { assert(out[i] == mid[i - (o + 2)]); assert(b.subrange(o + 2, b.len() as int)[i - (o + 2)] == b[i]); }
    }
}

// N1 has NO precondition on the comment text (C04: for ANY text it terminates without panic).
//@unit id=N1 file=src/language_parsers/mod.rs fn=c_style_multiline_comment_processor ret=r
//@contract
    ensures
        utf8(r@).len() == utf8(comment@).len(), // [N1.post.same_byte_length]
        forall|i: int| 0 <= i < utf8(comment@).len() ==> (#[trigger] utf8(r@)[i] == 0x0au8) == (utf8(comment@)[i] == 0x0au8), // [N1.post.newlines_stay_in_place]
        (forall|q: int| !#[trigger] occurs_at(utf8(comment@), q, b_open())) ==> utf8(r@) == utf8(comment@), // [N1.post.no_open_delimiter_text_unchanged]
        forall|o: int, c: int| #![trigger first_occ(utf8(comment@), o, b_open()), last_occ(utf8(comment@), c, b_close())] // [N1.post.unchanged_outside_delimiters_and_stars]
            first_occ(utf8(comment@), o, b_open()) && last_occ(utf8(comment@), c, b_close()) && o + 2 <= c ==> n1_frame(utf8(comment@), utf8(r@), o, c),
        forall|o: int| #![trigger first_occ(utf8(comment@), o, b_open())] // [N1.post.unterminated_only_open_delimiter_and_stars]
            first_occ(utf8(comment@), o, b_open()) && no_close_after(utf8(comment@), o) ==> n1_frame_unterminated(utf8(comment@), utf8(r@), o),
        forall|o: int, c: int| #![trigger first_occ(utf8(comment@), o, b_open()), last_occ(utf8(comment@), c, b_close())] // [N1.post.decorative_star_rule]
            first_occ(utf8(comment@), o, b_open()) && last_occ(utf8(comment@), c, b_close()) && o + 2 <= c ==> utf8(r@) == n1_result(comment@, o, c),
        forall|o: int| #![trigger first_occ(utf8(comment@), o, b_open())] // [N1.post.decorative_star_rule_unterminated]
            first_occ(utf8(comment@), o, b_open()) && no_close_after(utf8(comment@), o) ==> utf8(r@) == n1_result_unterminated(comment@, o),
//@edit rule=ghost before=<<let mut result>>
    proof {
        reveal_strlit("/*");
        reveal_strlit("*/");
        reveal_strlit("  ");
        assert("/*"@ =~= seq!['/', '*']);
        assert("*/"@ =~= seq!['*', '/']);
        assert("  "@ =~= seq![' ', ' ']);
        lemma_utf8_two('/', '*');
        lemma_utf8_two('*', '/');
        lemma_utf8_two(' ', ' ');
        assert(utf8("  "@) =~= sp(2));
    }
    let ghost bc = utf8(comment@);
//@closure rule=E12 find=<<|close_idx|>> params=<<|close_idx: &usize|>> ret=<<b: bool>> optional=1
            ensures b == (*close_idx >= open_idx + 2), // [N1.closure.close_after_open]
//@edit rule=ghost before=<<result.push_str(&comment[..>>
    proof {
        // both delimiters are ASCII: their offsets and the offsets after them are char boundaries
        assert(first_occ(bc, open_idx as int, b_open())); // [N1.proof.open_idx_is_first_open_delimiter]
        assert(bc.subrange(open_idx as int, open_idx + 2)[0] == 0x2fu8 && bc.subrange(open_idx as int, open_idx + 2)[1] == 0x2au8);
        lemma_after_ascii_is_boundary(comment@, open_idx as int + 1);
        if let Some(c) = close_idx {
            assert(last_occ(bc, c as int, b_close()) && open_idx + 2 <= c); // [N1.proof.close_idx_is_last_close_delimiter]
            assert(bc.subrange(c as int, c + 2)[0] == 0x2au8 && bc.subrange(c as int, c + 2)[1] == 0x2fu8);
            lemma_after_ascii_is_boundary(comment@, c as int + 1);
        } else {
            assert(no_close_after(bc, open_idx as int)); // [N1.proof.no_close_delimiter_after_open]
        }
    }
    let ghost end = match close_idx { Some(c) => c as int, None => bc.len() as int };
//@edit rule=E15 find=<<for $a in $b.split_inclusive('\n')>>
    let verif_pieces = verif_split_inclusive_char($b, '\n');
    let ghost lines = views_of(verif_pieces@);
    proof {
        encode_utf8_decode_utf8($b@);
        assert(lines == split_inclusive_spec(decode_utf8(bc.subrange(open_idx + 2, end)), '\n')); // [N1.proof.content_is_between_the_delimiters]
    }
    for $a in it: verif_pieces
        invariant
            utf8(result@) == bc.subrange(0, open_idx as int) + sp(2) + norm_flat(lines, it.index@ as int), // [N1.inv.lines_so_far_normalised]
            it.seq() == verif_pieces@,
            lines == views_of(verif_pieces@),
//@edit rule=ghost after=<<let mut decorative_star_found = false;>>
        let ghost bl = utf8(line@);
        proof {
            assert(lines[it.index@ as int] == line@);
            assert(bl.len() == line.spec_bytes().len() <= isize::MAX); // a str is at most isize::MAX bytes long
        }
//@edit rule=ghost before=<<decorative_star_found = true;>>
                proof {
                    let p = first_non_whitespace_idx as int;
                    assert(bl.subrange(p, bl.len() as int)[0] == bl[p]);
                    assert(bl[p] == 0x2au8); // [N1.proof.first_non_whitespace_is_star]
                    lemma_after_ascii_is_boundary(line@, p);
                    assert(bl.subrange(0, p) + seq![0x20u8] + bl.subrange(p + 1, bl.len() as int) =~= bl.update(p, 0x20u8));
                }
//@edit rule=ghost before=<<result }>>
    proof {
        let o = open_idx as int;
        let n = lines.len() as int;
        let out = utf8(result@);
        lemma_norm_flat(lines, n);
        let mid = norm_flat(lines, n);
        assert(flat_bytes(lines, n) == bc.subrange(o + 2, end)); // [N1.proof.lines_are_the_content_between_the_delimiters]
        lemma_first_is_unique(bc, o, b_open());
        match close_idx {
            Some(cu) => {
                let c = cu as int;
                assert(out == bc.subrange(0, o) + sp(2) + mid + sp(2) + bc.subrange(c + 2, bc.len() as int)); // [N1.proof.result_is_text_with_delimiters_blanked]
                assert(out == n1_result(comment@, o, c));
                lemma_n1_frame(bc, out, o, c, mid);
                lemma_last_is_unique(bc, c, b_close());
            },
            None => {
                assert(out == bc.subrange(0, o) + sp(2) + mid); // [N1.proof.result_is_text_with_open_delimiter_blanked]
                assert(out == n1_result_unterminated(comment@, o));
                lemma_n1_frame_unterminated(bc, out, o, mid);
            },
        }
    }
//@closure rule=E12 find=<<|c: char|>> params=<<|c: char|>> ret=<<b: bool>>
            ensures b == !is_white_space(c), // [N1.closure.first_non_whitespace]
//@chain rule=E13 find=<<.find(>> to=verif_find_str argkind=str count=all optional=1
//@chain rule=E13 find=<<.rfind(>> to=verif_rfind_str argkind=str count=all optional=1
//@chain rule=E13 find=<<.find(>> to=verif_find_pred argkind=other count=all extra=<<Ghost(not_ws())>>
//@strslice rule=E13 from=verif_str_from to=verif_str_to range=verif_str_range
//@chain rule=E13 find=<<.starts_with(>> to=verif_starts_with_char argkind=char count=all
//@end

// ---------------------------------------------------------------------------------------------
// N2..N5 — the closures of the four `*_comments_parser` functions. The closures themselves mention
// tree-sitter's `Node` (FFI, outside Verus), so each unit is the SLICE of the closure body that
// computes the comment text from the comment's source text `comment` (rule SLICE).

pub open spec fn b_slashes() -> Seq<u8> { seq![0x2fu8, 0x2fu8] }                 // "//"
pub open spec fn b_hash() -> Seq<u8> { seq![0x23u8] }                            // "#"
pub open spec fn b_xml_open() -> Seq<u8> { seq![0x3cu8, 0x21u8, 0x2du8, 0x2du8] } // "<!--"
pub open spec fn b_xml_close() -> Seq<u8> { seq![0x2du8, 0x2du8, 0x3eu8] }        // "-->"

/// N1's precondition as one predicate
pub open spec fn n1_pre(b: Seq<u8>) -> bool {
    &&& exists|q: int| #[trigger] occurs_at(b, q, b_open())
    &&& exists|q: int| #[trigger] occurs_at(b, q, b_close())
    &&& forall|o: int, c: int| #![trigger first_occ(b, o, b_open()), last_occ(b, c, b_close())]
            first_occ(b, o, b_open()) && last_occ(b, c, b_close()) ==> o + 2 <= c
}

/// `out` is `inp` with the `n` bytes at offset `p` turned into spaces, nothing else touched
pub open spec fn blanked_at(inp: Seq<u8>, out: Seq<u8>, p: int, n: int) -> bool {
    &&& out.len() == inp.len()
    &&& forall|i: int| 0 <= i < inp.len() ==> #[trigger] out[i] == (if p <= i < p + n { 0x20u8 } else { inp[i] })
}

/// same length and every '\n' where it was (the T-ext fact the block parser relies on)
pub open spec fn same_len_and_newlines(inp: Seq<u8>, out: Seq<u8>) -> bool {
    &&& out.len() == inp.len()
    &&& forall|i: int| 0 <= i < inp.len() ==> (#[trigger] out[i] == 0x0au8) == (inp[i] == 0x0au8)
}

/// the first occurrence of `pat` (none of whose bytes is '\n') is blanked, or nothing if there is none
pub open spec fn first_blanked(inp: Seq<u8>, out: Seq<u8>, pat: Seq<u8>) -> bool {
    &&& (forall|q: int| !#[trigger] occurs_at(inp, q, pat)) ==> out == inp
    &&& forall|p: int| #[trigger] first_occ(inp, p, pat) ==> blanked_at(inp, out, p, pat.len() as int)
}

proof fn lemma_literals()
    ensures
        utf8("//"@) == b_slashes(), utf8("  "@) == sp(2), utf8("#"@) == b_hash(), utf8(" "@) == sp(1),
        utf8("<!--"@) == b_xml_open(), utf8("-->"@) == b_xml_close(), utf8("    "@) == sp(4), utf8("   "@) == sp(3),
{
    reveal_strlit("//"); reveal_strlit("  "); reveal_strlit("#"); reveal_strlit(" ");
    reveal_strlit("<!--"); reveal_strlit("-->"); reveal_strlit("    "); reveal_strlit("   ");
    assert("//"@ =~= seq!['/', '/']);
    assert("  "@ =~= seq![' ', ' ']);
    assert("#"@ =~= seq!['#']);
    assert(" "@ =~= seq![' ']);
    assert("<!--"@ =~= seq!['<', '!'] + seq!['-', '-']);
    assert("-->"@ =~= seq!['-', '-'] + seq!['>']);
    assert("    "@ =~= seq![' ', ' '] + seq![' ', ' ']);
    assert("   "@ =~= seq![' ', ' '] + seq![' ']);
    lemma_utf8_two('/', '/'); lemma_utf8_two(' ', ' '); lemma_utf8_one('#'); lemma_utf8_one(' ');
    lemma_utf8_two('<', '!'); lemma_utf8_two('-', '-'); lemma_utf8_one('>');
    assert(utf8("  "@) =~= sp(2));
    assert(utf8(" "@) =~= sp(1));
    assert(utf8("<!--"@) =~= b_xml_open());
    assert(utf8("-->"@) =~= b_xml_close());
    assert(utf8("    "@) =~= sp(4));
    assert(utf8("   "@) =~= sp(3));
}

/// `inp` with `n` bytes at `p` replaced by `n` spaces is `inp` blanked at `p` (proved, explicit cases)
proof fn lemma_splice_blanked(inp: Seq<u8>, out: Seq<u8>, p: int, n: int)
    requires
        0 <= p && 0 <= n && p + n <= inp.len(),
        out == inp.subrange(0, p) + sp(n as nat) + inp.subrange(p + n, inp.len() as int),
    ensures
        blanked_at(inp, out, p, n),
{
    assert(out.len() == inp.len());
    assert forall|i: int| 0 <= i < inp.len() implies #[trigger] out[i] == (if p <= i < p + n { 0x20u8 } else { inp[i] }) by {
        if i < p { assert(out[i] == inp.subrange(0, p)[i]); }
        else if i < p + n { assert(out[i] == sp(n as nat)[i - p]); }
        else { assert(out[i] == inp.subrange(p + n, inp.len() as int)[i - (p + n)]); }
    }
}

/// what `replacen(pat, spaces, 1)` yields when `spaces` is as long as `pat`
proof fn lemma_replace_first(inp: Seq<u8>, out: Seq<u8>, pat: Seq<u8>, n: nat)
    requires
        pat.len() == n && n > 0,
        (forall|q: int| !#[trigger] occurs_at(inp, q, pat)) ==> out == inp,
        forall|p: int| #[trigger] occurs_at(inp, p, pat) && (forall|q: int| 0 <= q < p ==> !#[trigger] occurs_at(inp, q, pat))
            ==> out == inp.subrange(0, p) + sp(n) + inp.subrange(p + n, inp.len() as int), // [N.lemma.pre.marker_replaced_by_as_many_spaces]
        forall|j: int| 0 <= j < n ==> #[trigger] pat[j] != 0x0au8,
    ensures
        first_blanked(inp, out, pat),
        same_len_and_newlines(inp, out),
{
    assert forall|p: int| #[trigger] first_occ(inp, p, pat) implies blanked_at(inp, out, p, n as int) by {
        assert(occurs_at(inp, p, pat));
        lemma_splice_blanked(inp, out, p, n as int);
    }
    if exists|q: int| #[trigger] occurs_at(inp, q, pat) {
        let q0 = choose|q: int| #[trigger] occurs_at(inp, q, pat);
        // the least occurrence
        let p = choose|p: int| #[trigger] first_occ(inp, p, pat);
        lemma_has_first(inp, pat, q0);
        assert(first_occ(inp, p, pat));
        assert(blanked_at(inp, out, p, n as int));
        assert forall|i: int| 0 <= i < inp.len() implies (#[trigger] out[i] == 0x0au8) == (inp[i] == 0x0au8) by {
            if p <= i < p + n {
                assert(inp.subrange(p, p + n)[i - p] == pat[i - p]);
            }
        }
    }
}

/// an occurrence implies a first occurrence
proof fn lemma_has_first(b: Seq<u8>, pat: Seq<u8>, q: int)
    requires occurs_at(b, q, pat)
    ensures exists|p: int| #[trigger] first_occ(b, p, pat)
    decreases q
{
    if forall|k: int| 0 <= k < q ==> !#[trigger] occurs_at(b, k, pat) {
        assert(first_occ(b, q, pat));
    } else {
        let k = choose|k: int| 0 <= k < q && #[trigger] occurs_at(b, k, pat);
        lemma_has_first(b, pat, k);
    }
}

//@unit id=N2 file=src/language_parsers/mod.rs fn=c_style_comments_parser slice_from=<<if comment.starts_with(>> slice_until=<<) }), )>>
//@wrapper
fn n2_c_style_comment_text(comment: &str) -> (r: String)
    ensures
        same_len_and_newlines(utf8(comment@), utf8(r@)), // [N2.post.same_length_and_newlines]
        occurs_at(utf8(comment@), 0, b_slashes()) ==> blanked_at(utf8(comment@), utf8(r@), 0, 2), // [N2.post.line_comment_marker_blanked]
//@edit rule=ghost before=<<if comment.starts_with(>>
    proof { lemma_literals(); }
    let ghost bc = utf8(comment@);
    let verif_r =
//@tail
    ;
    proof {
        if occurs_at(bc, 0, b_slashes()) {
            lemma_replace_first(bc, utf8(verif_r@), b_slashes(), 2);
            assert(first_occ(bc, 0, b_slashes()));
        }
    }
    verif_r
//@chain rule=E13 find=<<.starts_with(>> to=verif_starts_with_str argkind=str count=all
//@chain rule=E13 find=<<.replacen(>> to=verif_replacen_str argkind=str count=all
//@end

//@unit id=N3 file=src/language_parsers/mod.rs fn=c_style_line_and_block_comments_parser slice_from=<<source_code[node.byte_range()].replacen(>> slice_until=<<) } else if>>
//@wrapper
fn n3_line_comment_text(comment: &str) -> (r: String)
    ensures
        same_len_and_newlines(utf8(comment@), utf8(r@)), // [N3.post.same_length_and_newlines]
        first_blanked(utf8(comment@), utf8(r@), b_slashes()), // [N3.post.first_marker_blanked_rest_unchanged]
//@edit rule=SLICE find=<<source_code[node.byte_range()]>>
comment
//@edit rule=ghost before=<<comment.replacen(>>
    proof { lemma_literals(); }
    let verif_r =
//@tail
    ;
    proof { lemma_replace_first(utf8(comment@), utf8(verif_r@), b_slashes(), 2); }
    verif_r
//@chain rule=E13 find=<<.replacen(>> to=verif_replacen_str argkind=str count=all
//@end

//@unit id=N4 file=src/language_parsers/mod.rs fn=python_style_comments_parser slice_from=<<source_code[node.byte_range()].replacen(>> slice_until=<<) } else>>
//@wrapper
fn n4_hash_comment_text(comment: &str) -> (r: String)
    ensures
        same_len_and_newlines(utf8(comment@), utf8(r@)), // [N4.post.same_length_and_newlines]
        first_blanked(utf8(comment@), utf8(r@), b_hash()), // [N4.post.first_marker_blanked_rest_unchanged]
//@edit rule=SLICE find=<<source_code[node.byte_range()]>>
comment
//@edit rule=ghost before=<<comment.replacen(>>
    proof { lemma_literals(); }
    let verif_r =
//@tail
    ;
    proof { lemma_replace_first(utf8(comment@), utf8(verif_r@), b_hash(), 1); }
    verif_r
//@chain rule=E13 find=<<.replacen(>> to=verif_replacen_str argkind=str count=all
//@end

/// N5: everything but the seven delimiter bytes is unchanged
pub open spec fn n5_frame(inp: Seq<u8>, out: Seq<u8>, o: int, c: int) -> bool {
    &&& out.len() == inp.len()
    &&& forall|i: int| 0 <= i < inp.len() ==> #[trigger] out[i] == (if o <= i < o + 4 || c <= i < c + 3 { 0x20u8 } else { inp[i] })
}

/// the pushed pieces, put together, satisfy the frame (proved; split off N5 to keep it below the resource limit)
pub proof fn lemma_n5_frame(b: Seq<u8>, out: Seq<u8>, o: int, c: int)
    requires
        0 <= o && o + 4 <= c && c + 3 <= b.len(),
        occurs_at(b, o, b_xml_open()) && occurs_at(b, c, b_xml_close()),
        out == b.subrange(0, o) + sp(4) + b.subrange(o + 4, c) + sp(3) + b.subrange(c + 3, b.len() as int),
    ensures
        n5_frame(b, out, o, c),
        same_len_and_newlines(b, out),
{
    assert(out.len() == b.len());
    assert forall|i: int| 0 <= i < b.len() implies #[trigger] out[i] == (if o <= i < o + 4 || c <= i < c + 3 { 0x20u8 } else { b[i] }) by {
        if i < o { assert(out[i] == b.subrange(0, o)[i]); }
        else if i < o + 4 { assert(out[i] == sp(4)[i - o]); }
        else if i < c { assert(out[i] == b.subrange(o + 4, c)[i - (o + 4)]); }
        else if i < c + 3 { assert(out[i] == sp(3)[i - c]); }
        else { assert(out[i] == b.subrange(c + 3, b.len() as int)[i - (c + 3)]); }
    }
    assert forall|i: int| 0 <= i < b.len() implies (#[trigger] out[i] == 0x0au8) == (b[i] == 0x0au8) by {
        if o <= i < o + 4 { assert(b[i] == b.subrange(o, o + 4)[i - o] && b[i] == b_xml_open()[i - o]); }
        if c <= i < c + 3 { assert(b[i] == b.subrange(c, c + 3)[i - c] && b[i] == b_xml_close()[i - c]); }
    }
}

//@unit id=N5 file=src/language_parsers/mod.rs fn=xml_style_comments_parser slice_from=<<let open_idx = comment.find("<!--")>> slice_until=<<Some(result)>>
//@wrapper
fn n5_xml_comment_text(comment: &str) -> (r: String)
    requires
        exists|q: int| #[trigger] occurs_at(utf8(comment@), q, b_xml_open()), // [N5.pre.has_open_delimiter]
        exists|q: int| #[trigger] occurs_at(utf8(comment@), q, b_xml_close()), // [N5.pre.has_close_delimiter]
        forall|o: int, c: int| #![trigger first_occ(utf8(comment@), o, b_xml_open()), last_occ(utf8(comment@), c, b_xml_close())] // [N5.pre.delimiters_do_not_overlap]
            first_occ(utf8(comment@), o, b_xml_open()) && last_occ(utf8(comment@), c, b_xml_close()) ==> o + 4 <= c,
    ensures
        same_len_and_newlines(utf8(comment@), utf8(r@)), // [N5.post.same_length_and_newlines]
        forall|o: int, c: int| #![trigger first_occ(utf8(comment@), o, b_xml_open()), last_occ(utf8(comment@), c, b_xml_close())] // [N5.post.only_delimiters_blanked]
            first_occ(utf8(comment@), o, b_xml_open()) && last_occ(utf8(comment@), c, b_xml_close()) ==> n5_frame(utf8(comment@), utf8(r@), o, c),
//@tail
    proof {
        let o = open_idx as int;
        let c = close_idx as int;
        let out = utf8(result@);
        assert(out == bc.subrange(0, o) + sp(4) + bc.subrange(o + 4, c) + sp(3) + bc.subrange(c + 3, bc.len() as int)); // [N5.proof.result_is_text_with_delimiters_blanked]
        lemma_n5_frame(bc, out, o, c);
        lemma_first_is_unique(bc, o, b_xml_open());
        lemma_last_is_unique(bc, c, b_xml_close());
    }
    result
//@edit rule=ghost before=<<let open_idx>>
    proof { lemma_literals(); }
    let ghost bc = utf8(comment@);
//@edit rule=ghost before=<<let mut result>>
    proof {
        let o = open_idx as int;
        let c = close_idx as int;
        assert(first_occ(bc, o, b_xml_open())); // [N5.proof.open_idx_is_first_open_delimiter]
        assert(last_occ(bc, c, b_xml_close())); // [N5.proof.close_idx_is_last_close_delimiter]
        assert forall|j: int| 0 <= j < 4 implies bc[o + j] == #[trigger] b_xml_open()[j] by { assert(bc.subrange(o, o + 4)[j] == bc[o + j]); }
        assert forall|j: int| 0 <= j < 3 implies bc[c + j] == #[trigger] b_xml_close()[j] by { assert(bc.subrange(c, c + 3)[j] == bc[c + j]); }
        assert(bc[o] == 0x3cu8 && bc[o + 3] == 0x2du8 && bc[c] == 0x2du8 && bc[c + 2] == 0x3eu8) by {
            assert(b_xml_open()[0] == 0x3cu8 && b_xml_open()[3] == 0x2du8 && b_xml_close()[0] == 0x2du8 && b_xml_close()[2] == 0x3eu8);
        }
        lemma_after_ascii_is_boundary(comment@, o + 3);
        lemma_after_ascii_is_boundary(comment@, c + 2);
    }
//@chain rule=E13 find=<<.find(>> to=verif_find_str argkind=str count=all optional=1
//@chain rule=E13 find=<<.rfind(>> to=verif_rfind_str argkind=str count=all optional=1
//@strslice rule=E13 from=verif_str_from to=verif_str_to range=verif_str_range
//@end


// ---------------------------------------------------------------------------------------------
// N6 — Markdown link-reference comments `[//]: # (text)` (src/language_parsers/markdown.rs, the closure of
// `markdown_comments_parser`). The unit is the closure body after the node-kind test; its only input
// is the node's source text. NO precondition on that text (C04): for ANY text the body terminates
// without panic — it returns `None` (not a comment) or the normalised text.

pub open spec fn b_md_prefix() -> Seq<u8> { seq![0x5bu8, 0x2fu8, 0x2fu8, 0x5du8, 0x3au8] } // "[//]:"

/// the predicate of the real closure `|c| ['(', '"', '\''].contains(&c)`. Opaque: array-literal reasoning
/// (vstd's array axioms) was the second most expensive quantifier in N6's profile; it is revealed only
/// inside the closure body and inside `lemma_md_delim`.
#[verifier::opaque]
pub open spec fn is_md_delim(c: char) -> bool { ['(', '"', '\'']@.contains(c) }
pub open spec fn md_delim() -> spec_fn(char) -> bool { |c: char| is_md_delim(c) }

pub proof fn lemma_md_delim(c: char)
    ensures md_delim()(c) == (c == '(' || c == '"' || c == '\'')
{
    reveal(is_md_delim);
    let a = ['(', '"', '\''];
    assert(a@.len() == 3 && a@[0] == '(' && a@[1] == '"' && a@[2] == '\'');
    if a@.contains(c) { let i = choose|i: int| 0 <= i < a@.len() && a@[i] == c; }
}

/// the closing delimiter that belongs to an opening delimiter byte: `(`..`)`, `"`..`"`, `'`..`'`
pub open spec fn md_close_byte(open: u8) -> u8 { if open == 0x28u8 { 0x29u8 } else { open } }

/// `p`: first "[//]:"; `o`: the first `(`, `"` or `'` after it (std `find` with the closure's
/// predicate on the text after the prefix); `c`: the LAST occurrence of the matching closing byte, after `o`.
#[verifier::opaque]
pub open spec fn md_parts(t: Seq<char>, p: int, o: int, c: int) -> bool {
    let b = utf8(t);
    &&& first_occ(b, p, b_md_prefix())
    &&& p + 5 <= o < c < b.len()
    &&& find_pred_spec(decode_utf8(b.subrange(p + 5, b.len() as int)), md_delim()) == Some((o - (p + 5)) as usize)
    &&& (b[o] == 0x28u8 || b[o] == 0x22u8 || b[o] == 0x27u8)
    &&& b[c] == md_close_byte(b[o])
    &&& forall|q: int| c < q < b.len() ==> #[trigger] b[q] != md_close_byte(b[o])
}

/// what the head loop writes for a byte: a line break stays, everything else becomes a space
pub open spec fn nl_or_sp(x: u8) -> u8 { if x == 0x0au8 { 0x0au8 } else { 0x20u8 } }

/// text before "[//]:" unchanged; "[//]:" and the opening delimiter blanked; between them every byte
/// is blanked or kept (which of the two is the newline clause's business); the text strictly
/// between the delimiters unchanged (the tag "as written"); closing delimiter blanked; text after
/// it unchanged.
#[verifier::opaque]
pub open spec fn n6_frame(inp: Seq<u8>, out: Seq<u8>, p: int, o: int, c: int) -> bool {
    &&& out.len() == inp.len()
    &&& forall|i: int| 0 <= i < inp.len() ==> (
            if p <= i < p + 5 || i == o || i == c { #[trigger] out[i] == 0x20u8 }
            else if p + 5 <= i < o { out[i] == 0x20u8 || out[i] == inp[i] }
            else { out[i] == inp[i] })
}

/// `r1` = the result after the head loop: text before "[//]:" unchanged, "[//]:" blanked, then one
/// byte per byte up to and including the opening delimiter, each blanked or kept, the delimiter blanked
pub open spec fn n6_head_ok(b: Seq<u8>, p: int, o: int, r1: Seq<u8>) -> bool {
    &&& r1.len() == o + 1
    &&& forall|k: int| 0 <= k < p ==> #[trigger] r1[k] == b[k]
    &&& forall|k: int| p <= k < p + 5 ==> #[trigger] r1[k] == 0x20u8
    &&& forall|k: int| p + 5 <= k < o ==> #[trigger] r1[k] == 0x20u8 || r1[k] == b[k]
    &&& r1[o] == 0x20u8
}

/// the bytes written for the part between "[//]:" and the content keep exactly the line breaks
pub open spec fn head_keeps_newlines(b: Seq<u8>, p: int, o: int, r1: Seq<u8>) -> bool {
    forall|k: int| p + 5 <= k <= o ==> (#[trigger] r1[k] == 0x0au8) == (b[k] == 0x0au8)
}

proof fn lemma_md_literals()
    ensures utf8("[//]:"@) == b_md_prefix(), utf8("     "@) == sp(5), utf8(" "@) == sp(1),
{
    reveal_strlit("[//]:"); reveal_strlit("     "); reveal_strlit(" ");
    assert("[//]:"@ =~= seq!['[', '/'] + seq!['/', ']'] + seq![':']);
    assert("     "@ =~= seq![' ', ' '] + seq![' ', ' '] + seq![' ']);
    assert(" "@ =~= seq![' ']);
    lemma_utf8_two('[', '/'); lemma_utf8_two('/', ']'); lemma_utf8_one(':'); lemma_utf8_two(' ', ' '); lemma_utf8_one(' ');
    assert(utf8("[//]:"@) =~= b_md_prefix());
    assert(utf8("     "@) =~= sp(5));
    assert(utf8(" "@) =~= sp(1));
}

/// text before "[//]:" then five spaces, indexed (proved)
proof fn lemma_n6_prefix(b: Seq<u8>, p: int, pre: Seq<u8>)
    requires
        0 <= p <= b.len(),
        pre == Seq::<u8>::empty() + b.subrange(0, p) + sp(5), // [N6.proof.prefix_blanked_by_five_spaces]
    ensures
        pre.len() == p + 5,
        forall|k: int| 0 <= k < p + 5 ==> #[trigger] pre[k] == (if k < p { b[k] } else { 0x20u8 }),
{
    assert forall|k: int| 0 <= k < p + 5 implies #[trigger] pre[k] == (if k < p { b[k] } else { 0x20u8 }) by {
        if k < p { assert(pre[k] == b.subrange(0, p)[k]); } else { assert(pre[k] == sp(5)[k - p]); }
    }
}

/// head + content + blanked closing delimiter + rest satisfy the frame (proved)
proof fn lemma_n6_result(b: Seq<u8>, r1: Seq<u8>, out: Seq<u8>, p: int, o: int, c: int)
    requires
        0 <= p && p + 5 <= o < c < b.len(),
        n6_head_ok(b, p, o, r1), // [N6.proof.head_is_prefix_blanked_then_filler]
        out == (if c + 1 < b.len() { (r1 + b.subrange(o + 1, c)).push(0x20u8) + b.subrange(c + 1, b.len() as int) } // [N6.proof.result_is_head_content_blank_rest]
                else { (r1 + b.subrange(o + 1, c)).push(0x20u8) }),
    ensures
        n6_frame(b, out, p, o, c),
        out.len() == b.len(),
        forall|k: int| 0 <= k <= o ==> #[trigger] out[k] == r1[k],
{
    reveal(n6_frame);
    let mid = (r1 + b.subrange(o + 1, c)).push(0x20u8);
    assert(mid.len() == c + 1);
    assert forall|i: int| 0 <= i <= c implies #[trigger] out[i] == mid[i] by {}
    assert forall|i: int| 0 <= i < b.len() implies (
            if p <= i < p + 5 || i == o || i == c { #[trigger] out[i] == 0x20u8 }
            else if p + 5 <= i < o { out[i] == 0x20u8 || out[i] == b[i] }
            else { out[i] == b[i] }) by {
        if i <= o { assert(out[i] == mid[i] && mid[i] == r1[i]); }
        else if i < c { assert(out[i] == mid[i] && mid[i] == b.subrange(o + 1, c)[i - (o + 1)]); }
        else if i == c { assert(out[i] == mid[i]); }
        else { assert(out[i] == b.subrange(c + 1, b.len() as int)[i - (c + 1)]); }
    }
    assert forall|k: int| 0 <= k <= o implies #[trigger] out[k] == r1[k] by { assert(out[k] == mid[k]); }
}

/// frame + "the head keeps exactly the line breaks" => every '\n' stays where it was (proved)
proof fn lemma_n6_newlines(b: Seq<u8>, r1: Seq<u8>, out: Seq<u8>, p: int, o: int, c: int)
    requires
        0 <= p && p + 5 <= o < c < b.len(),
        n6_frame(b, out, p, o, c),
        forall|k: int| 0 <= k <= o ==> #[trigger] out[k] == r1[k],
        head_keeps_newlines(b, p, o, r1),
        b.subrange(p, p + 5) == b_md_prefix(),
        b[o] != 0x0au8 && b[c] != 0x0au8,
    ensures
        same_len_and_newlines(b, out),
{
    reveal(n6_frame);
    assert forall|i: int| 0 <= i < b.len() implies (#[trigger] out[i] == 0x0au8) == (b[i] == 0x0au8) by {
        if p <= i < p + 5 { assert(b[i] == b.subrange(p, p + 5)[i - p] && b[i] == b_md_prefix()[i - p]); }
        else if p + 5 <= i <= o { assert(out[i] == r1[i]); }
    }
}

/// a str is determined by its bytes: any text whose bytes are `b` is `decode_utf8(b)` (proved)
proof fn lemma_text_of_bytes(b: Seq<u8>)
    ensures forall|v: Seq<char>| #[trigger] utf8(v) == b ==> v == decode_utf8(b)
{
    assert forall|v: Seq<char>| #[trigger] utf8(v) == b implies v == decode_utf8(b) by {
        encode_utf8_decode_utf8(v);
    }
}

/// what `find` with the delimiter predicate on `b[ss..]` tells about `b` at offset `ss + i` (proved)
proof fn lemma_n6_open_delimiter(b: Seq<u8>, ss: int, i: int)
    requires
        0 <= ss <= b.len() && byte_boundary(b, ss),
        0 <= i < b.len() - ss,
        byte_boundary(b.subrange(ss, b.len() as int), i),
        decode_utf8(b.subrange(ss, b.len() as int).subrange(i, b.len() - ss)).len() > 0,
        md_delim()(decode_utf8(b.subrange(ss, b.len() as int).subrange(i, b.len() - ss))[0]),
    ensures
        byte_boundary(b, ss + i),
        decode_utf8(b.subrange(ss + i, b.len() as int)).len() > 0,
        ({ let c0 = decode_utf8(b.subrange(ss + i, b.len() as int))[0]; c0 == '(' || c0 == '"' || c0 == '\'' }),
{
    let bx = b.subrange(ss, b.len() as int);
    assert(bx.subrange(i, bx.len() as int) =~= b.subrange(ss + i, b.len() as int));
    if i > 0 { assert(bx[i] == b[ss + i]); }
    lemma_md_delim(decode_utf8(b.subrange(ss + i, b.len() as int))[0]);
}

/// the text `v` of `b[o..]` starts with an ASCII delimiter => byte `o` of `b` is its code (proved)
proof fn lemma_n6_open_byte(b: Seq<u8>, o: int, v: Seq<char>)
    requires
        0 <= o < b.len(),
        utf8(v) == b.subrange(o, b.len() as int),
        v.len() > 0 && (v[0] == '(' || v[0] == '"' || v[0] == '\''),
    ensures
        b[o] == v[0] as u8,
        b[o] == 0x28u8 || b[o] == 0x22u8 || b[o] == 0x27u8,
{
    lemma_first_char_ascii(v);
    assert(b.subrange(o, b.len() as int)[0] == b[o]);
}

/// the conjuncts of `md_parts`, established one by one in N6, put together (proved)
proof fn lemma_md_parts(t: Seq<char>, p: int, o: int, c: int)
    requires
        first_occ(utf8(t), p, b_md_prefix()),
        p + 5 <= o < c < utf8(t).len(),
        find_pred_spec(decode_utf8(utf8(t).subrange(p + 5, utf8(t).len() as int)), md_delim()) == Some((o - (p + 5)) as usize),
        utf8(t)[o] == 0x28u8 || utf8(t)[o] == 0x22u8 || utf8(t)[o] == 0x27u8,
        utf8(t)[c] == md_close_byte(utf8(t)[o]),
        forall|q: int| c < q < utf8(t).len() ==> #[trigger] utf8(t)[q] != md_close_byte(utf8(t)[o]),
    ensures
        md_parts(t, p, o, c),
{
    reveal(md_parts);
}

/// (pre-fix text only) text before "[//]:" + five spaces + a run of spaces is a well-formed head (proved)
proof fn lemma_n6_repeat_head(b: Seq<u8>, p: int, o: int, pre: Seq<u8>, rep: Seq<u8>)
    requires
        0 <= p && p + 5 <= o < b.len(),
        pre.len() == p + 5,
        forall|k: int| 0 <= k < p + 5 ==> #[trigger] pre[k] == (if k < p { b[k] } else { 0x20u8 }),
        rep.len() == o - (p + 5) + 1,
        forall|i: int| 0 <= i < rep.len() ==> #[trigger] rep[i] == 0x20u8,
    ensures
        n6_head_ok(b, p, o, pre + rep),
{
    let r1 = pre + rep;
    assert forall|k: int| 0 <= k < p + 5 implies #[trigger] r1[k] == pre[k] by {}
    assert forall|k: int| p + 5 <= k <= o implies #[trigger] r1[k] == 0x20u8 by { assert(r1[k] == rep[k - (p + 5)]); }
}

//@unit id=N6 file=src/language_parsers/markdown.rs fn=markdown_comments_parser slice_from=<<let comment = &source_code[node.byte_range()];>> slice_until=<<Some(result)>>
//@wrapper
fn n6_markdown_comment_text(verif_comment_text: &str) -> (r: Option<String>)
    ensures
        r matches Some(s) ==> utf8(s@).len() == utf8(verif_comment_text@).len(), // [N6.post.same_byte_length]
        r matches Some(s) ==> exists|p: int, o: int, c: int| #[trigger] md_parts(verif_comment_text@, p, o, c) // [N6.post.content_between_delimiters_unchanged]
            && n6_frame(utf8(verif_comment_text@), utf8(s@), p, o, c),
        r matches Some(s) ==> forall|i: int| 0 <= i < utf8(verif_comment_text@).len() ==> // [N6.post.newlines_stay_in_place]
            (#[trigger] utf8(s@)[i] == 0x0au8) == (utf8(verif_comment_text@)[i] == 0x0au8),
//@tail
    proof {
        let p = prefix_idx as int;
        let o = open_idx as int;
        let c = close_idx as int;
        let out = utf8(result@);
        lemma_n6_result(bc, verif_r1, out, p, o, c);
        // (a condition, not an assertion: a text whose head drops a line break fails the newline CLAUSE itself)
        if head_keeps_newlines(bc, p, o, verif_r1) {
            assert(bc.subrange(p, p + 5) == b_md_prefix());
            lemma_n6_newlines(bc, verif_r1, out, p, o, c);
        }
        lemma_md_parts(comment@, p, o, c); // [N6.proof.delimiters_are_as_specified]
    }
    Some(result)
//@edit rule=SLICE find=<<&source_code[node.byte_range()]>>
verif_comment_text
//@edit rule=ghost before=<<let prefix_idx>>
    proof { lemma_md_literals(); }
    let ghost bc = utf8(comment@);
//@edit rule=ghost before=<<let start_search>>
    proof {
        assert(bc.len() == comment.spec_bytes().len() <= isize::MAX); // a str is at most isize::MAX bytes long
        assert(first_occ(bc, prefix_idx as int, b_md_prefix())); // [N6.proof.prefix_idx_is_first_prefix]
        assert(bc.subrange(prefix_idx as int, prefix_idx + 5)[4] == 0x3au8);
        lemma_after_ascii_is_boundary(comment@, prefix_idx + 4);
    }
//@edit rule=ghost before=<<let open_idx>>
    let ghost t2 = decode_utf8(bc.subrange(start_search as int, bc.len() as int));
    proof { lemma_text_of_bytes(bc.subrange(start_search as int, bc.len() as int)); }
//@edit rule=ghost before=<<let open_char>>
    let ghost t3 = decode_utf8(bc.subrange(open_idx as int, bc.len() as int));
    proof {
        assert(find_pred_spec(t2, md_delim()) == Some((open_idx - start_search) as usize)); // [N6.proof.open_idx_is_first_delimiter_after_prefix]
        lemma_n6_open_delimiter(bc, start_search as int, open_idx - start_search);
        lemma_text_of_bytes(bc.subrange(open_idx as int, bc.len() as int));
    }
//@edit rule=ghost before=<<let close_idx>>
    proof {
        assert(open_char == t3[0]); // [N6.proof.open_char_is_the_delimiter_found]
        let v = choose|v: Seq<char>| #[trigger] utf8(v) == bc.subrange(open_idx as int, bc.len() as int);
        lemma_n6_open_byte(bc, open_idx as int, v);
        assert(bc[open_idx as int] == open_char as u8);
        assert(close_char as u8 == md_close_byte(bc[open_idx as int])); // [N6.proof.close_char_matches_open_char]
    }
//@edit rule=ghost before=<<let mut result>>
    proof {
        lemma_after_ascii_is_boundary(comment@, open_idx as int);
        lemma_after_ascii_is_boundary(comment@, close_idx as int);
    }
//@edit rule=ghost before=<<result.push_str(" ".repeat(>> optional=1
    // (only the text before commit 4a26ac1 has this statement; kept so that the old text is DECIDED)
    let ghost verif_pre0 = utf8(result@);
    proof {
        lemma_n6_prefix(bc, prefix_idx as int, verif_pre0);
        assert(utf8(" "@).len() == 1);
        assert(utf8(" "@).len() * (open_idx - (prefix_idx + 5) + 1) == open_idx - (prefix_idx + 5) + 1) by (nonlinear_arith) requires utf8(" "@).len() == 1;
        assert forall|rep: Seq<u8>| rep.len() == open_idx - (prefix_idx + 5) + 1 && (forall|i: int| 0 <= i < rep.len() ==> #[trigger] rep[i] == utf8(" "@)[i % 1])
            implies n6_head_ok(bc, prefix_idx as int, open_idx as int, #[trigger] (verif_pre0 + rep)) by {
            assert forall|i: int| 0 <= i < rep.len() implies #[trigger] rep[i] == 0x20u8 by { assert(i % 1 == 0); assert(utf8(" "@)[0] == sp(1)[0]); }
            lemma_n6_repeat_head(bc, prefix_idx as int, open_idx as int, verif_pre0, rep);
        }
    }
//@edit rule=E15 find=<<for $a in &$b.as_bytes()[$c..=$d]>> optional=1
    let verif_head = verif_bytes_incl($b, $c, $d);
    let ghost verif_pre = utf8(result@);
    proof { lemma_n6_prefix(bc, prefix_idx as int, verif_pre); }
    for $a in it: verif_head
        invariant
            utf8(result@).len() == prefix_idx + 5 + it.index@, // [N6.inv.one_byte_per_head_byte]
            forall|k: int| 0 <= k < prefix_idx + 5 ==> #[trigger] utf8(result@)[k] == (if k < prefix_idx { bc[k] } else { 0x20u8 }), // [N6.inv.text_before_head_untouched]
            forall|k: int| prefix_idx + 5 <= k < prefix_idx + 5 + it.index@ ==> #[trigger] utf8(result@)[k] == nl_or_sp(bc[k]), // [N6.inv.head_blanked_keeping_newlines]
            $c == prefix_idx + 5 && $d + 1 == prefix_idx + 5 + verif_head@.len() && $d < bc.len(), // [N6.inv.head_runs_from_after_prefix_through_open_delimiter]
            it.seq().unref() == verif_head@,
            verif_head@ == bc.subrange($c as int, $d + 1),
//@edit rule=ghost before=<<result.push(if>> optional=1
        proof {
            // the byte looked at is byte prefix_idx + 5 + index of the comment text
            assert(it.seq().unref()[it.index@ as int] == verif_head@[it.index@ as int]);
            assert(verif_head@[it.index@ as int] == bc[prefix_idx + 5 + it.index@]); // [N6.proof.head_byte_is_comment_byte]
        }
//@edit rule=ghost before=<<result.push_str(&comment[open_idx>>
    let ghost verif_r1 = utf8(result@);
    proof {
        assert(verif_r1.len() == open_idx + 1); // [N6.proof.filler_covers_prefix_rest_and_open_delimiter]
        assert(nl_or_sp(bc[open_idx as int]) == 0x20u8);
    }
//@closure rule=E12 find=<<|c|>> params=<<|c: char|>> ret=<<b: bool>>
            ensures b == md_delim()(c), // [N6.closure.is_opening_delimiter]
//@edit rule=ghost before=<<['(', '"', '\''].contains(>> optional=1
proof { reveal(is_md_delim); }
//@closure rule=E12 find=<<|i|>> params=<<|i: usize|>> ret=<<j: usize>>
            requires i + start_search <= usize::MAX,
            ensures j == i + start_search, // [N6.closure.offset_in_comment]
//@closure rule=E12 find=<<|close_idx|>> params=<<|close_idx: &usize|>> ret=<<b: bool>> optional=1
            ensures b == (*close_idx > open_idx), // [N6.closure.close_after_open]
//@chain rule=E13 find=<<.contains(>> to=verif_chars_contains count=all optional=1
//@chain rule=E13 find=<<.chars().next()>> to=verif_first_char count=all optional=1
//@chain rule=E13 find=<<.chars().nth(>> to=verif_chars_nth count=all optional=1
//@chain rule=E13 find=<<.find(>> to=verif_find_str argkind=str count=all optional=1
//@chain rule=E13 find=<<.rfind(>> to=verif_rfind_ascii_char argkind=other count=all optional=1
//@strslice rule=E13 from=verif_str_from to=verif_str_to range=verif_str_range
//@chain rule=E13 find=<<.find(>> to=verif_find_pred argkind=other count=all extra=<<Ghost(md_delim())>>
//@end


// ---------------------------------------------------------------------------------------------
// N7 — `MdParser::parse_html_comments` (markdown.rs): the statements that move a comment found inside
// an html block (positions relative to the block) to file positions. Slice: the loop body up to the
// `push`; `node.start_position().row` / `node.start_byte()` (tree-sitter FFI) become parameters.

//@item file=src/lib.rs kind=struct name=Position
//@item file=src/language_parsers/mod.rs kind=struct name=Comment

/// T-ext bounds: block row + comment line, block column + comment column and block start byte +
/// comment offset are file positions, hence fit `usize` (all are bounded by the file size).
pub open spec fn n7_fits(c: Comment, row: usize, column: usize, start_byte: usize) -> bool {
    &&& c.position_range.start.line + row <= usize::MAX
    &&& c.position_range.end.line + row <= usize::MAX
    &&& c.position_range.start.character + column <= usize::MAX
    &&& c.position_range.end.character + column <= usize::MAX
    &&& c.source_range.start + start_byte <= usize::MAX
    &&& c.source_range.end + start_byte <= usize::MAX
}

/// C03/C10 "the line and column of the tag's `<`" in the FILE: the inner parser reports positions relative to
/// the html block's text (1-based line `l`, column `c`). With (R, C) = the block node's start row and start
/// column, (l, c) is file position (l + R, c + C) on the block's first line and (l + R, c) on later lines
/// (only the first line of the block text starts at the block's column).
pub open spec fn file_position(inner: Position, row: usize, column: usize) -> Position {
    Position {
        line: (inner.line + row) as usize,
        character: (if inner.line == 1 { inner.character + column } else { inner.character as int }) as usize,
    }
}

//@unit id=N7 file=src/language_parsers/markdown.rs fn=<<impl<C: CommentsParser> MdParser<C>::parse_html_comments>> slice_from=<<for mut comment in &mut html_comments>> slice_until=<<all_html_comments.push(comment);>>
//@wrapper
fn n7_shift_html_comment(comment: &mut Comment, verif_row: usize, verif_column: usize, verif_start_byte: usize)
    requires
        n7_fits(*old(comment), verif_row, verif_column, verif_start_byte), // [N7.pre.file_positions_fit_usize]
    ensures
        final(comment).position_range.start == file_position(old(comment).position_range.start, verif_row, verif_column) // [N7.post.positions_are_file_positions]
            && final(comment).position_range.end == file_position(old(comment).position_range.end, verif_row, verif_column),
        final(comment).position_range.start.line == old(comment).position_range.start.line + verif_row // [N7.post.lines_shifted_by_block_row]
            && final(comment).position_range.end.line == old(comment).position_range.end.line + verif_row,
        final(comment).source_range.start == old(comment).source_range.start + verif_start_byte // [N7.post.source_range_is_file_range]
            && final(comment).source_range.end == old(comment).source_range.end + verif_start_byte,
        final(comment).comment_text == old(comment).comment_text, // [N7.post.text_unchanged]
//@edit rule=SLICE find=<<for mut comment in &mut html_comments {>>

//@edit rule=SLICE find=<<node.start_position().row>> count=all optional=1
verif_row
//@edit rule=SLICE find=<<node.start_position().column>> count=all optional=1
verif_column
//@edit rule=SLICE find=<<node.start_byte()>> count=all optional=1
verif_start_byte
//@end

} // verus!
fn main() {}
