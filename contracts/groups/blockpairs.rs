// Group `blockpairs`: src/block_parser.rs — from the comments of a file to its blocks.
// Units (all bodies are the real text of /repo):
//   P3  BlockEnd::into_block (+ P3n Block::new)            content range / frame        C03, C10
//   P2  BlockStart::source_position_at, P2s BlockStart::new (+ P2n Position::new)        C03, C10
//   P4  PartialBlocksIterator::next, P4n ::new, P4e BlockEnd::new, T1/T2 WinnowBlockTagParser::{new,cursor}
//       the tag-event sequence as a function of the comments (discharges P1's E14 iterator contract)
//   P1  parse_blocks_from_comments                         LIFO pairing, Err iff unbalanced, order   C03, C12
// C04: overflow/underflow, slicing preconditions, unwrap, termination of both loops.
// Trusted: see blockpairs.notes.md.
#![feature(allocator_api)]
use vstd::prelude::*;
use vstd::std_specs::iter::IteratorSpec;
use vstd::std_specs::cmp::{PartialEqSpecImpl, PartialOrdSpecImpl, OrdSpecImpl};
use std::cmp::Ordering;
use std::collections::HashMap;
use std::ops::{Range, RangeInclusive};
use std::rc::Rc;

//@include prelude/anyhow.rs
//@include prelude/tstr_mod.rs

verus! {

//@include prelude/std_range.rs
//@include prelude/blockp_strings.rs
//@include prelude/blockp_types.rs

// ---------------------------------------------------------------------------------------------
// P3 — specification, written from the statement of C03: "A block's content is the exact source
// text between the end of the comment holding its start tag and the start of the comment holding
// its end tag (empty when both tags share one comment)."

spec fn same_comment(e: BlockEnd, s: BlockStart) -> bool {
    rc_id(&e.comment) == rc_id(&s.comment)
}

spec fn content_bytes_spec(e: BlockEnd, s: BlockStart) -> Range<usize> {
    if same_comment(e, s) {
        Range { start: 0usize, end: 0usize }
    } else {
        Range { start: s.comment.source_range.end, end: e.comment.source_range.start }
    }
}

/// The block made of start tag `s` and end tag `e`.
spec fn into_block_spec(e: BlockEnd, s: BlockStart) -> Block {
    Block {
        attributes: s.attributes,
        start_tag_position_range: s.start_tag_position_range,
        content_bytes_range: content_bytes_spec(e, s),
        content_position_range: Range { start: s.comment.position_range.end, end: e.comment.position_range.start },
    }
}

impl Block {
//@unit id=P3n file=src/blocks.rs fn=<<impl Block::new>> ret=r
//@contract
        ensures
            r.attributes == attributes, // [P3n.post.attributes]
            r.start_tag_position_range == start_tag_position_range, // [P3n.post.tag_range]
            r.content_bytes_range == content_range, // [P3n.post.content_bytes]
            r.content_position_range == content_position_range, // [P3n.post.content_position]
//@end
}

impl BlockEnd {
//@unit id=P3 file=src/block_parser.rs fn=<<impl BlockEnd::into_block>> ret=b
//@contract
        ensures
            !same_comment(self, block_start) ==> b.content_bytes_range.start == block_start.comment.source_range.end, // [P3.post.content_starts_at_start_comment_end]
            !same_comment(self, block_start) ==> b.content_bytes_range.end == self.comment.source_range.start, // [P3.post.content_ends_at_end_comment_start]
            same_comment(self, block_start) ==> b.content_bytes_range.start == 0 && b.content_bytes_range.end == 0, // [P3.post.same_comment_empty]
            b.content_position_range.start == block_start.comment.position_range.end, // [P3.post.position_start]
            b.content_position_range.end == self.comment.position_range.start, // [P3.post.position_end]
            b.attributes == block_start.attributes, // [P3.post.frame_attributes]
            b.start_tag_position_range == block_start.start_tag_position_range, // [P3.post.frame_tag_range]
            b == into_block_spec(self, block_start), // [P3.post.is_spec]
//@end
}


//@include prelude/blockp_std.rs

// ---------------------------------------------------------------------------------------------
// P2 — specification, from C03 "each with [...] the line and column of its `<`" and C10 "the range
// spans exactly the block's start tag, from its `<` to its `>` [...] wherever the tag sits - after
// indentation, on a middle or last line of a multi-line comment".
//
// `p` is a byte offset into the comment text. T-ext (DESIGN section 5): byte i of `comment_text`
// is byte `source_range.start + i` of the file and newlines are at identical offsets, so the file
// position of offset p is: p's line = comment's first line + number of '\n' before p; p's 1-based
// column = comment's start column + p on the comment's first line, otherwise the distance to the
// last '\n' before p.

spec fn source_position_spec(c: Comment, p: nat) -> Position {
    Position {
        line: (c.position_range.start.line + newlines_before(c.comment_text@, p)) as usize,
        character: if newlines_before(c.comment_text@, p) == 0 {
            (c.position_range.start.character + p) as usize
        } else {
            (p - last_newline_before(c.comment_text@, p)->Some_0) as usize
        },
    }
}

/// T-ext: what is assumed about a `Comment` delivered by the language parsers, as far as P2 needs
/// it: line and column plus the text length do not overflow (both are bounded by the file size).
spec fn comment_wf(c: Comment) -> bool {
    &&& c.position_range.start.line + blen(c.comment_text@) <= usize::MAX
    &&& c.position_range.start.character + blen(c.comment_text@) <= usize::MAX
}

/// `p` is the offset of a character that is not a line break (P2 is used for `<` and `>`).
spec fn offset_of_visible_ascii(c: Comment, p: nat) -> bool {
    &&& p < blen(c.comment_text@)
    &&& char_boundary(c.comment_text@, p)
    &&& char_len(char_at(c.comment_text@, p)) == 1
    &&& char_at(c.comment_text@, p) != '\n'
}

/// What `WinnowBlockTagParser::next` returns as `tag_range` of a start tag: the non-empty byte
/// range from the tag's `<` to just after its `>` (tag_parser.rs:71-78, grammar `<block ... >`).
spec fn tag_range_wf(c: Comment, r: Range<usize>) -> bool {
    &&& r.start < r.end <= blen(c.comment_text@)
    &&& offset_of_visible_ascii(c, r.start as nat) && char_at(c.comment_text@, r.start as nat) == '<'
    &&& offset_of_visible_ascii(c, (r.end - 1) as nat) && char_at(c.comment_text@, (r.end - 1) as nat) == '>'
}

impl Position {
//@unit id=P2n file=src/lib.rs fn=<<impl Position::new>> ret=r
//@contract
        ensures r.line == line, r.character == character, // [P2n.post.fields]
//@end
}

impl BlockStart {
//@unit id=P2 file=src/block_parser.rs fn=<<impl BlockStart::source_position_at>> ret=r
//@contract
        requires
            comment_wf(*comment),
            offset_of_visible_ascii(*comment, position_in_comment as nat),
        ensures
            r.line == comment.position_range.start.line + newlines_before(comment.comment_text@, position_in_comment as nat), // [P2.post.line]
            newlines_before(comment.comment_text@, position_in_comment as nat) == 0 ==> // [P2.post.column_first_line]
                r.character == comment.position_range.start.character + position_in_comment,
            newlines_before(comment.comment_text@, position_in_comment as nat) > 0 ==> // [P2.post.column_later_line]
                (last_newline_before(comment.comment_text@, position_in_comment as nat) matches Some(q)
                    && q < position_in_comment && r.character == position_in_comment - q),
            r == source_position_spec(*comment, position_in_comment as nat), // [P2.post.is_spec]
//@wrap rule=E13 find=<<comment.comment_text[>> skip=<<..>> to=<<verif_str_prefix(comment.comment_text.as_str(), >> close=<<)>> count=2
//@chain rule=E13 find=<<.lines()>> suffix=<<.count()>> to=verif_lines_count
//@chain rule=E13 find=<<.rfind(>> to=verif_rfind_char argkind=char optional=1
//@chain rule=E13 find=<<.find(>> to=verif_find_char argkind=char optional=1
//@edit rule=ghost before=<<let line_number>>
        proof {
            broadcast use axiom_prefix_step, axiom_lines_count, axiom_rfind_char, axiom_chars_le_bytes;
            let t = comment.comment_text@;
            let p = position_in_comment as nat;
            assert(prefix_at(t, p + 1) == prefix_at(t, p).push(char_at(t, p)));
            assert(prefix_at(t, p + 1).drop_last() =~= prefix_at(t, p));
            lemma_newline_count_zero(prefix_at(t, p));
            lemma_newline_count_le_len(prefix_at(t, p));
        }
//@end

//@unit id=P2s file=src/block_parser.rs fn=<<impl BlockStart::new>> ret=r
//@contract
        requires
            comment_wf(*comment),
            tag_range_wf(*comment, position_in_comment_range),
        ensures
            r.start_tag_position_range@.start == source_position_spec(*comment, position_in_comment_range.start as nat), // [P2s.post.range_starts_at_lt]
            r.start_tag_position_range@.end == source_position_spec(*comment, (position_in_comment_range.end - 1) as nat), // [P2s.post.range_ends_at_gt]
            r.comment == comment, // [P2s.post.frame_comment]
            r.attributes == attributes, // [P2s.post.frame_attributes]
            r == block_start_spec(comment, attributes, position_in_comment_range), // [P2s.post.is_spec]
//@edit rule=ghost before=<<Self { comment, attributes, start_tag_position_range, }>>
        proof {
            broadcast use axiom_range_inclusive_ext;
            assert(block_start_spec(comment, attributes, position_in_comment_range).start_tag_position_range@
                == start_tag_position_range@);
        }
//@end
}


//@include prelude/blockp_tagparser.rs

// ---------------------------------------------------------------------------------------------
// P4 — the tag iterator (`PartialBlocksIterator`), real text. It turns the comments of a file
// into the sequence of tag events that P1 pairs up. `events_from` is that sequence as a function
// of the iterator's state, defined by following the code's own case split:
//   (current comment, cursor in it, comments not yet fetched).
// The sequence is cut after the first `Err` item (nothing is promised after an error).

//@item file=src/block_parser.rs kind=struct name=PartialBlocksIterator

/// The start-tag record `BlockStart::new` builds (P2): the tag range runs from the position of
/// `<` to the position of `>`.
spec fn block_start_spec(c: Rc<Comment>, attributes: HashMap<String, String>, r: Range<usize>) -> BlockStart {
    BlockStart {
        comment: c,
        attributes: attributes,
        start_tag_position_range: range_incl_spec(
            source_position_spec(*c, r.start as nat), source_position_spec(*c, (r.end - 1) as nat)),
    }
}

spec fn item_of(c: Rc<Comment>, tag: BlockTag) -> PartialBlock {
    match tag {
        BlockTag::Start { tag_range, attributes } => PartialBlock::Start(block_start_spec(c, attributes, tag_range)),
        BlockTag::End { start_position } => PartialBlock::End(BlockEnd { comment: c, start_position: start_position }),
    }
}

spec fn events_from(cur: Option<Rc<Comment>>, cursor: usize, rest: Seq<Comment>) -> Seq<anyhow::Result<PartialBlock>>
    decreases rest.len(), (if cur is Some { 1int } else { 0int }),
        (if cur is Some { blen(cur->Some_0.comment_text@) - cursor } else { 0int }),
{
    match cur {
        None => if rest.len() == 0 { Seq::empty() } else { events_from(Some(rc_of(rest[0])), 0, rest.drop_first()) },
        Some(c) => {
            let s = scan_tag(c.comment_text@, cursor);
            match s.result {
                Err(e) => seq![Err(e)],
                Ok(None) => events_from(None, 0, rest),
                Ok(Some(tag)) =>
                    if cursor < s.cursor <= blen(c.comment_text@) {
                        seq![Ok(item_of(c, tag))] + events_from(Some(c), s.cursor, rest)
                    } else {
                        seq![Ok(item_of(c, tag))] // never taken: scan_wf
                    },
            }
        },
    }
}

/// The tag events of a file, given the comments its language parser will deliver.
#[verifier::prophetic]
spec fn tag_events<I: Iterator<Item = Comment>>(comments: I) -> Seq<anyhow::Result<PartialBlock>> {
    events_from(None, 0, comments.remaining())
}

/// T-ext: what is assumed about the comment source — it is a well-behaved finite iterator
/// (vstd's iterator laws, with a termination measure) and every comment satisfies `comment_wf`.
#[verifier::prophetic]
spec fn comments_wf<I: Iterator<Item = Comment>>(comments: I) -> bool {
    &&& comments.obeys_prophetic_iter_laws()
    &&& comments.decrease() is Some
    &&& forall|i: int| 0 <= i < comments.remaining().len() ==> comment_wf(#[trigger] comments.remaining()[i])
}

spec fn lex_lt(a: (int, int, int), b: (int, int, int)) -> bool {
    a.0 < b.0 || (a.0 == b.0 && (a.1 < b.1 || (a.1 == b.1 && a.2 < b.2)))
}
spec fn lex_le(a: (int, int, int), b: (int, int, int)) -> bool { a == b || lex_lt(a, b) }

impl BlockEnd {
//@unit id=P4e file=src/block_parser.rs fn=<<impl BlockEnd::new>> ret=r
//@contract
        ensures r == (BlockEnd { comment: end_tag_comment, start_position: start_position }), // [P4e.post.fields]
//@end
}

impl<I: Iterator<Item = Comment>> PartialBlocksIterator<I> {
    /// items still to be yielded (cut after the first `Err`)
    #[verifier::prophetic]
    spec fn pending(&self) -> Seq<anyhow::Result<PartialBlock>> {
        events_from(self.comment, self.tags_parser_cursor, self.comments.remaining())
    }

    #[verifier::prophetic]
    spec fn wf(&self) -> bool {
        &&& comments_wf(self.comments)
        &&& (self.comment matches Some(c) ==> comment_wf(*c))
    }

    /// termination measure (not prophetic): comments left, a comment in progress, bytes left in it
    spec fn measure(&self) -> (int, int, int) {
        (
            self.comments.decrease()->0 as int,
            if self.comment is Some { 1int } else { 0int },
            if self.comment is Some && self.tags_parser_cursor <= blen(self.comment->Some_0.comment_text@) {
                blen(self.comment->Some_0.comment_text@) - self.tags_parser_cursor
            } else {
                0int
            },
        )
    }

//@unit id=P4n file=src/block_parser.rs fn=<<impl<I: Iterator<Item = Comment>> PartialBlocksIterator<I>::new>> ret=r
//@contract
        requires comments_wf(comments),
        ensures
            r.pending() == tag_events(comments), // [P4n.post.pending_is_all_events]
            r.wf(),
//@end

//@unit id=P4 file=src/block_parser.rs fn=<<impl<I: Iterator<Item = Comment>> Iterator for PartialBlocksIterator<I>::next>>
//@sig rule=E7 was=<<fn next(&mut self) -> Option<Self::Item>>>
fn next(&mut self) -> (r: Option<anyhow::Result<PartialBlock>>)
//@contract
        requires old(self).wf(),
        ensures
            final(self).wf(),
            r is None ==> old(self).pending().len() == 0, // [P4.post.none_only_at_end]
            r matches Some(x) ==> old(self).pending().len() > 0 && x == old(self).pending()[0], // [P4.post.yields_next_event]
            r matches Some(Ok(_)) ==> final(self).pending() == old(self).pending().drop_first(), // [P4.post.rest_follows]
            r matches Some(Ok(_)) ==> lex_lt(final(self).measure(), old(self).measure()), // [P4.post.progress]
            final(self).measure().0 >= 0 && final(self).measure().1 >= 0 && final(self).measure().2 >= 0, // [P4.post.measure_nonneg]
//@edit rule=ghost after=<<loop>>
            invariant
                self.wf(),
                self.pending() == old(self).pending(), // [P4.inv.same_pending]
                lex_le(self.measure(), old(self).measure()), // [P4.inv.measure]
            decreases self.comments.decrease()->0, (if self.comment is Some { 1int } else { 0int }), // [P4.term.comments_left]
//@edit rule=ghost after=<<self.comment = Some(Rc::new(c));>>
                        proof {
                            // the comment just fetched is the head of what was still to come
                            assert(rc_val(self.comment->Some_0) == c);
                        }
//@edit rule=ghost before=<<let mut tags_parser>>
            let ghost cur = self.comment->Some_0;
            let ghost cursor0 = self.tags_parser_cursor;
            let ghost rest = self.comments.remaining();
//@edit rule=ghost before=<<return match block_tag_result>>
            proof {
                let s = scan_tag(cur.comment_text@, cursor0);
                assert(tags_parser.source@ == cur.comment_text@);
                assert(s.result == block_tag_result && s.cursor == self.tags_parser_cursor);
                assert(old(self).pending() == events_from(Some(cur), cursor0, rest));
                if block_tag_result is Ok && block_tag_result->Ok_0 is None {
                    assert(events_from(Some(cur), cursor0, rest) == events_from(None, 0, rest));
                    assert(events_from(None, self.tags_parser_cursor, rest) == events_from(None, 0, rest));
                }
                if block_tag_result is Ok && block_tag_result->Ok_0 is Some {
                    let tag = block_tag_result->Ok_0->Some_0;
                    assert(events_from(Some(cur), cursor0, rest)
                        == seq![Ok(item_of(cur, tag))] + events_from(Some(cur), s.cursor, rest));
                    assert((seq![Ok::<PartialBlock, anyhow::Error>(item_of(cur, tag))] + events_from(Some(cur), s.cursor, rest)).drop_first()
                        =~= events_from(Some(cur), s.cursor, rest));
                }
            }
//@end
}


// ---------------------------------------------------------------------------------------------
// P1 — specification (DESIGN A.3), from C03 "Tags pair innermost-first [...] blocks are reported
// in source order" and C12 "a start tag never closed, or an end tag with no open block, at any
// nesting depth [...] never guesses a pairing, drops the block, or reports success".
//
// `ev` is the sequence of items the tag iterator yields (E14). Everything below is defined on
// event *indices*, so "one block per start tag" is a statement about positions in the file.

spec fn is_start(ev: Seq<anyhow::Result<PartialBlock>>, i: int) -> bool {
    ev[i] matches Ok(PartialBlock::Start(_))
}
spec fn is_end(ev: Seq<anyhow::Result<PartialBlock>>, i: int) -> bool {
    ev[i] matches Ok(PartialBlock::End(_))
}
spec fn start_of(ev: Seq<anyhow::Result<PartialBlock>>, i: int) -> BlockStart {
    ev[i]->Ok_0->Start_0
}
spec fn end_of(ev: Seq<anyhow::Result<PartialBlock>>, i: int) -> BlockEnd {
    ev[i]->Ok_0->End_0
}

/// Indices of the start tags among ev[..k] that are still open, oldest first.
/// None: the prefix is already in error (an `Err` item, or an end tag that met no open block).
spec fn stack_after(ev: Seq<anyhow::Result<PartialBlock>>, k: int) -> Option<Seq<int>>
    decreases k
{
    if k <= 0 {
        Some(Seq::<int>::empty())
    } else {
        match stack_after(ev, k - 1) {
            None => None,
            Some(st) =>
                if is_start(ev, k - 1) { Some(st.push(k - 1)) }
                else if is_end(ev, k - 1) { if st.len() > 0 { Some(st.drop_last()) } else { None } }
                else { None },
        }
    }
}

/// (start index, end index) of the pairs closed within ev[..k], in the order of their end tags.
/// An end tag closes the most recent start tag that is still open (innermost-first).
spec fn pairs_after(ev: Seq<anyhow::Result<PartialBlock>>, k: int) -> Seq<(int, int)>
    decreases k
{
    if k <= 0 {
        Seq::<(int, int)>::empty()
    } else {
        match stack_after(ev, k - 1) {
            Some(st) if is_end(ev, k - 1) && st.len() > 0 => pairs_after(ev, k - 1).push((st.last(), k - 1)),
            _ => pairs_after(ev, k - 1),
        }
    }
}

spec fn balanced(ev: Seq<anyhow::Result<PartialBlock>>) -> bool {
    stack_after(ev, ev.len() as int) == Some(Seq::<int>::empty())
}

spec fn count_starts(ev: Seq<anyhow::Result<PartialBlock>>, k: int) -> nat
    decreases k
{
    if k <= 0 { 0 } else { count_starts(ev, k - 1) + if is_start(ev, k - 1) { 1nat } else { 0nat } }
}

spec fn block_of(ev: Seq<anyhow::Result<PartialBlock>>, p: (int, int)) -> Block {
    into_block_spec(end_of(ev, p.1), start_of(ev, p.0))
}

/// The blocks of a balanced event sequence, in the order of their end tags.
spec fn pair_blocks(ev: Seq<anyhow::Result<PartialBlock>>, k: int) -> Seq<Block> {
    Seq::new(pairs_after(ev, k).len(), |i: int| block_of(ev, pairs_after(ev, k)[i]))
}

/// Once in error, always in error.
proof fn lemma_error_is_sticky(ev: Seq<anyhow::Result<PartialBlock>>, j: int, m: int)
    requires 0 <= j <= m, stack_after(ev, j) is None,
    ensures stack_after(ev, m) is None,
    decreases m
{
    if j < m { lemma_error_is_sticky(ev, j, m - 1); }
}

/// A prefix that is not in error consists of tags only, and every end tag met an open block.
proof fn lemma_ok_prefix(ev: Seq<anyhow::Result<PartialBlock>>, m: int)
    requires 0 <= m <= ev.len(), stack_after(ev, m) is Some,
    ensures
        forall|k: int| 0 <= k < m ==> (#[trigger] ev[k]) is Ok,
        forall|k: int| 0 <= k < m ==> #[trigger] stack_after(ev, k) is Some
            && (is_end(ev, k) ==> stack_after(ev, k)->Some_0.len() > 0),
    decreases m
{
    if m > 0 { lemma_ok_prefix(ev, m - 1); }
}

/// open + closed = number of start tags seen
proof fn lemma_count(ev: Seq<anyhow::Result<PartialBlock>>, k: int)
    requires 0 <= k, stack_after(ev, k) is Some,
    ensures stack_after(ev, k)->Some_0.len() + pairs_after(ev, k).len() == count_starts(ev, k),
    decreases k
{
    if k > 0 { lemma_count(ev, k - 1); }
}


/// What the recursive definitions mean (proved, nothing assumed). For a prefix that is not in
/// error: the open stack holds start tags in file order; every pair is (start tag, later end tag);
/// no start tag is used twice or both used and open (`pairing_struct`); every start tag seen is
/// open or paired and every end tag seen is paired (`pairing_cover`). Together with `lemma_count`
/// this is "exactly one block per start tag" when the stack is empty at the end.
/// (opaque: P1 only passes the two facts on; their quantifiers are not needed in its proof.)
#[verifier::opaque]
spec fn pairing_struct(ev: Seq<anyhow::Result<PartialBlock>>, k: int) -> bool {
    let st = stack_after(ev, k)->Some_0;
    let ps = pairs_after(ev, k);
    &&& forall|x: int| 0 <= x < st.len() ==> 0 <= #[trigger] st[x] < k && is_start(ev, st[x])
    &&& forall|x: int, y: int| 0 <= x < y < st.len() ==> #[trigger] st[x] < #[trigger] st[y]
    &&& forall|a: int| 0 <= a < ps.len() ==> 0 <= (#[trigger] ps[a]).0 < ps[a].1 < k && is_start(ev, ps[a].0) && is_end(ev, ps[a].1)
    &&& forall|a: int, b: int| 0 <= a < b < ps.len() ==> (#[trigger] ps[a]).0 != (#[trigger] ps[b]).0 && ps[a].1 < ps[b].1
    &&& forall|a: int, x: int| 0 <= a < ps.len() && 0 <= x < st.len() ==> (#[trigger] ps[a]).0 != #[trigger] st[x]
}

spec fn start_is_open(ev: Seq<anyhow::Result<PartialBlock>>, k: int, i: int) -> bool {
    exists|x: int| 0 <= x < stack_after(ev, k)->Some_0.len() && stack_after(ev, k)->Some_0[x] == i
}
spec fn start_is_paired(ev: Seq<anyhow::Result<PartialBlock>>, k: int, i: int) -> bool {
    exists|a: int| 0 <= a < pairs_after(ev, k).len() && pairs_after(ev, k)[a].0 == i
}
spec fn end_is_paired(ev: Seq<anyhow::Result<PartialBlock>>, k: int, j: int) -> bool {
    exists|a: int| 0 <= a < pairs_after(ev, k).len() && pairs_after(ev, k)[a].1 == j
}

#[verifier::opaque]
spec fn pairing_cover(ev: Seq<anyhow::Result<PartialBlock>>, k: int) -> bool {
    &&& forall|i: int| 0 <= i < k && #[trigger] is_start(ev, i) ==> start_is_open(ev, k, i) || start_is_paired(ev, k, i)
    &&& forall|j: int| 0 <= j < k && #[trigger] is_end(ev, j) ==> end_is_paired(ev, k, j)
}

spec fn pairing_wf(ev: Seq<anyhow::Result<PartialBlock>>, k: int) -> bool {
    pairing_struct(ev, k) && pairing_cover(ev, k)
}

proof fn lemma_pairing_struct(ev: Seq<anyhow::Result<PartialBlock>>, k: int)
    requires 0 <= k <= ev.len(), stack_after(ev, k) is Some,
    ensures pairing_struct(ev, k),
    decreases k
{
    reveal(pairing_struct);
    if k > 0 {
        lemma_pairing_struct(ev, k - 1);
        let st0 = stack_after(ev, k - 1)->Some_0;
        let ps0 = pairs_after(ev, k - 1);
        if is_start(ev, k - 1) {
            assert(stack_after(ev, k)->Some_0 == st0.push(k - 1));
            assert(pairs_after(ev, k) == ps0);
        } else {
            assert(is_end(ev, k - 1) && st0.len() > 0);
            assert(stack_after(ev, k)->Some_0 == st0.drop_last());
            assert(pairs_after(ev, k) == ps0.push((st0.last(), k - 1)));
        }
    }
}

proof fn lemma_pairing_cover(ev: Seq<anyhow::Result<PartialBlock>>, k: int)
    requires 0 <= k <= ev.len(), stack_after(ev, k) is Some,
    ensures pairing_cover(ev, k),
    decreases k
{
    reveal(pairing_cover);
    if k > 0 {
        lemma_pairing_cover(ev, k - 1);
        let st0 = stack_after(ev, k - 1)->Some_0;
        let ps0 = pairs_after(ev, k - 1);
        let st = stack_after(ev, k)->Some_0;
        let ps = pairs_after(ev, k);
        if is_start(ev, k - 1) {
            assert(st == st0.push(k - 1));
            assert(ps == ps0);
            assert forall|i: int| 0 <= i < k && #[trigger] is_start(ev, i) implies
                start_is_open(ev, k, i) || start_is_paired(ev, k, i) by {
                if i == k - 1 {
                    assert(st[st.len() - 1] == i);
                } else if start_is_open(ev, k - 1, i) {
                    let x = choose|x: int| 0 <= x < st0.len() && st0[x] == i;
                    assert(st[x] == i);
                } else {
                    assert(start_is_paired(ev, k - 1, i));
                }
            }
            assert forall|j: int| 0 <= j < k && #[trigger] is_end(ev, j) implies end_is_paired(ev, k, j) by {
                assert(end_is_paired(ev, k - 1, j));
            }
        } else {
            assert(is_end(ev, k - 1) && st0.len() > 0);
            assert(st == st0.drop_last());
            assert(ps == ps0.push((st0.last(), k - 1)));
            assert forall|i: int| 0 <= i < k && #[trigger] is_start(ev, i) implies
                start_is_open(ev, k, i) || start_is_paired(ev, k, i) by {
                if start_is_open(ev, k - 1, i) {
                    let x = choose|x: int| 0 <= x < st0.len() && st0[x] == i;
                    if x == st0.len() - 1 { assert(ps[ps.len() - 1].0 == i); } else { assert(st[x] == i); }
                } else {
                    assert(start_is_paired(ev, k - 1, i));
                    let a = choose|a: int| 0 <= a < ps0.len() && ps0[a].0 == i;
                    assert(ps[a].0 == i);
                }
            }
            assert forall|j: int| 0 <= j < k && #[trigger] is_end(ev, j) implies end_is_paired(ev, k, j) by {
                if j == k - 1 { assert(ps[ps.len() - 1].1 == j); } else {
                    assert(end_is_paired(ev, k - 1, j));
                    let a = choose|a: int| 0 <= a < ps0.len() && ps0[a].1 == j;
                    assert(ps[a].1 == j);
                }
            }
        }
    }
}

//@unit id=P1 file=src/block_parser.rs fn=parse_blocks_from_comments ret=r
//@contract
    requires
        comments_wf(comments),
    ensures
        (forall|k: int| 0 <= k < tag_events(comments).len() && is_end(tag_events(comments), k) // [P1.post.unexpected_end_is_err]
            && stack_after(tag_events(comments), k) == Some(Seq::<int>::empty()) ==> r is Err),
        (stack_after(tag_events(comments), tag_events(comments).len() as int) matches Some(st) && st.len() > 0 ==> r is Err), // [P1.post.unclosed_is_err]
        (forall|k: int| 0 <= k < tag_events(comments).len() && tag_events(comments)[k] is Err ==> r is Err), // [P1.post.tag_error_is_err]
        r is Err ==> !balanced(tag_events(comments)), // [P1.post.err_only_if_unbalanced]
        r is Ok <==> balanced(tag_events(comments)), // [P1.post.ok_iff_balanced]
        r matches Ok(v) ==> v@.to_multiset() == pair_blocks(tag_events(comments), tag_events(comments).len() as int).to_multiset(), // [P1.post.blocks_are_the_lifo_pairs]
        r matches Ok(v) ==> v@.len() == count_starts(tag_events(comments), tag_events(comments).len() as int), // [P1.post.one_block_per_start_tag]
        r is Ok ==> pairing_wf(tag_events(comments), tag_events(comments).len() as int), // [P1.post.pairing_is_one_to_one]
        r matches Ok(v) ==> forall|i: int, j: int| 0 <= i < j < v@.len() ==> // [P1.post.sorted_by_start_tag]
            pos_le((#[trigger] v@[i]).start_tag_position_range@.start, (#[trigger] v@[j]).start_tag_position_range@.start),
//@macro rule=E1 name=anyhow to=<<anyhow::verif_err()>>
//@edit rule=E14 find=<<for partial_block in PartialBlocksIterator::new(comments) {>>
let mut it = PartialBlocksIterator::new(comments);
    let ghost ev = it.pending();
    let ghost mut k: int = 0;
    loop
        invariant_except_break
            it.pending() == ev.skip(k), // [P1.inv.cursor]
        invariant
            ev == tag_events(comments),
            it.wf(),
            0 <= k <= ev.len(),
            stack_after(ev, k) is Some, // [P1.inv.no_error_so_far]
            block_starts@.len() == stack_after(ev, k)->Some_0.len(), // [P1.inv.stack_len]
            forall|i: int| 0 <= i < block_starts@.len() ==> // [P1.inv.stack]
                #[trigger] block_starts@[i] == start_of(ev, stack_after(ev, k)->Some_0[i]),
            blocks@ == pair_blocks(ev, k), // [P1.inv.pairs]
        ensures
            k == ev.len(), // [P1.inv.all_events_consumed]
        decreases it.measure().0, it.measure().1, it.measure().2 // [P1.term.iterator_measure]
    { match it.next() { Some(partial_block) => {
        proof {
            assert(ev.skip(k)[0] == ev[k]);
            assert(ev.skip(k).drop_first() =~= ev.skip(k + 1));
            k = k + 1;
            if partial_block is Err {
                lemma_error_is_sticky(ev, k, ev.len() as int);
            }
        }
//@edit rule=E14 before=<<if let Some(unclosed_block)>>
None => { break; } } }
//@edit rule=ghost after=<<return Err(anyhow::verif_err()); }>> nth=1 of=2
    proof {
        assert(stack_after(ev, k)->Some_0 =~= Seq::<int>::empty()); // [P1.proof.no_open_block_left]
        lemma_ok_prefix(ev, k);
        lemma_count(ev, k);
        lemma_pairing_struct(ev, k);
        lemma_pairing_cover(ev, k);
    }
//@edit rule=ghost before=<<return Err(>> nth=0 of=2
                    proof { lemma_error_is_sticky(ev, k, ev.len() as int); }
//@closure rule=E12 find=<<|a, b|>> params=<<|a: &Block, b: &Block|>> ret=<<o: Ordering>>
        ensures o == pos_cmp(a.start_tag_position_range@.start, b.start_tag_position_range@.start), // [P1.closure.cmp]
//@end


} // verus!
fn main() {}
