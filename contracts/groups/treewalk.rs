// Group `treewalk`: src/language_parsers/mod.rs — the depth-first walk of the tree-sitter syntax
// tree that yields the comments every other proof starts from (C03 "reported in source order",
// C04 termination / no panic, C20 the comment sequence is a function of tree, visitor and text).
// Units (all bodies are the real text of /repo):
//   W1  CommentsIterator::comment_from_current_node   the Comment of the node under the cursor
//   W2  CommentsIterator::new                         cursor at the root, nothing yielded yet
//   W3  <CommentsIterator as Iterator>::next          the k-th call yields the k-th comment node in pre-order
//   W4  TreeSitterCommentsParser::parse               parse + `new`; `unwrap` of the parse result is a precondition
//   Pnew Position::new                                frame
// Proved lemmas about the specification itself: `lemma_comments_meaning` (each recognised node exactly
// once, strictly increasing pre-order index, none skipped), `lemma_comments_in_source_order` (under the
// T-ext premise `spans_ordered`), and the hand-written client `client_drain` (calling `next` until `None`
// yields exactly `comments_in_preorder`).
// Assumed: the tree-sitter cursor contract (prelude/treewalk_ts.rs). Proved, not assumed: the
// theory of finite ordered trees and their pre-order listing (prelude/treewalk_tree.rs).
// See treewalk.notes.md.
use vstd::prelude::*;
use std::ops::Range;

verus! {

//@include prelude/treewalk_tree.rs
//@include prelude/treewalk_ts.rs
//@include prelude/treewalk_order.rs

//@item file=src/lib.rs kind=struct name=Position
//@item file=src/language_parsers/mod.rs kind=struct name=Comment
//@item file=src/language_parsers/mod.rs kind=struct name=CommentsIterator
//@item file=src/language_parsers/mod.rs kind=struct name=TreeSitterCommentsParser

// ---------------------------------------------------------------------------------------------
// Specification, written from the statement of C03 ("the blocks blockwatch finds are exactly the
// ... pairs that appear inside comments ... reported in source order") and C10 (1-based
// line/column), not from the code.

/// The `Comment` of a comment node: the visitor's text, the node's byte range, and the node's
/// start/end position made 1-based (tree-sitter rows and columns are zero-based).
pub open spec fn comment_of(node: Node<'_>, text: String) -> Comment {
    Comment {
        position_range: Range {
            start: Position {
                line: (node.spec_start_position().row + 1) as usize,
                character: (node.spec_start_position().column + 1) as usize,
            },
            end: Position {
                line: (node.spec_end_position().row + 1) as usize,
                character: (node.spec_end_position().column + 1) as usize,
            },
        },
        source_range: Range { start: node.spec_start_byte(), end: node.spec_end_byte() },
        comment_text: text,
    }
}

/// What a node contributes: nothing if the visitor does not recognise it as a comment.
pub open spec fn comment_for(node: Node<'_>, v: NodeVisitor, src: Seq<char>) -> Option<Comment> {
    match v.visit_spec(node, src) {
        Some(text) => Some(comment_of(node, text)),
        None => None,
    }
}

/// The comments of the nodes `s[k..]`, in the order of `s`: one per node the visitor answers `Some` for.
pub open spec fn comments_from(s: Seq<Node<'_>>, k: int, v: NodeVisitor, src: Seq<char>) -> Seq<Comment>
    decreases s.len() - k
{
    if k < 0 || k >= s.len() {
        Seq::empty()
    } else {
        match comment_for(s[k], v, src) {
            Some(c) => seq![c] + comments_from(s, k + 1, v, src),
            None => comments_from(s, k + 1, v, src),
        }
    }
}

/// C03: the comments of a syntax tree — the comment of every node the visitor answers `Some` for,
/// each exactly once, in pre-order (depth-first, a node before its children, children before later
/// siblings; for a tree-sitter tree that is source order).
pub open spec fn comments_in_preorder(t: GTree<Node<'_>>, v: NodeVisitor, src: Seq<char>) -> Seq<Comment> {
    comments_from(pre(t), 0, v, src)
}

/// What `comments_from` means, spelled out (proved, nothing assumed): the indices of the nodes the
/// visitor recognises, ascending ...
pub open spec fn comment_nodes_from(s: Seq<Node<'_>>, k: int, v: NodeVisitor, src: Seq<char>) -> Seq<int>
    decreases s.len() - k
{
    if k < 0 || k >= s.len() {
        Seq::empty()
    } else if comment_for(s[k], v, src) is Some {
        seq![k] + comment_nodes_from(s, k + 1, v, src)
    } else {
        comment_nodes_from(s, k + 1, v, src)
    }
}

/// ... and the facts that make "exactly the comment nodes, each once, in pre-order" precise:
/// the i-th comment is the comment of the i-th recognised node; the node indices strictly increase
/// (source order, no node twice); every recognised node occurs (none skipped).
pub proof fn lemma_comments_meaning(s: Seq<Node<'_>>, k: int, v: NodeVisitor, src: Seq<char>)
    requires 0 <= k,
    ensures
        comments_from(s, k, v, src).len() == comment_nodes_from(s, k, v, src).len(), // [W3.meaning.one_comment_per_recognised_node]
        forall|i: int| 0 <= i < comment_nodes_from(s, k, v, src).len() ==> // [W3.meaning.each_comment_is_of_a_recognised_node]
            k <= (#[trigger] comment_nodes_from(s, k, v, src)[i]) < s.len()
            && comment_for(s[comment_nodes_from(s, k, v, src)[i]], v, src) == Some(comments_from(s, k, v, src)[i]),
        forall|i: int, j: int| 0 <= i < j < comment_nodes_from(s, k, v, src).len() ==> // [W3.meaning.strictly_increasing_no_duplicates]
            (#[trigger] comment_nodes_from(s, k, v, src)[i]) < (#[trigger] comment_nodes_from(s, k, v, src)[j]),
        forall|m: int| k <= m < s.len() && (#[trigger] comment_for(s[m], v, src)) is Some ==> // [W3.meaning.none_skipped]
            comment_nodes_from(s, k, v, src).contains(m),
    decreases s.len() - k
{
    if k < s.len() {
        lemma_comments_meaning(s, k + 1, v, src);
        let ix1 = comment_nodes_from(s, k + 1, v, src);
        let ix = comment_nodes_from(s, k, v, src);
        if comment_for(s[k], v, src) is Some {
            assert(ix == seq![k] + ix1);
            assert(forall|i: int| 1 <= i < ix.len() ==> #[trigger] ix[i] == ix1[i - 1]);
            assert(ix[0] == k);
            assert forall|m: int| k <= m < s.len() && (#[trigger] comment_for(s[m], v, src)) is Some implies ix.contains(m) by {
                if m > k {
                    let i1 = choose|i1: int| 0 <= i1 < ix1.len() && ix1[i1] == m;
                    assert(ix[i1 + 1] == m);
                }
            }
        } else {
            assert(ix == ix1);
        }
    }
}

/// C03 "reported in source order": under the T-ext premise `spans_ordered` (children inside their
/// parent's byte span, siblings ordered by position) the comments of a tree come with
/// non-decreasing start byte. Proved from `lemma_comments_meaning` and `lemma_pre_sorted`.
pub proof fn lemma_comments_in_source_order(t: GTree<Node<'_>>, v: NodeVisitor, src: Seq<char>)
    requires spans_ordered(t),
    ensures
        forall|i: int, j: int| 0 <= i < j < comments_in_preorder(t, v, src).len() ==> // [W3.meaning.source_order]
            (#[trigger] comments_in_preorder(t, v, src)[i]).source_range.start <= (#[trigger] comments_in_preorder(t, v, src)[j]).source_range.start,
{
    let s = pre(t);
    let cs = comments_in_preorder(t, v, src);
    let ix = comment_nodes_from(s, 0, v, src);
    lemma_comments_meaning(s, 0, v, src);
    lemma_pre_sorted(t);
    assert forall|i: int, j: int| 0 <= i < j < cs.len() implies
        (#[trigger] cs[i]).source_range.start <= (#[trigger] cs[j]).source_range.start by {
        assert(comment_for(s[ix[i]], v, src) == Some(cs[i]));
        assert(comment_for(s[ix[j]], v, src) == Some(cs[j]));
        assert(ix[i] < ix[j]);
        assert(n_start(s[ix[i]]) <= n_start(s[ix[j]]));
    }
}

impl Position {
//@unit id=Pnew file=src/lib.rs fn=<<impl Position::new>> ret=r
//@contract
        ensures r.line == line, r.character == character, // [Pnew.post.fields]
//@end
}

impl<'source> CommentsIterator<'source> {
    /// the cursor is on a node of its tree, the tree satisfies the T-ext position bound, and the
    /// walk starts at the root
    pub open spec fn wf(&self) -> bool {
        &&& valid(self.cursor.tree(), self.cursor.path())
        &&& positions_fit(self.cursor.tree())
        &&& (!self.start_visited ==> self.cursor.path().len() == 0)
    }

    /// Abstract state: how many nodes of the pre-order listing have been passed. Before the first
    /// call none; afterwards the cursor rests on the last node passed.
    pub open spec fn passed(&self) -> int {
        if self.start_visited { rank(self.cursor.tree(), self.cursor.path()) + 1 } else { 0 }
    }

    /// the comments still to be yielded: those of the nodes not yet passed, in pre-order
    pub open spec fn remaining(&self) -> Seq<Comment> {
        comments_from(pre(self.cursor.tree()), self.passed(), *self.node_visitor, self.source_code@)
    }

    /// termination measure for a caller's loop: nodes not yet passed
    pub open spec fn measure(&self) -> int {
        size(self.cursor.tree()) - self.passed()
    }

//@unit id=W2 file=src/language_parsers/mod.rs fn=<<impl<'source> CommentsIterator<'source>::new>> ret=r
//@contract
        requires
            positions_fit(tree.model()), // [W2.pre.positions_fit]
        ensures
            r.cursor.tree() == tree.model() && r.cursor.path().len() == 0, // [W2.post.cursor_at_root]
            !r.start_visited, // [W2.post.root_not_yet_visited]
            r.node_visitor == node_visitor && r.source_code == source_code, // [W2.post.frame]
            r.remaining() == comments_in_preorder(tree.model(), *node_visitor, source_code@), // [W2.post.everything_still_to_come]
            r.wf(),
//@end

//@unit id=W1 file=src/language_parsers/mod.rs fn=<<impl<'source> CommentsIterator<'source>::comment_from_current_node>> ret=r
//@contract
        requires
            valid(self.cursor.tree(), self.cursor.path()),
            positions_fit(self.cursor.tree()), // [W1.pre.positions_fit]
        ensures
            r is None <==> self.node_visitor.visit_spec(sub(self.cursor.tree(), self.cursor.path()).node, self.source_code@) is None, // [W1.post.none_iff_visitor_none]
            r matches Some(c) ==> Some(c.comment_text) == self.node_visitor.visit_spec(sub(self.cursor.tree(), self.cursor.path()).node, self.source_code@), // [W1.post.text_is_visitor_text]
            r matches Some(c) ==> c.source_range.start == sub(self.cursor.tree(), self.cursor.path()).node.spec_start_byte() // [W1.post.source_range_is_node_byte_range]
                && c.source_range.end == sub(self.cursor.tree(), self.cursor.path()).node.spec_end_byte(),
            r matches Some(c) ==> c.position_range.start.line == sub(self.cursor.tree(), self.cursor.path()).node.spec_start_position().row + 1, // [W1.post.start_line_one_based]
            r matches Some(c) ==> c.position_range.start.character == sub(self.cursor.tree(), self.cursor.path()).node.spec_start_position().column + 1, // [W1.post.start_column_one_based]
            r matches Some(c) ==> c.position_range.end.line == sub(self.cursor.tree(), self.cursor.path()).node.spec_end_position().row + 1, // [W1.post.end_line_one_based]
            r matches Some(c) ==> c.position_range.end.character == sub(self.cursor.tree(), self.cursor.path()).node.spec_end_position().column + 1, // [W1.post.end_column_one_based]
            r == comment_for(sub(self.cursor.tree(), self.cursor.path()).node, *self.node_visitor, self.source_code@), // [W1.post.is_spec]
//@edit rule=E20 find=<<visitor(>> optional=1
visitor.call(
//@edit rule=E20 find=<<(self.node_visitor)(>> optional=1
self.node_visitor.call(
//@end

//@unit id=W3 file=src/language_parsers/mod.rs fn=<<impl<'source> Iterator for CommentsIterator<'source>::next>>
//@sig rule=E7 was=<<fn next(&mut self) -> Option<Self::Item>>>
fn next(&mut self) -> (r: Option<Comment>)
//@contract
        requires
            old(self).wf(),
        ensures
            final(self).wf(),
            final(self).cursor.tree() == old(self).cursor.tree() && final(self).node_visitor == old(self).node_visitor // [W3.post.frame]
                && final(self).source_code == old(self).source_code,
            r is None ==> old(self).remaining().len() == 0, // [W3.post.none_only_at_end]
            r matches Some(c) ==> old(self).remaining().len() > 0 && c == old(self).remaining()[0], // [W3.post.yields_next_comment_in_preorder]
            r matches Some(c) ==> old(self).remaining() == seq![c] + final(self).remaining(), // [W3.post.rest_follows]
            r is Some ==> final(self).measure() < old(self).measure(), // [W3.post.progress]
            final(self).measure() >= 0, // [W3.post.measure_nonneg]
//@edit rule=ghost at=body_start
        proof { lemma_moves(self.cursor.tree(), self.cursor.path()); }
//@edit rule=ghost after=<<loop {>> nth=0 of=2
            let ghost r0 = rank(self.cursor.tree(), self.cursor.path());
            proof { lemma_moves(self.cursor.tree(), self.cursor.path()); }
//@edit rule=ghost after=<<loop {>> nth=1 of=2
                proof {
                    lemma_moves(self.cursor.tree(), self.cursor.path());
                    if self.cursor.path().len() > 0 {
                        lemma_moves(self.cursor.tree(), self.cursor.path().drop_last());
                    }
                }
//@edit rule=ghost after=<<loop>> nth=0 of=2
            invariant
                self.cursor.tree() == old(self).cursor.tree() && self.node_visitor == old(self).node_visitor // [W3.inv.frame]
                    && self.source_code == old(self).source_code,
                positions_fit(self.cursor.tree()),
                self.start_visited,
                valid(self.cursor.tree(), self.cursor.path()), // [W3.inv.cursor_on_a_node]
                // the node under the cursor is the last one passed: nothing before or at it is still owed
                comments_from(pre(self.cursor.tree()), rank(self.cursor.tree(), self.cursor.path()) + 1, *self.node_visitor, self.source_code@) // [W3.inv.no_comment_skipped]
                    == old(self).remaining(),
                rank(self.cursor.tree(), self.cursor.path()) + 1 >= old(self).passed(), // [W3.inv.never_backwards]
            decreases size(self.cursor.tree()) - rank(self.cursor.tree(), self.cursor.path()), // [W3.term.nodes_not_yet_passed]
//@edit rule=ghost after=<<loop>> nth=1 of=2
                invariant_except_break
                    // the node under the cursor and its whole subtree are passed, and it is a last child
                    // (or the root): the climb goes on
                    !has_next_sibling(self.cursor.tree(), self.cursor.path()), // [W3.inv2.no_sibling_left_here]
                    comments_from(pre(self.cursor.tree()), // [W3.inv2.subtree_done_no_comment_skipped]
                        rank(self.cursor.tree(), self.cursor.path()) + size(sub(self.cursor.tree(), self.cursor.path())),
                        *self.node_visitor, self.source_code@) == old(self).remaining(),
                    rank(self.cursor.tree(), self.cursor.path()) + size(sub(self.cursor.tree(), self.cursor.path())) > r0, // [W3.inv2.progress]
                invariant
                    self.cursor.tree() == old(self).cursor.tree() && self.node_visitor == old(self).node_visitor // [W3.inv2.frame]
                        && self.source_code == old(self).source_code,
                    positions_fit(self.cursor.tree()),
                    self.start_visited,
                    r0 + 1 >= old(self).passed(),
                    valid(self.cursor.tree(), self.cursor.path()), // [W3.inv2.cursor_on_a_node]
                ensures
                    comments_from(pre(self.cursor.tree()), rank(self.cursor.tree(), self.cursor.path()) + 1, *self.node_visitor, self.source_code@) // [W3.inv2.break_no_comment_skipped]
                        == old(self).remaining(),
                    r0 < rank(self.cursor.tree(), self.cursor.path()) < size(self.cursor.tree()), // [W3.inv2.break_progress]
                decreases self.cursor.path().len(), // [W3.term.depth]
//@end
}

// ---------------------------------------------------------------------------------------------
// Client of the W2/W3 contracts (hand-written, NOT repo code; it is what a `for` loop over the
// iterator does, rule E14): calling `next` until the first `None` produces exactly
// `comments_in_preorder`, i.e. the k-th call returns the k-th comment and `None` comes after the
// last one; the loop terminates by `measure()`. Shows that the contract is strong enough for the
// consumer (blockpairs P1/P4 iterate in this shape).
fn client_drain<'a>(tree: &'a Tree, node_visitor: &'a NodeVisitor, source_code: &'a str) -> (out: Vec<Comment>)
    requires positions_fit(tree.model()),
    ensures out@ == comments_in_preorder(tree.model(), *node_visitor, source_code@), // [W3.client.drain_yields_exactly_the_preorder_comments]
{
    let mut it = CommentsIterator::new(tree, node_visitor, source_code);
    let mut out: Vec<Comment> = Vec::new();
    let ghost all = it.remaining();
    loop
        invariant_except_break
            out@ + it.remaining() == all, // [W3.client.kth_call_yields_kth_comment]
        invariant
            it.wf(),
            all == comments_in_preorder(tree.model(), *node_visitor, source_code@),
        ensures
            out@ == all,
        decreases it.measure(),
    {
        let ghost before = it.remaining();
        match it.next() {
            Some(c) => {
                out.push(c);
                proof { assert(out@ + it.remaining() =~= (out@.drop_last() + (seq![c] + it.remaining()))); }
            }
            None => {
                proof { assert(out@ + before =~= out@); }
                break;
            }
        }
    }
    out
}

impl TreeSitterCommentsParser {
//@unit id=W4 file=src/language_parsers/mod.rs fn=<<impl CommentsParser for TreeSitterCommentsParser::parse>>
//@sig rule=E7 was=<<fn parse<'a>(&'a mut self, source_code: &'a str) -> impl Iterator<Item = Comment> + 'a>>
fn parse<'a>(&'a mut self, source_code: &'a str) -> (r: CommentsIterator<'a>)
//@contract
        requires
            // C04 panic site `parser.parse(source_code, None).unwrap()`: tree-sitter returns a tree.
            // True whenever a language has been assigned (`TreeSitterCommentsParser::new` does it or
            // panics) — `Parser::parse` of 0.26.3 has no timeout / cancellation / progress option.
            old(self).parser.parse_spec(source_code@) is Some, // [W4.pre.tree_sitter_returns_a_tree]
        ensures
            final(self).tree == old(self).parser.parse_spec(source_code@), // [W4.post.tree_kept_alive_in_self]
            r.cursor.tree() == old(self).parser.parse_spec(source_code@)->Some_0.model() && r.cursor.path().len() == 0, // [W4.post.cursor_at_root_of_parsed_tree]
            !r.start_visited, // [W4.post.root_not_yet_visited]
            *r.node_visitor == old(self).node_visitor && r.source_code == source_code, // [W4.post.visitor_and_source]
            r.remaining() == comments_in_preorder(old(self).parser.parse_spec(source_code@)->Some_0.model(), old(self).node_visitor, source_code@), // [W4.post.iterator_is_new_on_parsed_tree]
            r.wf(),
//@end
}

} // verus!
fn main() {}
