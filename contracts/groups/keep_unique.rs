// Group `keep_unique`: V2 — the duplicate-detection loop of KeepUniqueValidator::validate and its
// create_violation (properties C07, C10 position, C13 error clauses, C04 safety).
use vstd::prelude::*;
use std::cmp::Ordering;
use std::collections::{HashMap, HashSet};
use std::ops::{Range, RangeInclusive};
use std::path::{Path, PathBuf};

//@include prelude/anyhow.rs
//@include prelude/tstr_mod.rs
//@include prelude/regex.rs

verus! {

//@include prelude/std_range.rs
//@include prelude/strings.rs
//@include prelude/domain.rs
//@include prelude/block_fns.rs

//@item file=src/validators/keep_unique.rs kind=struct name=KeepUniqueValidator

// ---- specification (from property C07) -------------------------------------------------------
// key of a line: without a regex the trimmed line (blank lines have no key); with a regex the
// `value` group if it participates, else the whole match, else (no match) no key.
/// (key text, 1-based first byte column of the key within its line, 1-based last byte column)
/// C10: "1-based byte columns delimit exactly the offending key": the last column of a key that
/// occupies bytes [start, end) of the line is `end`; an EMPTY key (a pattern that matches the empty
/// string on a non-blank line) occupies no byte, its range is the one column at which it was found
/// -- never a column 0 and never an end before the start.
spec fn key_end_col(start: int, end: int) -> int {
    if end > start { end } else { start + 1 }
}

spec fn key_info(re: Option<Result<regex::Regex, regex::Error>>, line: Seq<char>) -> Option<(Seq<char>, int, int)> {
    match re {
        None => if is_blank(line) { None } else {
            Some((trim_spec(line), (trim_lead(line) + 1) as int, trim_lead(line) + 1 + blen(trim_spec(line)) - 1))
        },
        // blank lines are ignored under a pattern as well (C06/C07: "blank and non-matching lines are ignored")
        Some(Ok(r)) =>
            if is_blank(line) || !regex::re_is_match(r, line) { None }
            else {
                match regex::re_group_named(r, line, "value"@) {
                    Some(m) => Some((m.text, (m.start + 1) as int, key_end_col(m.start as int, m.end as int))),
                    None => match regex::re_group(r, line, 0) { Some(m) => Some((m.text, (m.start + 1) as int, key_end_col(m.start as int, m.end as int))), None => None },
                }
            },
        Some(Err(_)) => None,
    }
}

spec fn key_of(re: Option<Result<regex::Regex, regex::Error>>, line: Seq<char>) -> Option<Seq<char>> {
    match key_info(re, line) { Some(k) => Some(k.0), None => None }
}

/// the diagnostic's range for content line i: the key's byte span moved to file coordinates
spec fn key_range_ok(v: Violation, b: Block, re: Option<Result<regex::Regex, regex::Error>>, content: Seq<char>, i: int) -> bool {
    &&& 0 <= i < lines_of(content).len()
    &&& key_info(re, lines_of(content)[i]) is Some
    &&& v.range.start.line == content_line_no(b, i)
    &&& v.range.end.line == content_line_no(b, i)
    &&& v.range.start.character == key_info(re, lines_of(content)[i]).unwrap().1 + content_col_offset(b, i)
    &&& v.range.end.character == key_info(re, lines_of(content)[i]).unwrap().2 + content_col_offset(b, i)
}

spec fn keys_of(re: Option<Result<regex::Regex, regex::Error>>, content: Seq<char>) -> Seq<Option<Seq<char>>> {
    lines_of(content).map_values(|l: Seq<char>| key_of(re, l))
}

/// line i repeats an earlier key
spec fn is_dup(keys: Seq<Option<Seq<char>>>, i: int) -> bool {
    0 <= i < keys.len() && keys[i] is Some && exists|j: int| 0 <= j < i && keys[j] == keys[i]
}

/// "the first line whose key has already occurred"
spec fn first_dup(keys: Seq<Option<Seq<char>>>, i: int) -> bool {
    is_dup(keys, i) && forall|j: int| 0 <= j < i ==> !is_dup(keys, j)
}

impl KeepUniqueValidator {

//@unit id=V2 file=src/validators/keep_unique.rs fn=<<impl ValidatorSync for KeepUniqueValidator::validate>> slice_from=<<let mut seen>> slice_to_block_end=1
//@wrapper
fn v2_loop<'a>(
    block_with_context: &'a BlockWithContext,
    file_blocks: &'a FileBlocks,
    file_path: &PathBuf,
    re: Option<Result<regex::Regex, regex::Error>>,
    violations: &mut HashMap<PathBuf, Vec<Violation>>,
) -> (r: anyhow::Result<()>)
    requires
        block_wf(block_with_context.block),
    ensures
        // no duplicate key => no diagnostic, no error (unless the regex does not compile)
        (forall|i: int| !is_dup(keys_of(re, content_of(block_with_context.block, file_blocks.file_content@)), i)) && !(re matches Some(Err(_)))
            ==> r is Ok && final(violations)@ == old(violations)@, // [V2.post.unique_is_silent]
        // a duplicate => exactly one diagnostic, filed under the block's file, placed on the first duplicate
        (r is Ok && exists|i: int| is_dup(keys_of(re, content_of(block_with_context.block, file_blocks.file_content@)), i))
            ==> exists|i: int, v: Violation| first_dup(keys_of(re, content_of(block_with_context.block, file_blocks.file_content@)), i) // [V2.post.dup_reports_first]
                && final(violations)@.dom() == old(violations)@.dom().insert(*file_path)
                && final(violations)@[*file_path]@ == map_get_or_empty(old(violations)@, *file_path).push(v)
                && key_range_ok(v, block_with_context.block, re, content_of(block_with_context.block, file_blocks.file_content@), i) // [V2.post.range_is_key_span]
                && v.code@ == "keep-unique"@,
        // an uncompilable regex on a block with at least one line is an error (C13)
        (re matches Some(Err(_))) && lines_of(content_of(block_with_context.block, file_blocks.file_content@)).len() > 0
            ==> r is Err, // [V2.post.bad_regex_is_err]
        // an error never comes with a silently changed report
        forall|k2: PathBuf| k2 != *file_path && #[trigger] old(violations)@.contains_key(k2) ==> final(violations)@.contains_key(k2) && final(violations)@[k2] == old(violations)@[k2], // [V2.post.other_files_untouched]
        forall|k2: PathBuf| k2 != *file_path && #[trigger] final(violations)@.contains_key(k2) ==> old(violations)@.contains_key(k2), // [V2.post.no_new_files]
        r is Err ==> final(violations)@ == old(violations)@, // [V2.post.err_leaves_report]
//@tail
    proof {
        if violations@ != old(violations)@ {
            let (i, v) = choose|i: int, v: Violation| first_dup(keys, i)
                && violations@.dom() == old(violations)@.dom().insert(*file_path)
                && violations@[*file_path]@ == map_get_or_empty(old(violations)@, *file_path).push(v)
                && #[trigger] key_range_ok(v, block_with_context.block, re, content_of(block_with_context.block, file_blocks.file_content@), i)
                && v.code@ == "keep-unique"@;
            assert(is_dup(keys_of(re, content_of(block_with_context.block, file_blocks.file_content@)), i));
            assert(first_dup(keys_of(re, content_of(block_with_context.block, file_blocks.file_content@)), i));
        }
    }
    Ok(())
//@forlines var=ls
        invariant_except_break
            violations@ == old(violations)@,
            forall|j: int| 0 <= j < it.index@ ==> !#[trigger] is_dup(keys, j), // [V2.inv.no_dup_so_far]
            forall|k: &str| #[trigger] seen@.contains(k) <==> exists|j: int| 0 <= j < it.index@ && #[trigger] keys[j] == Some(k@), // [V2.inv.seen_is_keys]
            !(re matches Some(Err(_))) || it.index@ == 0,
        invariant
            block_wf(block_with_context.block),
            keys == keys_of(re, content_of(block_with_context.block, file_blocks.file_content@)),
            ls@.len() == keys.len(),
            ls@.len() <= isize::MAX,
            forall|i: int| 0 <= i < ls@.len() ==> (#[trigger] ls@[i]).0 == i && key_of(re, ls@[i].1@) == keys[i]
                && ls@[i].1@ == lines_of(content_of(block_with_context.block, file_blocks.file_content@))[i],
        ensures
            violations@ == old(violations)@ ==> (forall|j: int| 0 <= j < keys.len() ==> !#[trigger] is_dup(keys, j))
                && (!(re matches Some(Err(_))) || keys.len() == 0),
            violations@ != old(violations)@ ==> exists|i: int, v: Violation| first_dup(keys, i) // [V2.inv.break_reports_first_dup]
                && violations@.dom() == old(violations)@.dom().insert(*file_path)
                && violations@[*file_path]@ == map_get_or_empty(old(violations)@, *file_path).push(v)
                && #[trigger] key_range_ok(v, block_with_context.block, re, content_of(block_with_context.block, file_blocks.file_content@), i)
                && v.code@ == "keep-unique"@,
            forall|k2: PathBuf| k2 != *file_path && #[trigger] old(violations)@.contains_key(k2) ==> violations@.contains_key(k2) && violations@[k2] == old(violations)@[k2],
            forall|k2: PathBuf| k2 != *file_path && #[trigger] violations@.contains_key(k2) ==> old(violations)@.contains_key(k2),
//@edit rule=ghost before=<<let mut seen>>
    let ghost keys = keys_of(re, content_of(block_with_context.block, file_blocks.file_content@));
//@macro rule=E1 name=anyhow to=<<anyhow::verif_err()>>
//@edit rule=ghost before=<<let (violation_line_number, character_offset)>> optional=1
                        assert(is_dup(keys, line_number as int));
//@edit rule=ghost before=<<if let Some((matched_line, line_range)) = line_match>> optional=1
                    assert(line_number == it.index@);
                    assert((match line_match { Some(p) => Some((p.0@, p.1@.start as int, p.1@.end as int)), None => None }) == key_info(re, line@)); // [V2.assert.key_extraction]
//@letchain rule=E8 find=<<if let Some((matched_line, line_range)) = line_match &&>>
//@edit rule=E5 find=<<violations.entry(file_path.clone()).or_insert_with(Vec::new).push(>> optional=1
verif_map_push(violations, file_path.clone(),
//@edit rule=ghost before=<<break;>> optional=1
                        proof {
                            let v = violations@[*file_path]@.last();
                            assert(violations@[*file_path]@.len() == map_get_or_empty(old(violations)@, *file_path).len() + 1);
                            assert(violations@[*file_path]@ == map_get_or_empty(old(violations)@, *file_path).push(v));
                            assert(key_range_ok(v, block_with_context.block, re, content_of(block_with_context.block, file_blocks.file_content@), line_number as int));
                        }
//@edit rule=E9 find=<<$a.as_ptr() as usize - $b.as_ptr() as usize>> count=all optional=1
verif_offset_in($a, $b)
//@closure rule=E12 find=<<|m|>> params=<<|m: regex::Match<'a>|>> ret=<<res: (&'a str, RangeInclusive<usize>)>>
    ensures res.0@ == regex::match_view(m).text, res.1@.start == regex::match_view(m).start + 1, res.1@.end == key_end_col(regex::match_view(m).start as int, regex::match_view(m).end as int) // [V2.closure.key_span]
//@end

} // impl

//@unit id=V2c file=src/validators/keep_unique.rs fn=create_violation ret=r
//@contract
    requires block_wf(*block),
    ensures
        r matches Ok(v) ==> v.range.start.line == violation_line_number && v.range.end.line == violation_line_number // [V2c.post.range]
            && v.range.start.character == violation_character_start && v.range.end.character == violation_character_end
            && v.code@ == "keep-unique"@ && Ok::<BlockSeverity, anyhow::Error>(v.severity) == severity_spec(*block),
        r is Err <==> severity_spec(*block) is Err, // [V2c.post.bad_severity_is_err]
//@macro rule=E1 name=format to=<<verif_message()>>
//@end

} // verus!
fn main() {}
