// Group `diffranges`: D-c `push_or_merge_range`, D-d `line_diff` (src/diff_parser.rs).
// Properties: C02 (ranges_wf is the precondition of B1/B2), C01 (chain), C04 (safety obligations).
#![feature(allocator_api)]
use vstd::prelude::*;
use std::alloc::Allocator;
use std::ops::Range;
use similar::DiffOp;

//@include prelude/diff_similar.rs

verus! {

//@include prelude/diff_std.rs

spec fn ranges_wf(r: Seq<Range<usize>>) -> bool {
    &&& forall|i: int| 0 <= i < r.len() ==> (#[trigger] r[i]).start < r[i].end
    &&& forall|i: int, j: int| 0 <= i < j < r.len() ==> (#[trigger] r[i]).end < (#[trigger] r[j]).start
}

/// column `c` lies in one of the half-open ranges
spec fn covered(r: Seq<Range<usize>>, c: int) -> bool {
    exists|i: int| 0 <= i < r.len() && (#[trigger] r[i]).start <= c < r[i].end
}

/// `a` and `b` neither overlap nor touch
spec fn apart(a: Range<usize>, b: Range<usize>) -> bool {
    a.end < b.start || b.end < a.start
}

/// `a` and `b` overlap or are contiguous (the predicate of the `pop_if` closure)
spec fn touches(a: Range<usize>, b: Range<usize>) -> bool {
    a.start <= b.end && a.end >= b.start
}

spec fn hull(a: Range<usize>, b: Range<usize>) -> Range<usize> {
    (if a.start <= b.start { a.start } else { b.start })..(if a.end >= b.end { a.end } else { b.end })
}

/// state of the vector after the merge-or-push step, before the sink loop
spec fn after_push(old: Seq<Range<usize>>, new: Range<usize>, base: Seq<Range<usize>>) -> bool {
    if old.len() > 0 && touches(new, old.last()) {
        base == old.drop_last().push(hull(new, old.last()))
    } else {
        base == old.push(new)
    }
}

proof fn lemma_pushed(old: Seq<Range<usize>>, new: Range<usize>, base: Seq<Range<usize>>)
    requires
        ranges_wf(old),
        new.start < new.end,
        forall|i: int| 0 <= i < old.len() - 1 ==> apart(#[trigger] old[i], new),
        after_push(old, new, base),
    ensures
        base.len() >= 1,
        ranges_wf(base.drop_last()),
        base.last().start < base.last().end,
        forall|a: int| 0 <= a < base.len() - 1 ==> apart(#[trigger] base[a], base.last()),
        forall|c: int| covered(base, c) <==> (covered(old, c) || new.start <= c < new.end),
{
    let m = base.len() - 1;
    if old.len() > 0 && touches(new, old.last()) {
        let l = old.last();
        assert(m == old.len() - 1);
        assert forall|c: int| covered(base, c) <==> (covered(old, c) || new.start <= c < new.end) by {
            if covered(base, c) {
                let i = choose|i: int| 0 <= i < base.len() && (#[trigger] base[i]).start <= c < base[i].end;
                if i < m { assert(old[i] == base[i]); } else { assert(old[m].start <= c < old[m].end || new.start <= c < new.end); }
            }
            if covered(old, c) {
                let i = choose|i: int| 0 <= i < old.len() && (#[trigger] old[i]).start <= c < old[i].end;
                if i < m { assert(base[i] == old[i]); } else { assert(base[m].start <= c < base[m].end); }
            }
            if new.start <= c < new.end { assert(base[m].start <= c < base[m].end); }
        }
    } else {
        assert(m == old.len());
        assert(base.drop_last() == old);
        assert forall|c: int| covered(base, c) <==> (covered(old, c) || new.start <= c < new.end) by {
            if covered(base, c) {
                let i = choose|i: int| 0 <= i < base.len() && (#[trigger] base[i]).start <= c < base[i].end;
                if i < m { assert(old[i] == base[i]); }
            }
            if covered(old, c) {
                let i = choose|i: int| 0 <= i < old.len() && (#[trigger] old[i]).start <= c < old[i].end;
                assert(base[i] == old[i]);
            }
            if new.start <= c < new.end { assert(base[m].start <= c < base[m].end); }
        }
    }
}

/// the sink loop has stopped at position `i`: `fin` is `base` with its last element moved to `i`
proof fn lemma_sunk(base: Seq<Range<usize>>, fin: Seq<Range<usize>>, i: int)
    requires
        base.len() >= 1,
        fin.len() == base.len(),
        0 <= i < base.len(),
        ranges_wf(base.drop_last()),
        base.last().start < base.last().end,
        forall|a: int| 0 <= a < base.len() - 1 ==> apart(#[trigger] base[a], base.last()),
        forall|j: int| 0 <= j < i ==> fin[j] == base[j],
        fin[i] == base.last(),
        forall|j: int| i < j < base.len() ==> fin[j] == base[j - 1],
        forall|j: int| i <= j < base.len() - 1 ==> base.last().start <= (#[trigger] base[j]).start,
        i == 0 || fin[i].start >= fin[i - 1].start,
    ensures
        ranges_wf(fin),
        forall|c: int| covered(fin, c) <==> covered(base, c),
{
    let m = base.len() - 1;
    let nw = base.last();
    let b = base.drop_last();
    assert forall|a: int| 0 <= a < m implies b[a] == base[a] by {}
    assert forall|x: int, y: int| 0 <= x < y < fin.len() implies (#[trigger] fin[x]).end < (#[trigger] fin[y]).start by {
        if y < i {
            assert(fin[x] == b[x] && fin[y] == b[y]);
        } else if y == i {
            assert(fin[x] == b[x]);
            assert(apart(base[x], nw));
            if i > 0 { assert(fin[i - 1] == b[i - 1]); }
        } else if x == i {
            assert(fin[y] == b[y - 1]);
            assert(apart(base[y - 1], nw));
        } else if x < i {
            assert(fin[x] == b[x] && fin[y] == b[y - 1]);
        } else {
            assert(fin[x] == b[x - 1] && fin[y] == b[y - 1]);
        }
    }
    assert forall|x: int| 0 <= x < fin.len() implies (#[trigger] fin[x]).start < fin[x].end by {
        if x < i { assert(fin[x] == b[x]); } else if x > i { assert(fin[x] == b[x - 1]); }
    }
    assert forall|c: int| covered(fin, c) <==> covered(base, c) by {
        if covered(fin, c) {
            let x = choose|x: int| 0 <= x < fin.len() && (#[trigger] fin[x]).start <= c < fin[x].end;
            if x < i { assert(base[x] == fin[x]); } else if x == i { assert(base[m] == fin[x]); } else { assert(base[x - 1] == fin[x]); }
        }
        if covered(base, c) {
            let x = choose|x: int| 0 <= x < base.len() && (#[trigger] base[x]).start <= c < base[x].end;
            if x < i { assert(fin[x] == base[x]); } else if x == m { assert(fin[i] == base[x]); } else { assert(fin[x + 1] == base[x]); }
        }
    }
}

//@unit id=Dc file=src/diff_parser.rs fn=push_or_merge_range
//@contract
    requires
        ranges_wf(old(ranges)@), // [Dc.pre.ranges_wf]
        new.start < new.end, // [Dc.pre.new_nonempty]
        forall|i: int| 0 <= i < old(ranges)@.len() - 1 ==> apart(#[trigger] old(ranges)@[i], new), // [Dc.pre.apart_from_non_last]
    ensures
        ranges_wf(final(ranges)@), // [Dc.post.ranges_wf]
        forall|c: int| covered(final(ranges)@, c) <==> (covered(old(ranges)@, c) || new.start <= c < new.end), // [Dc.post.union_preserved]
//@closure rule=E12 find=<<|range|>> params=<<|range: &mut Range<usize>|>> ret=<<b: bool>>
            ensures
                *final(range) == *old(range),
                b == (new.start <= old(range).end && new.end >= old(range).start), // [Dc.closure.touches]
//@edit rule=ghost before=<<if let Some(overlapping) =>>
    let ghost new0 = new;
//@edit rule=ghost before=<<let mut i = ranges.len() - 1;>>
    let ghost base = ranges@;
    let ghost m = base.len() - 1;
    let ghost nw = base[m];
    proof {
        if old(ranges)@.len() > 0 {
            assert(old(ranges)@.drop_last().push(old(ranges)@.last()) =~= old(ranges)@);
        }
        assert(after_push(old(ranges)@, new0, base));
        lemma_pushed(old(ranges)@, new0, base);
    }
//@edit rule=ghost after=<<ranges[i - 1].start>>
        invariant
            ranges@.len() == m + 1,
            base.len() == m + 1,
            0 <= i <= m,
            nw == base[m],
            ranges_wf(base.drop_last()),
            nw.start < nw.end,
            forall|a: int| 0 <= a < m ==> apart(#[trigger] base[a], nw),
            forall|c: int| covered(base, c) <==> (covered(old(ranges)@, c) || new0.start <= c < new0.end),
            forall|j: int| 0 <= j < i ==> ranges@[j] == base[j], // [Dc.inv.prefix_unchanged]
            ranges@[i as int] == nw, // [Dc.inv.new_at_i]
            forall|j: int| i < j <= m ==> ranges@[j] == base[j - 1], // [Dc.inv.suffix_shifted]
            forall|j: int| i <= j < m ==> nw.start <= (#[trigger] base[j]).start, // [Dc.inv.new_before_suffix]
        decreases i, // [Dc.term.sink_loop]
//@edit rule=ghost after=<<i -= 1; }>>
    proof {
        lemma_sunk(base, ranges@, i as int);
    }
//@end

/// position in the new string before op k (the new-side cursor of the tiling)
spec fn cursor(ops: Seq<DiffOp>, k: int) -> int {
    if 0 <= k < ops.len() { similar::op_new_index(ops[k]) }
    else if ops.len() == 0 { 0 }
    else { similar::op_new_index(ops.last()) + similar::op_new_len(ops.last()) }
}

/// What the callers in `line_diff` guarantee (`new` starts at or after the start of the last range)
/// implies D-c's precondition.
proof fn lemma_caller_order(ranges: Seq<Range<usize>>, new: Range<usize>)
    requires
        ranges_wf(ranges),
        ranges.len() > 0 ==> new.start >= ranges.last().start,
    ensures
        forall|i: int| 0 <= i < ranges.len() - 1 ==> apart(#[trigger] ranges[i], new),
{
}

//@unit id=Dd file=src/diff_parser.rs fn=line_diff ret=r
//@contract
    ensures
        ranges_wf(r@), // [Dd.post.ranges_wf]
//@edit rule=ghost before=<<for op in diff.ops()>>
    let ghost ops = diff.spec_ops();
    let ghost n = new@.len() as int;
    let ghost bmax: int = if new.len() == 0 { 0 } else { new.len() - 1 };
//@edit rule=E15 find=<<for op in diff.ops()>>
for op in it: diff.ops()
        invariant
            ops == diff.spec_ops(),
            n == new@.len(),
            n <= new.len(),
            bmax == (if new.len() == 0 { 0 } else { new.len() - 1 }),
            similar::ops_tile_new(ops, n),
            ranges_wf(result@), // [Dd.inv.ranges_wf]
            forall|x: int| covered(result@, x) ==> x <= cursor(ops, it.index@ as int) && x <= bmax, // [Dd.inv.covered_up_to_cursor]
            0 <= it.index@ <= ops.len(),
//@edit rule=ghost before=<<match op {>>
        let ghost k = it.index@ as int;
        let ghost res0 = result@;
        proof {
            assert(*op == ops[k]);
            assert(similar::op_new_index(ops[k]) + similar::op_new_len(ops[k]) <= n);
            assert(cursor(ops, k + 1) == similar::op_new_index(ops[k]) + similar::op_new_len(ops[k]));
            if res0.len() > 0 {
                // the first column of the last range is covered, hence at most the cursor
                assert(covered(res0, res0.last().start as int));
            }
            assert forall|i: int| 0 <= i < res0.len() - 1 implies (#[trigger] res0[i]).end < res0.last().start by {}
        }
//@end

} // verus!
fn main() {}
