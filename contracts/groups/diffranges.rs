// Group `diffranges`: D-c `push_or_merge_range`, D-d `line_diff` (src/diff_parser.rs).
// Properties: C02 (ranges_wf is the precondition of B1/B2), C01 (chain), C04 (safety obligations).
#![feature(allocator_api)]
use vstd::prelude::*;
use std::alloc::Allocator;
use std::ops::Range;
use similar::DiffOp;

//@include prelude/diff_similar.rs
//@include prelude/diff_axioms.rs

verus! {

broadcast use diff_axioms::axiom_str_len_bound;

//@include prelude/diff_std.rs

spec fn ranges_wf(r: Seq<Range<usize>>) -> bool {
    &&& forall|i: int| 0 <= i < r.len() ==> (#[trigger] r[i]).start < r[i].end
    &&& forall|i: int, j: int| 0 <= i < j < r.len() ==> (#[trigger] r[i]).end < (#[trigger] r[j]).start
}

/// column `c` lies in one of the half-open ranges
spec fn covered(r: Seq<Range<usize>>, c: int) -> bool {
    exists|i: int| 0 <= i < r.len() && (#[trigger] r[i]).start <= c < r[i].end
}

/// `a` and `b` neither overlap nor touch
spec fn apart(a: Range<usize>, b: Range<usize>) -> bool {
    a.end < b.start || b.end < a.start
}

/// `a` and `b` overlap or are contiguous (the merge condition of `push_or_merge_range`)
spec fn touches(a: Range<usize>, b: Range<usize>) -> bool {
    a.start <= b.end && a.end >= b.start
}

spec fn hull(a: Range<usize>, b: Range<usize>) -> Range<usize> {
    (if a.start <= b.start { a.start } else { b.start })..(if a.end >= b.end { a.end } else { b.end })
}

spec fn within(r: Range<usize>, c: int) -> bool {
    r.start <= c < r.end
}

/// column c is covered by the vector or by the range still to be inserted
spec fn cov_or(rs: Seq<Range<usize>>, new: Range<usize>, c: int) -> bool {
    covered(rs, c) || within(new, c)
}

/// one merge step: range i touches `new`; it leaves the vector and `new` becomes the hull
proof fn lemma_merge_step(rs: Seq<Range<usize>>, i: int, new: Range<usize>)
    requires
        ranges_wf(rs),
        0 <= i < rs.len(),
        new.start < new.end,
        touches(new, rs[i]),
        forall|j: int| 0 <= j < i ==> apart(#[trigger] rs[j], new),
    ensures
        ranges_wf(rs.remove(i)),
        hull(new, rs[i]).start < hull(new, rs[i]).end,
        forall|j: int| 0 <= j < i ==> apart(#[trigger] rs.remove(i)[j], hull(new, rs[i])),
        forall|c: int| #[trigger] cov_or(rs.remove(i), hull(new, rs[i]), c) <==> cov_or(rs, new, c),
{
    let r2 = rs.remove(i);
    let n2 = hull(new, rs[i]);
    assert forall|j: int| 0 <= j < r2.len() implies r2[j] == (if j < i { rs[j] } else { rs[j + 1] }) by {}
    assert forall|j: int| 0 <= j < i implies apart(#[trigger] r2[j], n2) by {
        assert(apart(rs[j], new));
        assert(rs[j].end < rs[i].start);
    }
    assert forall|c: int| #[trigger] cov_or(r2, n2, c) <==> cov_or(rs, new, c) by {
        if covered(r2, c) {
            let j = choose|j: int| 0 <= j < r2.len() && (#[trigger] r2[j]).start <= c < r2[j].end;
            if j < i { assert(rs[j] == r2[j]); } else { assert(rs[j + 1] == r2[j]); }
        }
        if covered(rs, c) {
            let j = choose|j: int| 0 <= j < rs.len() && (#[trigger] rs[j]).start <= c < rs[j].end;
            if j < i { assert(r2[j] == rs[j]); } else if j > i { assert(r2[j - 1] == rs[j]); }
        }
    }
}

/// the final insertion: every range is apart from `new`, `p` is the sorted position
proof fn lemma_inserted(rs: Seq<Range<usize>>, p: int, new: Range<usize>)
    requires
        ranges_wf(rs),
        new.start < new.end,
        forall|j: int| 0 <= j < rs.len() ==> apart(#[trigger] rs[j], new),
        0 <= p <= rs.len(),
        forall|j: int| 0 <= j < p ==> (#[trigger] rs[j]).start < new.start,
        p < rs.len() ==> rs[p].start >= new.start,
    ensures
        ranges_wf(rs.insert(p, new)),
        forall|c: int| #[trigger] covered(rs.insert(p, new), c) <==> cov_or(rs, new, c),
{
    let r2 = rs.insert(p, new);
    assert forall|j: int| 0 <= j < r2.len() implies r2[j] == (if j < p { rs[j] } else if j == p { new } else { rs[j - 1] }) by {}
    assert forall|x: int, y: int| 0 <= x < y < r2.len() implies (#[trigger] r2[x]).end < (#[trigger] r2[y]).start by {
        if y < p {
        } else if y == p {
            assert(apart(rs[x], new));
        } else if x == p {
            assert(apart(rs[y - 1], new));
            if y - 1 > p { assert(rs[p].end < rs[y - 1].start); }
        } else if x < p {
            assert(rs[x].end < rs[y - 1].start);
        } else {
            assert(rs[x - 1].end < rs[y - 1].start);
        }
    }
    assert forall|c: int| #[trigger] covered(r2, c) <==> cov_or(rs, new, c) by {
        if covered(r2, c) {
            let j = choose|j: int| 0 <= j < r2.len() && (#[trigger] r2[j]).start <= c < r2[j].end;
            if j < p { assert(rs[j] == r2[j]); } else if j > p { assert(rs[j - 1] == r2[j]); }
        }
        if covered(rs, c) {
            let j = choose|j: int| 0 <= j < rs.len() && (#[trigger] rs[j]).start <= c < rs[j].end;
            if j < p { assert(r2[j] == rs[j]); } else { assert(r2[j + 1] == rs[j]); }
        }
        if within(new, c) { assert(r2[p] == new); }
    }
}

//@unit id=Dc file=src/diff_parser.rs fn=push_or_merge_range
//@contract
    requires
        ranges_wf(old(ranges)@), // [Dc.pre.ranges_wf]
    ensures
        ranges_wf(final(ranges)@), // [Dc.post.ranges_wf]
        forall|c: int| covered(final(ranges)@, c) <==> (covered(old(ranges)@, c) || new.start <= c < new.end), // [Dc.post.union_preserved]
        new.start >= new.end ==> final(ranges)@ == old(ranges)@, // [Dc.post.empty_new_is_noop]
//@edit rule=ghost before=<<let mut i = 0;>>
    let ghost new0 = new;
//@edit rule=ghost after=<<while i < ranges.len() {>>
        proof {
            if touches(new, ranges@[i as int]) {
                lemma_merge_step(ranges@, i as int, new);
            }
        }
//@edit rule=ghost after=<<while i < ranges.len()>>
        invariant
            ranges_wf(ranges@), // [Dc.inv.ranges_wf]
            new.start < new.end, // [Dc.inv.new_nonempty]
            0 <= i <= ranges@.len(),
            forall|j: int| 0 <= j < i ==> apart(#[trigger] ranges@[j], new), // [Dc.inv.scanned_are_apart]
            forall|c: int| #[trigger] cov_or(ranges@, new, c) <==> cov_or(old(ranges)@, new0, c), // [Dc.inv.union_preserved]
        decreases ranges@.len() - i, // [Dc.term.merge_loop]
//@edit rule=ghost before=<<{ position +=>>
        invariant
            ranges_wf(ranges@),
            new.start < new.end,
            forall|j: int| 0 <= j < ranges@.len() ==> apart(#[trigger] ranges@[j], new), // [Dc.inv.all_apart]
            forall|c: int| #[trigger] cov_or(ranges@, new, c) <==> cov_or(old(ranges)@, new0, c),
            0 <= position <= ranges@.len(),
            forall|j: int| 0 <= j < position ==> (#[trigger] ranges@[j]).start < new.start, // [Dc.inv.position_after_smaller]
        decreases ranges@.len() - position, // [Dc.term.position_loop]
//@edit rule=ghost before=<<ranges.insert(>>
    proof {
        if 0 <= position <= ranges@.len() && (position < ranges@.len() ==> ranges@[position as int].start >= new.start) {
            lemma_inserted(ranges@, position as int, new);
        }
    }
//@end

/// `max(new.len(), 1)`: a deletion in an empty line is reported as column range 0..1
spec fn line_bound(new: &str) -> int {
    if new.len() == 0 { 1 } else { new.len() as int }
}

/// every range ends at or before column `b`
spec fn ranges_within(r: Seq<Range<usize>>, b: int) -> bool {
    forall|i: int| 0 <= i < r.len() ==> (#[trigger] r[i]).end <= b
}

// the threshold of `line_diff`'s guard, pasted from /repo (the contract below states the property-level
// bound 4096 as a literal: changing the constant makes the guard clause / the call of from_chars fail)
//@item file=src/diff_parser.rs kind=const name=MAX_LINE_DIFF_LEN

//@unit id=Dd file=src/diff_parser.rs fn=line_diff ret=r
//@contract
    ensures
        ranges_wf(r@), // [Dd.post.ranges_wf]
        ranges_within(r@, line_bound(new)), // [Dd.post.ranges_within_line]
        old.len() + new.len() > 4096 ==> r@.len() == 1 && r@[0].start == 0 && r@[0].end == line_bound(new), // [Dd.post.long_lines_are_not_diffed_by_character]
//@edit rule=E3 find=<<new.char_indices().map(|(offset, _)| offset).collect()>>
verif_char_byte_offsets(new)
//@closure rule=E12 find=<<|char_index: usize|>> params=<<|char_index: usize|>> ret=<<b: usize>>
        ensures
            b == (if char_index < byte_offsets@.len() { byte_offsets@[char_index as int] } else { new.len() }), // [Dd.closure.byte_at]
//@edit rule=E15 find=<<for op in diff.ops()>>
for op in it: diff.ops()
        invariant
            ranges_wf(result@), // [Dd.inv.ranges_wf]
            byte_offsets@.len() >= 1,
            forall|i: int| 0 <= i < byte_offsets@.len() ==> (#[trigger] byte_offsets@[i]) <= new.len(), // [Dd.inv.offsets_within_new]
            forall|i: int| 0 <= i < byte_offsets@.len() - 1 ==> (#[trigger] byte_offsets@[i]) < new.len(),
            byte_offsets@.len() == 1 ==> new.len() == 0,
            forall|c: int| covered(result@, c) ==> c < line_bound(new), // [Dd.inv.covered_within_line]
            forall|x: usize| #[trigger] call_requires(byte_at, (x,)),
            forall|x: usize, b: usize| #[trigger] call_ensures(byte_at, (x,), b)
                ==> b == (if x < byte_offsets@.len() { byte_offsets@[x as int] } else { new.len() }),
            forall|i: int| 0 <= i < diff.spec_ops().len() ==> similar::op_new_end_fits(#[trigger] diff.spec_ops()[i]),
//@edit rule=ghost before=<<result }>>
    proof {
        assert forall|i: int| 0 <= i < result@.len() implies (#[trigger] result@[i]).end <= line_bound(new) by {
            assert(covered(result@, result@[i].end - 1));
        }
    }
//@end

} // verus!
fn main() {}
