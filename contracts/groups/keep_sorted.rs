// Group `keep_sorted`: V1 — SortFormat::cmp, key extraction helpers, the attribute prefix and the
// comparison loop of KeepSortedValidator::validate, create_violation
// (properties C06, C10 position, C13 error clauses, C04 safety).
use vstd::prelude::*;
use std::cmp::Ordering;
use std::collections::{HashMap, HashSet};
use std::ops::{Range, RangeInclusive};
use std::path::{Path, PathBuf};

//@include prelude/anyhow.rs
//@include prelude/tstr_mod.rs
//@include prelude/regex.rs

verus! {

//@include prelude/std_range.rs
//@include prelude/strings.rs
//@include prelude/sorting.rs
//@include prelude/domain.rs
//@include prelude/block_fns.rs

//@item file=src/validators/keep_sorted.rs kind=enum name=SortFormat
//@item file=src/validators/keep_sorted.rs kind=struct name=KeepSortedValidator
//@item file=src/validators/keep_sorted.rs kind=struct name=KeepSortedViolation

// strum's `EnumString` (ascii_case_insensitive) and `#[derive(Default)]` with `#[default]` on
// Lexicographic (T-derive / T-ext): functions of the text.
pub uninterp spec fn sort_format_of_str(s: Seq<char>) -> Option<SortFormat>;

impl SortFormat {
    #[verifier::external_body]
    pub fn from_str(s: &str) -> (r: Result<SortFormat, anyhow::Error>)
        ensures
            (r matches Ok(v) ==> sort_format_of_str(s@) == Some(v)),
            (r is Err ==> sort_format_of_str(s@) is None),
    { unimplemented!() }

    pub fn default() -> (r: SortFormat)
        ensures r == SortFormat::Lexicographic
    { SortFormat::Lexicographic }
}

// ---- specification (from property C06) -------------------------------------------------------
/// how two keys compare under a format; Err = a key is not a number under numeric format
spec fn cmp_spec(f: SortFormat, a: Seq<char>, b: Seq<char>) -> Result<Ordering, ()> {
    match f {
        SortFormat::Lexicographic => Ok(str_cmp_spec(a, b)),
        SortFormat::Numeric => match (parse_f64_spec(a), parse_f64_spec(b)) {
            (Some(x), Some(y)) => Ok(f64_total_cmp_spec(x, y)),
            _ => Err(()),
        },
    }
}

/// C10: "1-based byte columns delimit exactly the offending key": the last column of a key that
/// occupies bytes [start, end) of the line is `end`; an EMPTY key (a pattern that matches the empty
/// string on a non-blank line) occupies no byte, its range is the one column at which it was found
/// -- never a column 0 and never an end before the start.
spec fn key_end_col(start: int, end: int) -> int {
    if end > start { end } else { start + 1 }
}

/// (key text, 1-based first byte column within the line, 1-based last byte column)
spec fn key_info(re: Option<Result<regex::Regex, regex::Error>>, line: Seq<char>) -> Option<(Seq<char>, int, int)> {
    match re {
        None => if is_blank(line) { None } else {
            Some((trim_spec(line), (trim_lead(line) + 1) as int, trim_lead(line) + 1 + blen(trim_spec(line)) - 1))
        },
        // blank lines are ignored under a pattern as well (C06/C07: "blank and non-matching lines are ignored")
        Some(Ok(r)) =>
            if is_blank(line) || !regex::re_is_match(r, line) { None }
            else {
                match regex::re_group_named(r, line, "value"@) {
                    Some(m) => Some((m.text, (m.start + 1) as int, key_end_col(m.start as int, m.end as int))),
                    None => match regex::re_group(r, line, 0) { Some(m) => Some((m.text, (m.start + 1) as int, key_end_col(m.start as int, m.end as int))), None => None },
                }
            },
        Some(Err(_)) => None,
    }
}

spec fn key_of(re: Option<Result<regex::Regex, regex::Error>>, line: Seq<char>) -> Option<Seq<char>> {
    match key_info(re, line) { Some(k) => Some(k.0), None => None }
}

spec fn keys_of(re: Option<Result<regex::Regex, regex::Error>>, content: Seq<char>) -> Seq<Option<Seq<char>>> {
    lines_of(content).map_values(|l: Seq<char>| key_of(re, l))
}

/// the nearest earlier key (lines without a key are skipped)
spec fn prev_key(keys: Seq<Option<Seq<char>>>, i: int) -> Option<Seq<char>>
    decreases i
{
    if i <= 0 { None } else if keys[i - 1] is Some { keys[i - 1] } else { prev_key(keys, i - 1) }
}

/// line i is "strictly out of order relative to the previous key"
spec fn out_of_order(f: SortFormat, viol: Ordering, keys: Seq<Option<Seq<char>>>, i: int) -> bool {
    0 <= i < keys.len() && keys[i] is Some && prev_key(keys, i) is Some
        && cmp_spec(f, prev_key(keys, i).unwrap(), keys[i].unwrap()) == Ok::<Ordering, ()>(viol)
}

/// C13: "a key that is not a number under numeric format is an error" -- whichever position the key
/// has in the block (a block with a single key included).
spec fn key_invalid(f: SortFormat, k: Seq<char>) -> bool {
    cmp_spec(f, k, k) is Err
}

/// a key that the format accepts compares Equal with itself (so the first key, which the code compares
/// with itself, is never reported as out of order)
proof fn lemma_cmp_reflexive(f: SortFormat, k: Seq<char>)
    ensures cmp_spec(f, k, k) matches Ok(o) ==> o == Ordering::Equal,
{
    axiom_str_cmp_reflexive(k);
    if parse_f64_spec(k) is Some { axiom_f64_total_cmp_reflexive(parse_f64_spec(k).unwrap()); }
}

/// line i carries a key that the format does not accept
spec fn cmp_fails(f: SortFormat, keys: Seq<Option<Seq<char>>>, i: int) -> bool {
    0 <= i < keys.len() && keys[i] is Some && key_invalid(f, keys[i].unwrap())
}

/// the nearest earlier key is the key of an earlier line
proof fn lemma_prev_key_is_earlier(keys: Seq<Option<Seq<char>>>, i: int)
    requires 0 <= i <= keys.len(), prev_key(keys, i) is Some,
    ensures exists|j: int| 0 <= j < i && #[trigger] keys[j] == prev_key(keys, i),
    decreases i,
{
    if i > 0 {
        if keys[i - 1] is Some { assert(keys[i - 1] == prev_key(keys, i)); }
        else { lemma_prev_key_is_earlier(keys, i - 1); let j = choose|j: int| 0 <= j < i - 1 && #[trigger] keys[j] == prev_key(keys, i - 1); assert(keys[j] == prev_key(keys, i)); }
    }
}

/// i is the first line at which the scan stops (violation or comparison error)
spec fn first_stop(f: SortFormat, viol: Ordering, keys: Seq<Option<Seq<char>>>, i: int) -> bool {
    (out_of_order(f, viol, keys, i) || cmp_fails(f, keys, i))
        && (forall|j: int| 0 <= j < i ==> !#[trigger] out_of_order(f, viol, keys, j))
        && (forall|j: int| 0 <= j < i ==> !#[trigger] cmp_fails(f, keys, j))
}

spec fn key_range_ok(v: Violation, b: Block, re: Option<Result<regex::Regex, regex::Error>>, content: Seq<char>, i: int) -> bool {
    &&& 0 <= i < lines_of(content).len()
    &&& key_info(re, lines_of(content)[i]) is Some
    &&& v.range.start.line == content_line_no(b, i)
    &&& v.range.end.line == content_line_no(b, i)
    &&& v.range.start.character == key_info(re, lines_of(content)[i]).unwrap().1 + content_col_offset(b, i)
    &&& v.range.end.character == key_info(re, lines_of(content)[i]).unwrap().2 + content_col_offset(b, i)
}


/// C06: "ascending when the value is empty or `asc`, descending for `desc`, any letter case";
/// C13: anything else is an error.  Some(true) = ascending.
spec fn direction_spec(v: Seq<char>) -> Option<bool> {
    if is_blank(v) { Some(true) }
    else if to_lowercase_spec(v) == "asc"@ { Some(true) }
    else if to_lowercase_spec(v) == "desc"@ { Some(false) }
    else { None }
}

/// keep-sorted-format: absent or blank => lexicographic; otherwise the named format; unknown => error
spec fn format_spec(attrs: Map<String, String>) -> Option<SortFormat> {
    match attr_view(attrs, "keep-sorted-format"@) {
        None => Some(SortFormat::Lexicographic),
        Some(f) => if trim_spec(f).len() == 0 { Some(SortFormat::Lexicographic) } else { sort_format_of_str(trim_spec(f)) },
    }
}

/// keep-sorted-pattern: absent or empty => no regex
spec fn pattern_spec(attrs: Map<String, String>) -> Seq<char> {
    match attr_view(attrs, "keep-sorted-pattern"@) { None => Seq::empty(), Some(p) => p }
}

impl SortFormat {
//@unit id=V1cmp file=src/validators/keep_sorted.rs fn=<<impl SortFormat::cmp>> ret=r
//@contract
        ensures
            (r matches Ok(o) ==> cmp_spec(*self, a@, b@) == Ok::<Ordering, ()>(o)), // [V1cmp.post.order]
            (r is Err <==> cmp_spec(*self, a@, b@) is Err), // [V1cmp.post.non_numeric_is_err]
//@macro rule=E1 name=anyhow to=<<anyhow::verif_err()>>
//@edit rule=E13 find=<<$a.cmp($b)>> count=all optional=1
verif_str_cmp($a, $b)
//@edit rule=E13 find=<<$a.parse()>> count=all optional=1
verif_parse_f64($a)
//@edit rule=E16 find=<<|_|>> count=all optional=1
|_e|
//@end
}

impl KeepSortedValidator {

//@unit id=V1t file=src/validators/keep_sorted.rs fn=<<impl KeepSortedValidator::trimmed_line_value>> ret=r
//@contract
        ensures
            (match r { Some(p) => Some((p.0@, p.1@.start as int, p.1@.end as int)), None => None }) == key_info(None, line@), // [V1t.post.key_is_trimmed_line]
//@edit rule=E9 find=<<$a.as_ptr() as usize - $b.as_ptr() as usize>> count=all optional=1
verif_offset_in($a, $b)
//@end

//@unit id=V1r file=src/validators/keep_sorted.rs fn=<<impl KeepSortedValidator::regex_value>> ret=r
//@contract
        ensures
            (match r { Some(p) => Some((p.0@, p.1@.start as int, p.1@.end as int)), None => None }) == key_info(Some(Ok(*regex)), line@), // [V1r.post.key_is_group_or_match]
//@end


//@unit id=V1d file=src/validators/keep_sorted.rs fn=<<impl ValidatorSync for KeepSortedValidator::validate>> slice_from=<<let keep_sorted_cleaned = keep_sorted.trim();>> slice_until=<<let mut prev_value>>
//@wrapper
fn v1_prefix<'a>(
    block_with_context: &'a BlockWithContext,
    file_path: &PathBuf,
    keep_sorted: &'a String,
) -> (r: anyhow::Result<(String, Option<Result<regex::Regex, regex::Error>>, SortFormat, Ordering)>)
    ensures
        // unknown direction or unknown format: an error (C13), and only then
        r is Err <==> (direction_spec(keep_sorted@) is None || format_spec(block_with_context.block.attributes@) is None), // [V1d.post.malformed_is_err]
        r matches Ok(t) ==> {
            &&& direction_spec(keep_sorted@) == Some(t.3 == Ordering::Greater) // [V1d.post.direction]
            &&& (t.3 == Ordering::Greater || t.3 == Ordering::Less)
            &&& format_spec(block_with_context.block.attributes@) == Some(t.2) // [V1d.post.format]
            &&& (pattern_spec(block_with_context.block.attributes@).len() == 0 ==> t.1 is None) // [V1d.post.no_pattern_no_regex]
            &&& (pattern_spec(block_with_context.block.attributes@).len() > 0 ==> (match t.1 { // [V1d.post.regex_is_compiled_pattern]
                    Some(Ok(re)) => regex::compile_spec(pattern_spec(block_with_context.block.attributes@)) == Some(re),
                    Some(Err(_)) => regex::compile_spec(pattern_spec(block_with_context.block.attributes@)) is None,
                    None => false,
                }))
        },
//@tail
    Ok((keep_sorted_normalized, re, sort_format, violating_ord))
//@macro rule=E1 name=anyhow to=<<anyhow::verif_err()>>
//@edit rule=ghost before=<<let keep_sorted_cleaned>>
//@edit rule=E17 find=<<$a != $$s>> count=all optional=1
verif_str_ne(&$a, $$s)
//@edit rule=E17 find=<<$a == $$s>> count=all optional=1
verif_str_eq(&$a, $$s)
//@chain rule=E13 find=<<.cloned() .unwrap_or_default()>> to=verif_cloned_or_default
//@chain rule=E13 find=<<.unwrap_or_default()>> to=verif_str_or_default
//@closure rule=E12 find=<<|s|>> params=<<|s: &'a String|>> ret=<<t: &'a str>>
        ensures t@ == trim_spec(s@)
//@edit rule=E16 find=<<|_|>> count=all optional=1
|_e|
//@end

//@unit id=V1 file=src/validators/keep_sorted.rs fn=<<impl ValidatorSync for KeepSortedValidator::validate>> slice_from=<<let mut prev_value>> slice_to_block_end=1
//@wrapper
fn v1_loop<'a>(
    block_with_context: &'a BlockWithContext,
    file_blocks: &'a FileBlocks,
    file_path: &PathBuf,
    re: Option<Result<regex::Regex, regex::Error>>,
    sort_format: SortFormat,
    violating_ord: Ordering,
    keep_sorted_normalized: String,
    violations: &mut HashMap<PathBuf, Vec<Violation>>,
) -> (r: anyhow::Result<()>)
    requires
        block_wf(block_with_context.block),
        violating_ord != Ordering::Equal, // established by V1d ([V1d.post.direction]); checked at the hand-over in VO1
    ensures
        // every key in order (equal neighbours included) => silent
        (forall|i: int| !#[trigger] out_of_order(sort_format, violating_ord, keys_of(re, content_of(block_with_context.block, file_blocks.file_content@)), i))
            && (forall|i: int| !#[trigger] cmp_fails(sort_format, keys_of(re, content_of(block_with_context.block, file_blocks.file_content@)), i))
            && !(re matches Some(Err(_)))
            ==> r is Ok && final(violations)@ == old(violations)@, // [V1.post.sorted_is_silent]
        // the scan stops at the first out-of-order key: exactly one diagnostic, on that key
        forall|i: int| first_stop(sort_format, violating_ord, keys_of(re, content_of(block_with_context.block, file_blocks.file_content@)), i)
            && out_of_order(sort_format, violating_ord, keys_of(re, content_of(block_with_context.block, file_blocks.file_content@)), i) && r is Ok
            ==> exists|v: Violation| // [V1.post.reports_first_out_of_order]
                   final(violations)@.dom() == old(violations)@.dom().insert(*file_path)
                && final(violations)@[*file_path]@ == map_get_or_empty(old(violations)@, *file_path).push(v)
                && key_range_ok(v, block_with_context.block, re, content_of(block_with_context.block, file_blocks.file_content@), i) // [V1.post.range_is_key_span]
                && v.code@ == "keep-sorted"@,
        // ... or at the first key that cannot be compared: an error (C13)
        forall|i: int| first_stop(sort_format, violating_ord, keys_of(re, content_of(block_with_context.block, file_blocks.file_content@)), i)
            && cmp_fails(sort_format, keys_of(re, content_of(block_with_context.block, file_blocks.file_content@)), i)
            ==> r is Err, // [V1.post.non_numeric_is_err]
        (re matches Some(Err(_))) && lines_of(content_of(block_with_context.block, file_blocks.file_content@)).len() > 0
            ==> r is Err, // [V1.post.bad_regex_is_err]
        forall|k2: PathBuf| k2 != *file_path && #[trigger] old(violations)@.contains_key(k2) ==> final(violations)@.contains_key(k2) && final(violations)@[k2] == old(violations)@[k2], // [V1.post.other_files_untouched]
        forall|k2: PathBuf| k2 != *file_path && #[trigger] final(violations)@.contains_key(k2) ==> old(violations)@.contains_key(k2), // [V1.post.no_new_files]
        r is Err ==> final(violations)@ == old(violations)@, // [V1.post.err_leaves_report]
//@tail
    proof {
        if violations@ != old(violations)@ {
            let (i, v) = choose|i: int, v: Violation| first_stop(sort_format, violating_ord, keys, i)
                && out_of_order(sort_format, violating_ord, keys, i)
                && violations@.dom() == old(violations)@.dom().insert(*file_path)
                && violations@[*file_path]@ == map_get_or_empty(old(violations)@, *file_path).push(v)
                && #[trigger] key_range_ok(v, block_with_context.block, re, content_of(block_with_context.block, file_blocks.file_content@), i)
                && v.code@ == "keep-sorted"@;
            assert(first_stop(sort_format, violating_ord, keys_of(re, content_of(block_with_context.block, file_blocks.file_content@)), i));
            assert(out_of_order(sort_format, violating_ord, keys_of(re, content_of(block_with_context.block, file_blocks.file_content@)), i));
            // first_stop is unique: any other first stop j has neither j < i nor i < j
            assert forall|j: int| first_stop(sort_format, violating_ord, keys_of(re, content_of(block_with_context.block, file_blocks.file_content@)), j) implies j == i by {
                if j < i { assert(!out_of_order(sort_format, violating_ord, keys, j) && !cmp_fails(sort_format, keys, j)); }
                if i < j { assert(!out_of_order(sort_format, violating_ord, keys, i)); }
            }
        }
    }
    Ok(())
//@macro rule=E1 name=anyhow to=<<anyhow::verif_err()>>
//@dropcall rule=E1 name=with_context
//@forlines var=ls
        invariant_except_break
            violations@ == old(violations)@,
            forall|j: int| 0 <= j < it.index@ ==> !#[trigger] out_of_order(sort_format, violating_ord, keys, j), // [V1.inv.in_order_so_far]
            forall|j: int| 0 <= j < it.index@ ==> !#[trigger] cmp_fails(sort_format, keys, j), // [V1.inv.comparable_so_far]
            (match prev_value { Some(p) => Some(p.0@), None => None }) == prev_key(keys, it.index@ as int), // [V1.inv.prev_is_nearest_key]
            !(re matches Some(Err(_))) || it.index@ == 0,
        invariant
            block_wf(block_with_context.block),
            violating_ord != Ordering::Equal,
            keys == keys_of(re, content_of(block_with_context.block, file_blocks.file_content@)),
            ls@.len() == keys.len(),
            ls@.len() <= isize::MAX,
            forall|i: int| 0 <= i < ls@.len() ==> (#[trigger] ls@[i]).0 == i && key_of(re, ls@[i].1@) == keys[i]
                && ls@[i].1@ == lines_of(content_of(block_with_context.block, file_blocks.file_content@))[i],
        ensures
            violations@ == old(violations)@ ==>
                   (forall|j: int| 0 <= j < keys.len() ==> !#[trigger] out_of_order(sort_format, violating_ord, keys, j))
                && (forall|j: int| 0 <= j < keys.len() ==> !#[trigger] cmp_fails(sort_format, keys, j))
                && (!(re matches Some(Err(_))) || keys.len() == 0),
            violations@ != old(violations)@ ==> exists|i: int, v: Violation| first_stop(sort_format, violating_ord, keys, i) // [V1.inv.break_reports_first_out_of_order]
                && out_of_order(sort_format, violating_ord, keys, i)
                && violations@.dom() == old(violations)@.dom().insert(*file_path)
                && violations@[*file_path]@ == map_get_or_empty(old(violations)@, *file_path).push(v)
                && #[trigger] key_range_ok(v, block_with_context.block, re, content_of(block_with_context.block, file_blocks.file_content@), i)
                && v.code@ == "keep-sorted"@,
            forall|k2: PathBuf| k2 != *file_path && #[trigger] old(violations)@.contains_key(k2) ==> violations@.contains_key(k2) && violations@[k2] == old(violations)@[k2],
            forall|k2: PathBuf| k2 != *file_path && #[trigger] violations@.contains_key(k2) ==> old(violations)@.contains_key(k2),
//@edit rule=ghost before=<<let mut prev_value>>
    let ghost keys = keys_of(re, content_of(block_with_context.block, file_blocks.file_content@));
//@edit rule=ghost before=<<let value = match &re>> optional=1
                        assert(line_number == it.index@);
//@edit rule=ghost before=<<if let Some((curr_val, curr_range)) = value>> optional=1
                        assert((match value { Some(p) => Some((p.0@, p.1@.start as int, p.1@.end as int)), None => None }) == key_info(re, line@)); // [V1.assert.key_extraction]
//@edit rule=ghost before=<<let cmp =>> optional=1
                            assert(keys[line_number as int] == Some(curr_val@));
                            proof {
                                lemma_cmp_reflexive(sort_format, curr_val@);
                                if prev_key(keys, line_number as int) is Some {
                                    // the previous key is an earlier key, and every earlier key was accepted by the format
                                    lemma_prev_key_is_earlier(keys, line_number as int);
                                    let j = choose|j: int| 0 <= j < line_number && #[trigger] keys[j] == prev_key(keys, line_number as int);
                                    assert(!cmp_fails(sort_format, keys, j));
                                    assert(prev_val@ == prev_key(keys, line_number as int).unwrap());
                                } else {
                                    assert(prev_val@ == curr_val@);
                                }
                            }
                            assert(cmp_fails(sort_format, keys, line_number as int) <==> cmp_spec(sort_format, prev_val@, curr_val@) is Err);
                            assert(out_of_order(sort_format, violating_ord, keys, line_number as int) <==> cmp_spec(sort_format, prev_val@, curr_val@) == Ok::<Ordering, ()>(violating_ord));
//@edit rule=E5 find=<<violations.entry(file_path.clone()).or_insert_with(Vec::new).push(>> optional=1
verif_map_push(violations, file_path.clone(),
//@edit rule=ghost before=<<break;>> optional=1
                                    proof {
                                        let v = violations@[*file_path]@.last();
                                        assert(violations@[*file_path]@.len() == map_get_or_empty(old(violations)@, *file_path).len() + 1);
                                        assert(violations@[*file_path]@ == map_get_or_empty(old(violations)@, *file_path).push(v));
                                        assert(key_range_ok(v, block_with_context.block, re, content_of(block_with_context.block, file_blocks.file_content@), line_number as int));
                                    }
//@end

} // impl

//@unit id=V1c file=src/validators/keep_sorted.rs fn=create_violation ret=r
//@contract
    requires block_wf(*block),
    ensures
        r matches Ok(v) ==> v.range.start.line == violation_line_number && v.range.end.line == violation_line_number // [V1c.post.range]
            && v.range.start.character == violation_character_start && v.range.end.character == violation_character_end
            && v.code@ == "keep-sorted"@ && Ok::<BlockSeverity, anyhow::Error>(v.severity) == severity_spec(*block),
        severity_spec(*block) is Err ==> r is Err, // [V1c.post.bad_severity_is_err]
//@macro rule=E1 name=format to=<<verif_message()>>
//@dropcall rule=E1 name=context
//@edit rule=E2 find=<<serde_json::to_value(>>
verif_to_value(
//@end

} // verus!
fn main() {}
