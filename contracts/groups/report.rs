// Group `report`: unit V8 — `process_violations` (src/main.rs) and the two accessors it uses.
//   V8d  `Violation::as_simple_diagnostic`, V8v `SimpleDiagnostic::severity` (src/validators/mod.rs)
//   V8   `process_violations` (whole function)
//   V8g  `main`'s guard `if !violations.is_empty() { process_violations(violations)?; }` (slice)
// Properties: C11 (exit 1 exactly when a diagnostic of severity error exists; every violation is
// serialised exactly once under its file), C20 (independent of the hash-map iteration order: E4),
// C04 (no arithmetic/bounds failure).
use vstd::prelude::*;
use std::collections::{HashMap, HashSet};
use std::ops::{Range, RangeInclusive};
use std::path::PathBuf;
use std::sync::Arc;

//@include prelude/anyhow.rs
//@include prelude/orch_ext_report.rs

verus! {

//@include prelude/orch_model.rs
//@include prelude/orch_maps.rs

//@item file=src/validators/mod.rs kind=struct name=SimpleDiagnostic

// ---- std I/O (output is NOT modelled; only that these calls may fail) -----------------------------
#[verifier::external_type_specification]
#[verifier::external_body]
pub struct ExStderr(std::io::Stderr);

#[verifier::external_type_specification]
#[verifier::external_body]
pub struct ExStderrLock<'a>(std::io::StderrLock<'a>);

#[verifier::external_type_specification]
#[verifier::external_body]
pub struct ExIoError(std::io::Error);

pub assume_specification[ std::io::stderr ]() -> std::io::Stderr;

pub assume_specification[ std::io::Stderr::lock ](s: &std::io::Stderr) -> std::io::StderrLock<'static>;

/// E1: `?` on a `std::io::Error` in a function returning `anyhow::Result`
impl From<std::io::Error> for anyhow::Error {
    #[verifier::external_body]
    fn from(e: std::io::Error) -> anyhow::Error { anyhow::verif_err() }
}

/// E1: `writeln!(&mut stderr)`
#[verifier::external_body]
pub fn verif_writeln(w: &mut std::io::StderrLock<'static>) -> (r: Result<(), std::io::Error>)
{
    use std::io::Write;
    writeln!(w)
}

// ---------------------------------------------------------------------------------------------
// Specification, written from the statement of C11.

/// some violation of the run has severity `error`
pub open spec fn exists_error(v: SpecViolations) -> bool {
    exists|f: PathBuf, j: int| v.contains_key(f) && 0 <= j < v[f].len() && (#[trigger] v[f][j]).severity is Error
}

/// the JSON value of one violation (E2: an uninterpreted function of its five fields)
pub open spec fn json_of_violation(v: Violation) -> serde_json::Value {
    serde_json::json_of(v.range, v.code@, v.message@, v.severity, v.data)
}

/// the list `d` is the serialisation of the list `v`, one value per violation, same order
pub open spec fn list_serialised(d: Seq<serde_json::Value>, v: Seq<Violation>) -> bool {
    d.len() == v.len() && forall|j: int| 0 <= j < v.len() ==> d[j] == json_of_violation(#[trigger] v[j])
}

/// C11: "stderr is one JSON object mapping each file path to its list of diagnostics, and every
/// violation appears in it exactly once": same files, and per file one value per violation.
pub open spec fn report_is(d: Map<PathBuf, Vec<serde_json::Value>>, v: SpecViolations) -> bool {
    &&& forall|f: PathBuf| d.contains_key(f) <==> v.contains_key(f)
    &&& forall|f: PathBuf| v.contains_key(f) ==> list_serialised(d[f]@, #[trigger] v[f])
}

/// E4: once every entry of an arbitrary duplicate-free enumeration `ents` of the map has been
/// processed, the report covers exactly the map's files.
pub proof fn lemma_report(d: Map<PathBuf, Vec<serde_json::Value>>, m: Map<PathBuf, Vec<Violation>>, ents: Seq<(PathBuf, Vec<Violation>)>)
    requires
        entries_raw(ents, m),
        forall|f: PathBuf| d.contains_key(f) <==> exists|i: int| 0 <= i < ents.len() && (#[trigger] ents[i]).0 == f,
        forall|i: int| 0 <= i < ents.len() ==> list_serialised(d[(#[trigger] ents[i]).0]@, ents[i].1@),
    ensures
        report_is(d, vmap(m)),
{
    lemma_vmap(m);
    let v = vmap(m);
    assert forall|f: PathBuf| d.contains_key(f) <==> v.contains_key(f) by {
        if d.contains_key(f) {
            let i = choose|i: int| 0 <= i < ents.len() && (#[trigger] ents[i]).0 == f;
            assert(m.contains_key(ents[i].0));
        }
    }
    assert forall|f: PathBuf| v.contains_key(f) implies list_serialised(d[f]@, #[trigger] v[f]) by {
        let i = choose|i: int| 0 <= i < ents.len() && (#[trigger] ents[i]).0 == f;
        assert(m[ents[i].0] == ents[i].1);
        assert(list_serialised(d[ents[i].0]@, ents[i].1@));
    }
}

/// E4: "an error-severity violation was seen in some entry" is "the map has an error-severity violation"
pub proof fn lemma_flag(m: Map<PathBuf, Vec<Violation>>, ents: Seq<(PathBuf, Vec<Violation>)>, flag: bool)
    requires
        entries_raw(ents, m),
        flag <==> exists|i: int, j: int| 0 <= i < ents.len() && 0 <= j < ents[i].1@.len() && (#[trigger] ents[i].1@[j]).severity is Error,
    ensures
        flag <==> exists_error(vmap(m)),
{
    lemma_vmap(m);
    let v = vmap(m);
    if flag {
        let (i, j) = choose|i: int, j: int| 0 <= i < ents.len() && 0 <= j < ents[i].1@.len() && (#[trigger] ents[i].1@[j]).severity is Error;
        let f = ents[i].0;
        assert(m.contains_key(f) && m[f] == ents[i].1);
        assert(v.contains_key(f) && 0 <= j < v[f].len() && v[f][j].severity is Error);
    }
    if exists_error(v) {
        let (f, j) = choose|f: PathBuf, j: int| v.contains_key(f) && 0 <= j < v[f].len() && (#[trigger] v[f][j]).severity is Error;
        let i = choose|i: int| 0 <= i < ents.len() && (#[trigger] ents[i]).0 == f;
        assert(m[ents[i].0] == ents[i].1);
        assert(ents[i].1@[j].severity is Error);
    }
}

impl Violation {
//@unit id=V8d file=src/validators/mod.rs fn=<<impl Violation::as_simple_diagnostic>> ret=d
//@contract
        ensures
            *d.range == self.range && d.code@ == self.code@ && d.message@ == self.message@ // [V8d.post.same_fields]
                && d.severity == self.severity && *d.data == self.data,
//@end
}

impl SimpleDiagnostic<'_> {
//@unit id=V8v file=src/validators/mod.rs fn=<<impl SimpleDiagnostic<'_>::severity>> ret=s
//@contract
        ensures s == self.severity, // [V8v.post.is_field]
//@end
}

#[verifier::loop_isolation(false)]
//@unit id=V8 file=src/main.rs fn=process_violations ret=r
//@contract
    ensures
        // exit status 0 through this function means no error-severity diagnostic
        r is Ok ==> !exists_error(vmap(violations@)), // [V8.post.ok_implies_no_error]
//@edit rule=ghost before=<<let mut has_error_severity>>
    broadcast use axiom_pathbuf_key_model;
    let ghost viol = vmap(violations@);
    proof { lemma_vmap(violations@); }
//@edit rule=E4 find=<<for (file_path, file_violations) in violations>>
    let verif_entries = verif_into_entries(violations);
    let ghost ents = verif_entries@;
    for (file_path, file_violations) in it: verif_entries
        invariant
            // the flag is exactly "an error-severity violation was seen"
            has_error_severity <==> exists|i: int, j: int| 0 <= i < it.index@ && 0 <= j < ents[i].1@.len() && (#[trigger] ents[i].1@[j]).severity is Error, // [V8.inv.flag_iff_error_seen]
            // one entry per file processed, holding one value per violation
            forall|f: PathBuf| diagnostics@.contains_key(f) <==> exists|i: int| 0 <= i < it.index@ && (#[trigger] ents[i]).0 == f, // [V8.inv.files_so_far]
            forall|i: int| 0 <= i < it.index@ ==> list_serialised(diagnostics@[(#[trigger] ents[i]).0]@, ents[i].1@), // [V8.inv.each_violation_serialised_once]
            it.seq() == ents,
            entries_raw(ents, violations@),
//@edit rule=E15 find=<<for violation in file_violations>>
        let ghost fv = file_violations@;
        let ghost flag0 = has_error_severity;
        proof { assert(fv.take(fv.len() as int) =~= fv); }
        for violation in it2: file_violations
            invariant
                has_error_severity <==> flag0 || exists|j: int| 0 <= j < it2.index@ && (#[trigger] fv[j]).severity is Error, // [V8.inv2.flag_iff_error_seen]
                list_serialised(file_diagnostics@, fv.take(it2.index@)), // [V8.inv2.each_violation_serialised_once]
                it2.seq() == fv,
//@edit rule=ghost before=<<let diagnostic = violation.as_simple_diagnostic();>>
            proof {
                assert(fv.take(it2.index@ + 1) =~= fv.take(it2.index@).push(fv[it2.index@]));
            }
//@edit rule=ghost before=<<let mut stderr>>
    proof {
        // E4: `ents` enumerates the map in an arbitrary order; whatever it is, the report is complete
        assert(report_is(diagnostics@, viol)) by { // [V8.post.each_violation_serialised_once]
            lemma_report(diagnostics@, violations@, ents);
        }
        assert(has_error_severity <==> exists_error(viol)) by { // [V8.post.flag_iff_error_exists]
            lemma_flag(violations@, ents, has_error_severity);
        }
    }
//@macro rule=E1 name=writeln to=<<verif_writeln(&mut stderr)>>
//@edit rule=ghost before=<<process::exit(1)>>
        // the only call of `exit(1)`: reachable only if an error-severity violation exists
        assert(exists_error(viol)); // [V8.post.exit1_only_if_error]
//@end

// V8g: the end of `main` (main.rs:67-71): run the validators, and report only a non-empty result.
// `validators::run` is V7's function; here it is an opaque call whose result is named by a ghost
// function, so that the clauses below speak about "what `run` returned".
pub mod validators {
    use super::*;
    pub uninterp spec fn run_result(context: Arc<ValidationContext>, s: Vec<Box<dyn ValidatorSync>>, a: Vec<Box<dyn ValidatorAsync>>) -> Option<SpecViolations>;

    #[verifier::external_body]
    pub fn run(context: Arc<ValidationContext>, sync_validators: Vec<Box<dyn ValidatorSync>>, async_validators: Vec<Box<dyn ValidatorAsync>>)
        -> (r: anyhow::Result<HashMap<PathBuf, Vec<Violation>>>)
        ensures
            r matches Ok(m) ==> run_result(context, sync_validators, async_validators) == Some(vmap(m@)),
            r is Err ==> run_result(context, sync_validators, async_validators) is None,
    { unimplemented!() }
}

//@unit id=V8g file=src/main.rs fn=main slice_from=<<let violations = validators::run(>> slice_through=<<if>>
//@wrapper
fn main_run_and_report(context: ValidationContext, sync_validators: Vec<Box<dyn ValidatorSync>>, async_validators: Vec<Box<dyn ValidatorAsync>>) -> (r: anyhow::Result<()>)
    ensures
        // C13: a failed run is a failed `main` (non-zero exit status by Rust's runtime)
        r is Ok ==> validators::run_result(Arc::new(context), sync_validators, async_validators) is Some, // [V8g.post.run_err_propagates]
        // C11: exit status 0 means no error-severity diagnostic among what `run` returned
        r is Ok ==> !exists_error(validators::run_result(Arc::new(context), sync_validators, async_validators).unwrap()), // [V8g.post.ok_implies_no_error]
//@tail
    Ok(())
//@edit rule=ghost before=<<let violations = validators::run(>>
    broadcast use axiom_pathbuf_key_model;
//@edit rule=ghost after=<<let violations = validators::run(Arc::new(context), sync_validators, async_validators)?;>>
    proof { lemma_vmap(violations@); }
//@end

// INTERIM (being replaced by unit V8p): `with_printable_paths` of src/main.rs as a trusted stub
pub uninterp spec fn printable_spec(m: Map<PathBuf, Vec<serde_json::Value>>) -> Map<String, Vec<serde_json::Value>>;
#[verifier::external_body]
pub fn with_printable_paths(report: HashMap<PathBuf, Vec<serde_json::Value>>) -> (r: HashMap<String, Vec<serde_json::Value>>)
    ensures r@ == printable_spec(report@)
{ unimplemented!() }

} // verus!
fn main() {}
