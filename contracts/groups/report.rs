// Group `report`: unit V8 — `process_violations` (src/main.rs) and the functions it uses.
//   V8d  `Violation::as_simple_diagnostic`, V8v `SimpleDiagnostic::severity` (src/validators/mod.rs)
//   V8p  `with_printable_paths` (src/main.rs, whole function): a report keyed by paths -> keyed by printable texts
//   V8   `process_violations` (whole function)
//   V8g  `main`'s guard `if !violations.is_empty() { process_violations(violations)?; }` (slice)
// Properties: C11 (exit 1 exactly when a diagnostic of severity error exists; every violation is
// serialised exactly once under its file), C20 (independent of the hash-map iteration order: E4),
// C04 (no arithmetic/bounds failure).
use vstd::prelude::*;
use std::collections::{HashMap, HashSet};
use std::ops::{Range, RangeInclusive};
use std::path::PathBuf;
use std::sync::Arc;

//@include prelude/anyhow.rs
//@include prelude/orch_ext_report.rs

verus! {

//@include prelude/orch_model.rs
//@include prelude/orch_maps.rs
//@include prelude/report_printable.rs

//@item file=src/validators/mod.rs kind=struct name=SimpleDiagnostic

// ---- std I/O (output is NOT modelled; only that these calls may fail) -----------------------------
#[verifier::external_type_specification]
#[verifier::external_body]
pub struct ExStderr(std::io::Stderr);

#[verifier::external_type_specification]
#[verifier::external_body]
pub struct ExStderrLock<'a>(std::io::StderrLock<'a>);

#[verifier::external_type_specification]
#[verifier::external_body]
pub struct ExIoError(std::io::Error);

pub assume_specification[ std::io::stderr ]() -> std::io::Stderr;

/// What has gone through a stderr writer so far: the number of JSON documents and of newlines written through it
/// (uninterpreted functions of the writer VALUE; every `&mut` use yields a new value constrained by the shim's
/// `ensures`). This makes output an EVENT, not only a predicate: C11 "stderr is ONE JSON object".
pub uninterp spec fn stderr_docs(w: std::io::StderrLock<'static>) -> nat;
pub uninterp spec fn stderr_newlines(w: std::io::StderrLock<'static>) -> nat;

pub assume_specification[ std::io::Stderr::lock ](s: &std::io::Stderr) -> (r: std::io::StderrLock<'static>)
    ensures stderr_docs(r) == 0 && stderr_newlines(r) == 0;

/// E1: `?` on a `std::io::Error` in a function returning `anyhow::Result`
impl From<std::io::Error> for anyhow::Error {
    #[verifier::external_body]
    fn from(e: std::io::Error) -> anyhow::Error { anyhow::verif_err() }
}

/// E1: `writeln!(&mut stderr)`: fails exactly when the writer does (`stderr_newline_ok`, uninterpreted: the world
/// decides); body = the identical macro call.
#[verifier::external_body]
pub fn verif_writeln(w: &mut std::io::StderrLock<'static>) -> (r: Result<(), std::io::Error>)
    requires
        stderr_docs(*old(w)) == 1 && stderr_newlines(*old(w)) == 0, // [V8.call.newline_once_after_the_report]
    ensures
        r is Ok <==> stderr_newline_ok(),
        stderr_docs(*final(w)) == stderr_docs(*old(w)) && stderr_newlines(*final(w)) == stderr_newlines(*old(w)) + 1,
{
    use std::io::Write;
    writeln!(w)
}

// ---------------------------------------------------------------------------------------------
// Specification, written from the statement of C11.

/// some violation of the run has severity `error`
pub open spec fn exists_error(v: SpecViolations) -> bool {
    exists|f: PathBuf, j: int| v.contains_key(f) && 0 <= j < v[f].len() && (#[trigger] v[f][j]).severity is Error
}

/// the JSON value of one violation (E2: an uninterpreted function of its five fields)
pub open spec fn json_of_violation(v: Violation) -> serde_json::Value {
    serde_json::json_of(v.range, v.code@, v.message@, v.severity, v.data)
}

/// the list `d` is the serialisation of the list `v`, one value per violation, same order
pub open spec fn list_serialised(d: Seq<serde_json::Value>, v: Seq<Violation>) -> bool {
    d.len() == v.len() && forall|j: int| 0 <= j < v.len() ==> d[j] == json_of_violation(#[trigger] v[j])
}

/// C11: "stderr is one JSON object mapping each file path to its list of diagnostics, and every
/// violation appears in it exactly once": same files, and per file one value per violation.
pub open spec fn report_is(d: Map<PathBuf, Vec<serde_json::Value>>, v: SpecViolations) -> bool {
    &&& forall|f: PathBuf| d.contains_key(f) <==> v.contains_key(f)
    &&& forall|f: PathBuf| v.contains_key(f) ==> list_serialised(d[f]@, #[trigger] v[f])
}

// ---- the world: stderr (uninterpreted; nothing is assumed about when a write succeeds) --------------------
/// writing this map as one pretty-printed JSON object to the locked stderr succeeds (generic in the key type: the
/// statement is about the writer, not about what serde makes of the keys - that is `keys_serialisable`)
pub uninterp spec fn stderr_write_ok<K>(m: Map<K, Vec<serde_json::Value>>) -> bool;
/// writing the final newline to stderr succeeds
pub uninterp spec fn stderr_newline_ok() -> bool;

/// C11, the only admissible reason for a run without error-severity diagnostics to fail at the reporting stage:
/// the complete report of `v` (every violation once, under its file: `report_is`), keyed by printable paths
/// (`is_printable`: nothing lost, nothing duplicated), was handed to the writer and stderr did not take it
pub open spec fn stderr_report_fails(v: SpecViolations) -> bool {
    exists|rep: Map<PathBuf, Vec<serde_json::Value>>, out: Map<String, Vec<serde_json::Value>>|
        report_is(rep, v) && #[trigger] is_printable(out, rep) && !(stderr_write_ok(out) && stderr_newline_ok())
}

/// C11 "stderr is one JSON object mapping each file path to its list ... every violation appears in it exactly
/// once": the complete report of `v`, keyed by printable paths, was written to stderr
pub open spec fn stderr_report_written(v: SpecViolations) -> bool {
    exists|rep: Map<PathBuf, Vec<serde_json::Value>>, out: Map<String, Vec<serde_json::Value>>|
        report_is(rep, v) && #[trigger] is_printable(out, rep) && stderr_write_ok(out) && stderr_newline_ok()
}

// ---- end of the specification shared with group mainwire (//@copyfrom) -------------------------------------

/// E4: once every entry of an arbitrary duplicate-free enumeration `ents` of the map has been
/// processed, the report covers exactly the map's files.
pub proof fn lemma_report(d: Map<PathBuf, Vec<serde_json::Value>>, m: Map<PathBuf, Vec<Violation>>, ents: Seq<(PathBuf, Vec<Violation>)>)
    requires
        entries_raw(ents, m),
        forall|f: PathBuf| d.contains_key(f) <==> exists|i: int| 0 <= i < ents.len() && (#[trigger] ents[i]).0 == f,
        forall|i: int| 0 <= i < ents.len() ==> list_serialised(d[(#[trigger] ents[i]).0]@, ents[i].1@),
    ensures
        report_is(d, vmap(m)),
{
    lemma_vmap(m);
    let v = vmap(m);
    assert forall|f: PathBuf| d.contains_key(f) <==> v.contains_key(f) by {
        if d.contains_key(f) {
            let i = choose|i: int| 0 <= i < ents.len() && (#[trigger] ents[i]).0 == f;
            assert(m.contains_key(ents[i].0));
        }
    }
    assert forall|f: PathBuf| v.contains_key(f) implies list_serialised(d[f]@, #[trigger] v[f]) by {
        let i = choose|i: int| 0 <= i < ents.len() && (#[trigger] ents[i]).0 == f;
        assert(m[ents[i].0] == ents[i].1);
        assert(list_serialised(d[ents[i].0]@, ents[i].1@));
    }
}

/// E4: "an error-severity violation was seen in some entry" is "the map has an error-severity violation"
pub proof fn lemma_flag(m: Map<PathBuf, Vec<Violation>>, ents: Seq<(PathBuf, Vec<Violation>)>, flag: bool)
    requires
        entries_raw(ents, m),
        flag <==> exists|i: int, j: int| 0 <= i < ents.len() && 0 <= j < ents[i].1@.len() && (#[trigger] ents[i].1@[j]).severity is Error,
    ensures
        flag <==> exists_error(vmap(m)),
{
    lemma_vmap(m);
    let v = vmap(m);
    if flag {
        let (i, j) = choose|i: int, j: int| 0 <= i < ents.len() && 0 <= j < ents[i].1@.len() && (#[trigger] ents[i].1@[j]).severity is Error;
        let f = ents[i].0;
        assert(m.contains_key(f) && m[f] == ents[i].1);
        assert(v.contains_key(f) && 0 <= j < v[f].len() && v[f][j].severity is Error);
    }
    if exists_error(v) {
        let (f, j) = choose|f: PathBuf, j: int| v.contains_key(f) && 0 <= j < v[f].len() && (#[trigger] v[f][j]).severity is Error;
        let i = choose|i: int| 0 <= i < ents.len() && (#[trigger] ents[i]).0 == f;
        assert(m[ents[i].0] == ents[i].1);
        assert(ents[i].1@[j].severity is Error);
    }
}

impl Violation {
//@unit id=V8d file=src/validators/mod.rs fn=<<impl Violation::as_simple_diagnostic>> ret=d
//@contract
        ensures
            *d.range == self.range && d.code@ == self.code@ && d.message@ == self.message@ // [V8d.post.same_fields]
                && d.severity == self.severity && *d.data == self.data,
//@end
}

impl SimpleDiagnostic<'_> {
//@unit id=V8v file=src/validators/mod.rs fn=<<impl SimpleDiagnostic<'_>::severity>> ret=s
//@contract
        ensures s == self.severity, // [V8v.post.is_field]
//@end
}

// ---------------------------------------------------------------------------------------------
// V8p: `with_printable_paths` (src/main.rs, introduced by 6239843). C11: "one JSON object mapping each
// file path to its list ... every violation appears in it exactly once" - the member names of a JSON object
// are strings, a path need not be valid Unicode: the report is re-keyed by the lossy text of each path.

/// T-std: `String`'s `Hash`/`Eq` are functions of its contents (vstd needs this for the `Map` view of
/// `HashMap<String, _>`; same statement as prelude/tstr_mod.rs) ...
pub broadcast axiom fn axiom_string_key_model()
    ensures #[trigger] vstd::std_specs::hash::obeys_key_model::<String>();

/// ... and two `String`s with equal contents are the same key (`impl PartialEq for String` compares the
/// bytes; vstd views a `String` as its `Seq<char>` but does not state extensionality).
pub broadcast axiom fn axiom_string_view_injective(a: String, b: String)
    ensures (#[trigger] a@ == #[trigger] b@) ==> a == b;

/// E13 shim: `path.to_string_lossy().into_owned()` (`Path::to_string_lossy` returns `Cow<'_, str>`, which is outside
/// Verus; `Cow::into_owned` is the same text as a `String`). Body = the identical std calls; T-std: the result is
/// the function `path_text` of the path.
#[verifier::external_body]
pub fn verif_path_text(path: &PathBuf) -> (r: String)
    ensures r@ == path_text(*path),
{ path.to_string_lossy().into_owned() }

/// the files among the first `n` entries that are printed under the text `s`, in entry order ...
pub open spec fn texts_order<V>(ents: Seq<(PathBuf, Vec<V>)>, s: Seq<char>, n: int) -> Seq<PathBuf>
    decreases n
{
    if n <= 0 {
        Seq::<PathBuf>::empty()
    } else if path_text(ents[n - 1].0) == s {
        texts_order(ents, s, n - 1).push(ents[n - 1].0)
    } else {
        texts_order(ents, s, n - 1)
    }
}

/// ... and their lists, one after the other (what `extend` has accumulated under `s` after `n` entries)
pub open spec fn texts_concat<V>(ents: Seq<(PathBuf, Vec<V>)>, s: Seq<char>, n: int) -> Seq<V>
    decreases n
{
    if n <= 0 {
        Seq::<V>::empty()
    } else if path_text(ents[n - 1].0) == s {
        texts_concat(ents, s, n - 1) + ents[n - 1].1@
    } else {
        texts_concat(ents, s, n - 1)
    }
}

/// no entry so far has the text `s`: nothing accumulated under it
pub proof fn lemma_texts_none<V>(ents: Seq<(PathBuf, Vec<V>)>, s: Seq<char>, n: int)
    requires
        0 <= n <= ents.len(),
        forall|i: int| 0 <= i < n ==> path_text((#[trigger] ents[i]).0) != s,
    ensures
        texts_concat(ents, s, n) == Seq::<V>::empty(),
        texts_order(ents, s, n) == Seq::<PathBuf>::empty(),
    decreases n,
{
    if n > 0 {
        lemma_texts_none(ents, s, n - 1);
        assert(path_text(ents[n - 1].0) != s);
    }
}

// E4: whatever duplicate-free enumeration `ents` of the map the loop saw, `texts_order` lists exactly the files with
// text `s`, each once, and `texts_concat` is the concatenation of their lists in that order. (One lemma per fact
// and per element: stated together as quantified facts they form a matching loop.)

/// every member of `texts_order` is the key of one of the first `n` entries, and has the text `s`
pub proof fn lemma_texts_src<V>(ents: Seq<(PathBuf, Vec<V>)>, s: Seq<char>, n: int, j: int)
    requires
        0 <= n <= ents.len(),
        0 <= j < texts_order(ents, s, n).len(),
    ensures
        exists|i: int| 0 <= i < n && (#[trigger] ents[i]).0 == texts_order(ents, s, n)[j] && path_text(ents[i].0) == s,
    decreases n,
{
    if n > 0 {
        let o0 = texts_order(ents, s, n - 1);
        if path_text(ents[n - 1].0) == s && j == o0.len() {
            assert(0 <= n - 1 < n && ents[n - 1].0 == texts_order(ents, s, n)[j]);
        } else {
            lemma_texts_src(ents, s, n - 1, j);
            let i = choose|i: int| 0 <= i < n - 1 && (#[trigger] ents[i]).0 == o0[j] && path_text(ents[i].0) == s;
            assert(0 <= i < n && ents[i].0 == texts_order(ents, s, n)[j]);
        }
    }
}

/// every one of the first `n` entries with the text `s` has its key in `texts_order`
pub proof fn lemma_texts_member<V>(ents: Seq<(PathBuf, Vec<V>)>, s: Seq<char>, n: int, i: int)
    requires
        0 <= i < n <= ents.len(),
        path_text(ents[i].0) == s,
    ensures
        exists|j: int| 0 <= j < texts_order(ents, s, n).len() && #[trigger] texts_order(ents, s, n)[j] == ents[i].0,
    decreases n,
{
    let o = texts_order(ents, s, n);
    if i == n - 1 {
        assert(o[o.len() - 1] == ents[i].0);
    } else {
        lemma_texts_member(ents, s, n - 1, i);
        let o0 = texts_order(ents, s, n - 1);
        let j = choose|j: int| 0 <= j < o0.len() && #[trigger] o0[j] == ents[i].0;
        assert(o[j] == ents[i].0);
    }
}

/// no file twice
pub proof fn lemma_texts_nodup<V>(ents: Seq<(PathBuf, Vec<V>)>, m: Map<PathBuf, Vec<V>>, s: Seq<char>, n: int, j: int, k: int)
    requires
        entries_raw(ents, m),
        0 <= n <= ents.len(),
        0 <= j < k < texts_order(ents, s, n).len(),
    ensures
        texts_order(ents, s, n)[j] != texts_order(ents, s, n)[k],
    decreases n,
{
    if n > 0 {
        let o0 = texts_order(ents, s, n - 1);
        if path_text(ents[n - 1].0) == s && k == o0.len() {
            // `o[j]` is the key of an EARLIER entry; the keys of an enumeration are pairwise different
            lemma_texts_src(ents, s, n - 1, j);
            let i = choose|i: int| 0 <= i < n - 1 && (#[trigger] ents[i]).0 == o0[j] && path_text(ents[i].0) == s;
            assert(ents[i].0 != ents[n - 1].0);
        } else {
            lemma_texts_nodup(ents, m, s, n - 1, j, k);
        }
    }
}

/// what `extend` accumulated is the concatenation of the lists of exactly these files
pub proof fn lemma_texts_concat<V>(ents: Seq<(PathBuf, Vec<V>)>, m: Map<PathBuf, Vec<V>>, s: Seq<char>, n: int)
    requires
        entries_raw(ents, m),
        0 <= n <= ents.len(),
    ensures
        concat_lists(m, texts_order(ents, s, n)) == texts_concat(ents, s, n),
    decreases n,
{
    if n > 0 {
        lemma_texts_concat(ents, m, s, n - 1);
        let o0 = texts_order(ents, s, n - 1);
        let o = texts_order(ents, s, n);
        let f = ents[n - 1].0;
        if path_text(f) == s {
            assert(o.drop_last() =~= o0);
            assert(o.last() == f);
            assert(m[f] == ents[n - 1].1);
        }
    }
}

/// E4: at the end of the loop of V8p, for ANY enumeration order: the result is the report keyed by printable paths
pub proof fn lemma_printable<V>(out: Map<String, Vec<V>>, report: Map<PathBuf, Vec<V>>, ents: Seq<(PathBuf, Vec<V>)>)
    requires
        entries_raw(ents, report),
        forall|s: String| #[trigger] out.contains_key(s) <==> exists|i: int| 0 <= i < ents.len() && path_text((#[trigger] ents[i]).0) == s@,
        forall|s: String| #[trigger] out.contains_key(s) ==> out[s]@ == texts_concat(ents, s@, ents.len() as int),
    ensures
        is_printable(out, report),
{
    assert forall|s: String| #[trigger] out.contains_key(s) <==> exists|f: PathBuf| report.contains_key(f) && #[trigger] path_text(f) == s@ by {
        if out.contains_key(s) {
            let i = choose|i: int| 0 <= i < ents.len() && path_text((#[trigger] ents[i]).0) == s@;
            assert(report.contains_key(ents[i].0) && path_text(ents[i].0) == s@);
        }
        if exists|f: PathBuf| report.contains_key(f) && #[trigger] path_text(f) == s@ {
            let f = choose|f: PathBuf| report.contains_key(f) && #[trigger] path_text(f) == s@;
            let i = choose|i: int| 0 <= i < ents.len() && (#[trigger] ents[i]).0 == f;
            assert(path_text(ents[i].0) == s@);
        }
    }
    assert forall|s: String| #[trigger] out.contains_key(s) implies exists|order: Seq<PathBuf>| #[trigger] files_with_text(report, s@, order) && out[s]@ == concat_lists(report, order) by {
        let n = ents.len() as int;
        let order = texts_order(ents, s@, n);
        lemma_texts_concat(ents, report, s@, n);
        assert forall|j: int| 0 <= j < order.len() implies report.contains_key(#[trigger] order[j]) && path_text(order[j]) == s@ by {
            lemma_texts_src(ents, s@, n, j);
            let i = choose|i: int| 0 <= i < n && (#[trigger] ents[i]).0 == order[j] && path_text(ents[i].0) == s@;
            assert(report.contains_key(ents[i].0));
        }
        assert forall|j: int, k: int| 0 <= j < k < order.len() implies #[trigger] order[j] != #[trigger] order[k] by {
            lemma_texts_nodup(ents, report, s@, n, j, k);
        }
        assert forall|f: PathBuf| report.contains_key(f) && #[trigger] path_text(f) == s@ implies exists|j: int| 0 <= j < order.len() && #[trigger] order[j] == f by {
            let i = choose|i: int| 0 <= i < ents.len() && (#[trigger] ents[i]).0 == f;
            lemma_texts_member(ents, s@, n, i);
        }
        assert(files_with_text(report, s@, order));
    }
}

/// Corollary (C11 "mapping each file path to its list"): where the texts of the report's files are pairwise
/// different - always so when every path is valid Unicode - each file's list stands, unchanged, under its text.
pub proof fn lemma_printable_injective<V>(out: Map<String, Vec<V>>, report: Map<PathBuf, Vec<V>>)
    requires
        is_printable(out, report),
        path_text_injective_on(report),
    ensures
        forall|f: PathBuf, s: String| report.contains_key(f) && #[trigger] path_text(f) == #[trigger] s@ ==> out.contains_key(s) && out[s]@ == report[f]@, // [V8p.lemma.injective_text_keeps_each_list_under_its_path]
{
    assert forall|f: PathBuf, s: String| report.contains_key(f) && #[trigger] path_text(f) == #[trigger] s@ implies out.contains_key(s) && out[s]@ == report[f]@ by {
        assert(out.contains_key(s));
        let order = choose|order: Seq<PathBuf>| #[trigger] files_with_text(report, s@, order) && out[s]@ == concat_lists(report, order);
        let j = choose|j: int| 0 <= j < order.len() && #[trigger] order[j] == f;
        // every member of `order` has the text of `f`, hence IS `f`; members are pairwise different: one member
        assert forall|k: int| 0 <= k < order.len() implies #[trigger] order[k] == f by {
            assert(report.contains_key(order[k]) && path_text(order[k]) == path_text(f));
        }
        if order.len() > 1 {
            assert(order[0] != order[1]);
        }
        assert(order.len() == 1);
        assert(order.drop_last().len() == 0);
        assert(concat_lists(report, order.drop_last()) == Seq::<V>::empty());
        assert(order.last() == f);
        assert(concat_lists(report, order) =~= report[f]@);
    }
}

/// C11 read back for the ordinary case (pairwise different printable texts, e.g. all paths valid Unicode): what V8
/// hands to the writer maps the text of each file to exactly the serialised list of that file's violations.
pub proof fn lemma_printed_report_injective(v: SpecViolations, rep: Map<PathBuf, Vec<serde_json::Value>>, out: Map<String, Vec<serde_json::Value>>)
    requires
        report_is(rep, v),
        is_printable(out, rep),
        path_text_injective_on(rep),
    ensures
        forall|s: String| #[trigger] out.contains_key(s) <==> exists|f: PathBuf| v.contains_key(f) && #[trigger] path_text(f) == s@, // [V8.lemma.printed_keys_are_the_texts_of_the_files_with_violations]
        forall|f: PathBuf, s: String| v.contains_key(f) && #[trigger] path_text(f) == #[trigger] s@ ==> out.contains_key(s) && list_serialised(out[s]@, v[f]), // [V8.lemma.each_files_violations_once_under_its_printed_path]
{
    lemma_printable_injective(out, rep);
    assert forall|s: String| #[trigger] out.contains_key(s) <==> exists|f: PathBuf| v.contains_key(f) && #[trigger] path_text(f) == s@ by {
        if out.contains_key(s) {
            let f = choose|f: PathBuf| rep.contains_key(f) && #[trigger] path_text(f) == s@;
            assert(v.contains_key(f) && path_text(f) == s@);
        }
        if exists|f: PathBuf| v.contains_key(f) && #[trigger] path_text(f) == s@ {
            let f = choose|f: PathBuf| v.contains_key(f) && #[trigger] path_text(f) == s@;
            assert(rep.contains_key(f) && path_text(f) == s@);
        }
    }
    assert forall|f: PathBuf, s: String| v.contains_key(f) && #[trigger] path_text(f) == #[trigger] s@ implies out.contains_key(s) && list_serialised(out[s]@, v[f]) by {
        assert(rep.contains_key(f));
        assert(list_serialised(rep[f]@, v[f]));
    }
}

#[verifier::loop_isolation(false)]
//@unit id=V8p file=src/main.rs fn=with_printable_paths ret=r optional=1
//@contract
    ensures
        // a text is a key of the result iff it is the printable text of some file of the report
        forall|s: String| #[trigger] r@.contains_key(s) <==> exists|f: PathBuf| report@.contains_key(f) && #[trigger] path_text(f) == s@, // [V8p.post.keys_are_the_texts_of_the_files]
        // under a text stand the lists of ALL files with that text, each exactly once, nothing else
        forall|s: String| #[trigger] r@.contains_key(s) ==> exists|order: Seq<PathBuf>| #[trigger] files_with_text(report@, s@, order) && r@[s]@ == concat_lists(report@, order), // [V8p.post.every_list_exactly_once_under_its_text]
        // summary used by V8 / M1
        is_printable(r@, report@), // [V8p.post.is_printable]
//@chain rule=E13 find=<<.to_string_lossy().into_owned()>> to=verif_path_text recvprefix=<<&>>
//@edit rule=E5 find=<<$m.entry(verif_path_text(&$p)).or_default().extend($v)>> optional=1
verif_map_extend(&mut $m, verif_path_text(&$p), $v)
//@edit rule=E5 find=<<$m.entry(verif_path_text(&$p)).or_insert_with(Vec::new).extend($v)>> optional=1
verif_map_extend(&mut $m, verif_path_text(&$p), $v)
//@edit rule=ghost before=<<let mut result>>
    broadcast use axiom_pathbuf_key_model, axiom_string_key_model, axiom_string_view_injective;
//@edit rule=E4 find=<<for ($a, $b) in report>>
    let verif_entries = verif_into_entries(report);
    let ghost ents = verif_entries@;
    for ($a, $b) in it: verif_entries
        invariant
            // a text is a key iff it is the text of a file seen so far
            forall|s: String| #[trigger] result@.contains_key(s) <==> exists|i: int| 0 <= i < it.index@ && path_text((#[trigger] ents[i]).0) == s@, // [V8p.inv.keys_so_far]
            // and under it are the lists of the files seen so far with that text, each once, in the order seen
            forall|s: String| #[trigger] result@.contains_key(s) ==> result@[s]@ == texts_concat(ents, s@, it.index@ as int), // [V8p.inv.lists_so_far]
            it.seq() == ents,
            entries_raw(ents, report@),
//@edit rule=ghost after=<<entries_raw(ents, report@), {>>
        // (anchored on the loop head above, not on the statement of the body: a changed body is verified, not lost)
        let ghost result0 = result@;
        let ghost n = it.index@ as int;
//@edit rule=ghost before=<<} result }>>
        proof {
            // one more entry: its text is a key now, its list is appended under that text, every other key is untouched
            let t = path_text(ents[n].0);
            assert forall|s: String| #[trigger] result@.contains_key(s) <==> exists|i: int| 0 <= i < n + 1 && path_text((#[trigger] ents[i]).0) == s@ by { // [V8p.step.text_of_this_file_becomes_a_key]
                if result0.contains_key(s) {
                    let i = choose|i: int| 0 <= i < n && path_text((#[trigger] ents[i]).0) == s@;
                    assert(0 <= i < n + 1 && path_text(ents[i].0) == s@); // [V8p.step.text_of_this_file_becomes_a_key]
                }
                if s@ == t {
                    assert(0 <= n < n + 1 && path_text(ents[n].0) == s@); // [V8p.step.text_of_this_file_becomes_a_key]
                }
            }
            assert forall|s: String| #[trigger] result@.contains_key(s) implies result@[s]@ == texts_concat(ents, s@, n + 1) by { // [V8p.step.list_appended_under_its_text_nothing_else_changed]
                if s@ == t {
                    if !result0.contains_key(s) {
                        lemma_texts_none(ents, s@, n);
                    }
                    assert(result@[s]@ =~= texts_concat(ents, s@, n) + ents[n].1@); // [V8p.step.list_appended_under_its_text_nothing_else_changed]
                } else {
                    assert(result0.contains_key(s)); // [V8p.step.list_appended_under_its_text_nothing_else_changed]
                    assert(result@[s] == result0[s]); // [V8p.step.list_appended_under_its_text_nothing_else_changed]
                }
            }
        }
//@edit rule=ghost before=<<result }>>
    proof {
        // E4: `ents` enumerates the map in an arbitrary order; whatever it is, nothing is lost or duplicated
        lemma_printable(result@, report@, ents);
    }
//@end

#[verifier::loop_isolation(false)]
//@unit id=V8 file=src/main.rs fn=process_violations ret=r
//@contract
    requires
        // from its only call site (V8g): C11 "with no diagnostics nothing is printed"
        violations@.len() > 0, // [V8.pre.called_only_with_diagnostics]
    ensures
        // exit status 0 through this function means no error-severity diagnostic
        r is Ok ==> !exists_error(vmap(violations@)), // [V8.post.ok_implies_no_error]
        // C11 "and exits 0 otherwise ... severity=warning|info|hint still print their diagnostics but never fail the
        // run": the function fails (`Err`, a non-zero exit status of `main`) ONLY if stderr did not take the complete
        // report keyed by printable paths - never because of what the diagnostics or the file names are. With
        // `V8.post.exit1_only_if_error`: no error-severity diagnostic and a stderr that can be written => `Ok`.
        r is Err ==> stderr_report_fails(vmap(violations@)), // [V8.post.err_only_if_stderr_write_fails]
        // C11 "whenever there are diagnostics, stderr is one JSON object mapping each file path to its list ... every
        // violation appears in it exactly once": `Ok` means the complete report (`report_is`), keyed by printable
        // paths (`is_printable`), was handed to the writer, and written
        r is Ok ==> stderr_report_written(vmap(violations@)), // [V8.post.ok_means_printable_report_written]
//@edit rule=ghost before=<<let mut has_error_severity>>
    broadcast use axiom_pathbuf_key_model;
    let ghost viol = vmap(violations@);
    proof { lemma_vmap(violations@); }
//@edit rule=E4 find=<<for (file_path, file_violations) in violations>>
    let verif_entries = verif_into_entries(violations);
    let ghost ents = verif_entries@;
    for (file_path, file_violations) in it: verif_entries
        invariant
            // the flag is exactly "an error-severity violation was seen"
            has_error_severity <==> exists|i: int, j: int| 0 <= i < it.index@ && 0 <= j < ents[i].1@.len() && (#[trigger] ents[i].1@[j]).severity is Error, // [V8.inv.flag_iff_error_seen]
            // one entry per file processed, holding one value per violation
            forall|f: PathBuf| diagnostics@.contains_key(f) <==> exists|i: int| 0 <= i < it.index@ && (#[trigger] ents[i]).0 == f, // [V8.inv.files_so_far]
            forall|i: int| 0 <= i < it.index@ ==> list_serialised(diagnostics@[(#[trigger] ents[i]).0]@, ents[i].1@), // [V8.inv.each_violation_serialised_once]
            it.seq() == ents,
            entries_raw(ents, violations@),
//@edit rule=E15 find=<<for violation in file_violations>>
        let ghost fv = file_violations@;
        let ghost flag0 = has_error_severity;
        proof { assert(fv.take(fv.len() as int) =~= fv); }
        for violation in it2: file_violations
            invariant
                has_error_severity <==> flag0 || exists|j: int| 0 <= j < it2.index@ && (#[trigger] fv[j]).severity is Error, // [V8.inv2.flag_iff_error_seen]
                list_serialised(file_diagnostics@, fv.take(it2.index@)), // [V8.inv2.each_violation_serialised_once]
                it2.seq() == fv,
//@edit rule=ghost before=<<let diagnostic = violation.as_simple_diagnostic();>>
            proof {
                assert(fv.take(it2.index@ + 1) =~= fv.take(it2.index@).push(fv[it2.index@]));
            }
//@edit rule=ghost before=<<let mut stderr>>
    proof {
        // E4: `ents` enumerates the map in an arbitrary order; whatever it is, the report is complete
        assert(report_is(diagnostics@, viol)) by { // [V8.post.each_violation_serialised_once]
            lemma_report(diagnostics@, violations@, ents);
        }
        assert(has_error_severity <==> exists_error(viol)) by { // [V8.post.flag_iff_error_exists]
            lemma_flag(violations@, ents, has_error_severity);
        }
    }
    let ghost rep = diagnostics@;
//@macro rule=E1 name=writeln to=<<verif_writeln(&mut stderr)>>
//@macro rule=E1 name=anyhow to=<<anyhow::verif_err()>> optional=1
//@edit rule=ghost before=<<process::exit(1)>>
        // the only call of `exit(1)`: reachable only if an error-severity violation exists
        assert(exists_error(viol)); // [V8.post.exit1_only_if_error]
//@edit rule=E2 find=<<process::exit(1)>> count=all
process::exit_reported(1, &stderr)
//@end

// V8g: the end of `main` (main.rs:67-71): run the validators, and report only a non-empty result.
// `validators::run` is V7's function; here it is an opaque call whose result is named by a ghost
// function, so that the clauses below speak about "what `run` returned".
pub mod validators {
    use super::*;
    pub uninterp spec fn run_result(context: Arc<ValidationContext>, s: Vec<Box<dyn ValidatorSync>>, a: Vec<Box<dyn ValidatorAsync>>) -> Option<SpecViolations>;

    #[verifier::external_body]
    pub fn run(context: Arc<ValidationContext>, sync_validators: Vec<Box<dyn ValidatorSync>>, async_validators: Vec<Box<dyn ValidatorAsync>>)
        -> (r: anyhow::Result<HashMap<PathBuf, Vec<Violation>>>)
        ensures
            r matches Ok(m) ==> run_result(context, sync_validators, async_validators) == Some(vmap(m@)),
            r is Err ==> run_result(context, sync_validators, async_validators) is None,
    { unimplemented!() }
}

//@unit id=V8g file=src/main.rs fn=main slice_from=<<let violations = validators::run(>> slice_through=<<if>>
//@wrapper
fn main_run_and_report(context: ValidationContext, sync_validators: Vec<Box<dyn ValidatorSync>>, async_validators: Vec<Box<dyn ValidatorAsync>>) -> (r: anyhow::Result<()>)
    ensures
        // C13: a failed run is a failed `main` (non-zero exit status by Rust's runtime)
        r is Ok ==> validators::run_result(Arc::new(context), sync_validators, async_validators) is Some, // [V8g.post.run_err_propagates]
        // C11: exit status 0 means no error-severity diagnostic among what `run` returned
        r is Ok ==> !exists_error(validators::run_result(Arc::new(context), sync_validators, async_validators).unwrap()), // [V8g.post.ok_implies_no_error]
        // C11 "and exits 0 otherwise": this stage fails ONLY if a validator returned `Err` (C13) or stderr did not take
        // the report of what `run` returned; in particular never because every diagnostic is a warning / info / hint,
        // and never because of the name of a file
        r is Err ==> (validators::run_result(Arc::new(context), sync_validators, async_validators) matches Some(v) ==> stderr_report_fails(v)), // [V8g.post.err_only_if_run_failed_or_stderr_write_fails]
        // C11 "whenever there are diagnostics, stderr is one JSON object ...": an `Ok` run with a non-empty result has
        // written its report (warnings are printed although they do not fail the run)
        r is Ok && validators::run_result(Arc::new(context), sync_validators, async_validators) is Some && validators::run_result(Arc::new(context), sync_validators, async_validators).unwrap().len() > 0 // [V8g.post.ok_with_diagnostics_means_report_written]
            ==> stderr_report_written(validators::run_result(Arc::new(context), sync_validators, async_validators).unwrap()),
//@tail
    Ok(())
//@edit rule=ghost before=<<let violations = validators::run(>>
    broadcast use axiom_pathbuf_key_model;
//@edit rule=ghost after=<<let violations = validators::run(Arc::new(context), sync_validators, async_validators)?;>>
    proof { lemma_vmap(violations@); }
//@macro rule=E1 name=anyhow to=<<anyhow::verif_err()>> optional=1
//@end

} // verus!
fn main() {}
