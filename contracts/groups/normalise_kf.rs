// Group `normalise_kf`: the UNCARVED clause of known finding KF-N6 — EXPECTED TO FAIL on the unchanged tree.
// `N6.post.newlines_stay_in_place` ("every '\n' of the comment text stays at its byte offset", the T-ext fact
// the block parser relies on for line/column arithmetic, C03/C10) is FALSE for the Markdown comment
// extractor: a line break between `[//]:` and the title's opening delimiter is overwritten by a space
// (markdown.rs: `" ".repeat(open_idx - (prefix_idx + 5) + 1)`). Concrete input, replayed on
// /repo/target/debug/blockwatch: `[//]: #\n  (<block name="nl">)` at file lines 3-4: `list` reports line 3,
// column 12 for a `<` that is on line 4, column 4. The carved clause
// (`N6.post.newlines_stay_in_place_carved`, no '\n' before the delimiter) is proved in group `normalise`.
use vstd::prelude::*;
use vstd::utf8::*;
use vstd::string::*;
use vstd::std_specs::char::is_white_space;
use std::ops::Range;

//@include prelude/tstr_mod.rs
//@include prelude/tagnorm_auto.rs

verus! {

broadcast use {tstr::group_tstr, tagnorm_auto::group_tagnorm_auto};

//@include prelude/tagnorm_bytes.rs
//@include prelude/tagnorm_norm.rs

//@copyfrom file=groups/normalise.rs from=<<pub open spec fn sp(>> until=<</// the predicate of the real closure `|c: char| !c.is_whitespace()`>>
//@copyfrom file=groups/normalise.rs from=<</// same length and every '\n' where it was>> until=<</// the first occurrence of `pat`>>
//@copyfrom file=groups/normalise.rs from=<<pub open spec fn b_md_prefix()>> until=<<//@unit id=N6 >>

//@unit id=N6kf file=src/language_parsers/markdown.rs fn=markdown_comments_parser slice_from=<<let comment = &source_code[node.byte_range()];>> slice_until=<<Some(result)>>
//@wrapper
fn n6kf_markdown_comment_text(verif_comment_text: &str) -> (r: Option<String>)
    ensures
        r matches Some(s) ==> utf8(s@).len() == utf8(verif_comment_text@).len(), // [N6.post.same_byte_length]
        r matches Some(s) ==> exists|p: int, o: int, c: int| #[trigger] md_parts(verif_comment_text@, p, o, c) // [N6.post.content_between_delimiters_unchanged]
            && n6_frame(utf8(verif_comment_text@), utf8(s@), p, o, c),
        r matches Some(s) ==> forall|i: int| 0 <= i < utf8(verif_comment_text@).len() ==> // [N6.post.newlines_stay_in_place]
            (#[trigger] utf8(s@)[i] == 0x0au8) == (utf8(verif_comment_text@)[i] == 0x0au8),
//@tail
    proof {
        let p = prefix_idx as int;
        let o = open_idx as int;
        let c = close_idx as int;
        let out = utf8(result@);
        let rest = if c + 1 < bc.len() { bc.subrange(c + 1, bc.len() as int) } else { Seq::<u8>::empty() };
        assert(out == bc.subrange(0, p) + sp(5) + verif_fill + bc.subrange(o + 1, c) + seq![0x20u8] + rest); // [N6.proof.result_is_text_with_prefix_and_delimiters_blanked]
        assert(bc.subrange(p, p + 5) == b_md_prefix());
        lemma_n6_result(bc, out, p, o, c, verif_fill);
        assert(md_parts(comment@, p, o, c)); // [N6.proof.delimiters_are_as_specified]
    }
    Some(result)
//@edit rule=SLICE find=<<&source_code[node.byte_range()]>>
verif_comment_text
//@edit rule=ghost before=<<let prefix_idx>>
    proof { lemma_md_literals(); }
    let ghost bc = utf8(comment@);
//@edit rule=ghost before=<<let start_search>>
    proof {
        assert(bc.len() == comment.spec_bytes().len() <= isize::MAX); // a str is at most isize::MAX bytes long
        assert(first_occ(bc, prefix_idx as int, b_md_prefix())); // [N6.proof.prefix_idx_is_first_prefix]
        assert(bc.subrange(prefix_idx as int, prefix_idx + 5)[4] == 0x3au8);
        lemma_after_ascii_is_boundary(comment@, prefix_idx + 4);
    }
//@edit rule=ghost before=<<let open_idx>>
    let ghost t2 = decode_utf8(bc.subrange(start_search as int, bc.len() as int));
    proof {
        // any str whose bytes are bc[start_search..] has the text t2
        assert forall|v: Seq<char>| #[trigger] utf8(v) == bc.subrange(start_search as int, bc.len() as int) implies v == t2 by {
            encode_utf8_decode_utf8(v);
        }
    }
//@edit rule=ghost before=<<let open_char>>
    let ghost t3 = decode_utf8(bc.subrange(open_idx as int, bc.len() as int));
    proof {
        let bx = bc.subrange(start_search as int, bc.len() as int);
        let i = open_idx - start_search;
        assert(bx[i] == bc[open_idx as int]);
        assert(byte_boundary(bc, open_idx as int));
        assert(bx.subrange(i, bx.len() as int) =~= bc.subrange(open_idx as int, bc.len() as int));
        assert(t3.len() > 0 && md_delim()(t3[0]));
        lemma_md_delim(t3[0]);
        assert(find_pred_spec(t2, md_delim()) == Some(i as usize)); // [N6.proof.open_idx_is_first_delimiter_after_prefix]
        // any str whose bytes are bc[open_idx..] has the text t3
        assert forall|v: Seq<char>| #[trigger] utf8(v) == bc.subrange(open_idx as int, bc.len() as int) implies v == t3 by {
            encode_utf8_decode_utf8(v);
        }
    }
//@edit rule=ghost before=<<let close_idx>>
    proof {
        assert(open_char == t3[0]); // [N6.proof.open_char_is_the_delimiter_found]
        let v = choose|v: Seq<char>| #[trigger] utf8(v) == bc.subrange(open_idx as int, bc.len() as int);
        assert(v == t3);
        lemma_first_char_ascii(t3);
        assert(bc.subrange(open_idx as int, bc.len() as int)[0] == bc[open_idx as int]);
        assert(bc[open_idx as int] == open_char as u8);
        assert(close_char as u8 == md_close_byte(bc[open_idx as int])); // [N6.proof.close_char_matches_open_char]
        assert(bc[open_idx as int] == 0x28u8 || bc[open_idx as int] == 0x22u8 || bc[open_idx as int] == 0x27u8);
    }
//@edit rule=ghost before=<<let mut result>>
    proof {
        lemma_after_ascii_is_boundary(comment@, open_idx as int);
        lemma_after_ascii_is_boundary(comment@, close_idx as int);
    }
//@edit rule=ghost before=<<result.push_str(" ".repeat(>>
    let ghost verif_n = open_idx - (prefix_idx + 5) + 1;
    let ghost verif_r0 = utf8(result@);
    proof {
        assert(utf8(" "@).len() == 1);
        assert(utf8(" "@).len() * verif_n == verif_n) by (nonlinear_arith) requires utf8(" "@).len() == 1;
        assert(verif_r0 =~= bc.subrange(0, prefix_idx as int) + sp(5)); // [N6.proof.prefix_blanked_by_five_spaces]
    }
//@edit rule=ghost before=<<result.push_str(&comment[open_idx>>
    let ghost verif_fill = utf8(result@).subrange(prefix_idx + 5, utf8(result@).len() as int);
    proof {
        assert(utf8(result@).len() == verif_r0.len() + verif_n); // [N6.proof.filler_covers_prefix_rest_and_open_delimiter]
        assert(verif_fill.len() == verif_n);
        assert forall|k: int| 0 <= k < verif_fill.len() implies #[trigger] verif_fill[k] == 0x20u8 by {
            assert(k % 1 == 0);
        }
        assert(utf8(result@) =~= bc.subrange(0, prefix_idx as int) + sp(5) + verif_fill);
    }
//@closure rule=E12 find=<<|c|>> params=<<|c: char|>> ret=<<b: bool>>
            ensures b == md_delim()(c), // [N6.closure.is_opening_delimiter]
//@closure rule=E12 find=<<|i|>> params=<<|i: usize|>> ret=<<j: usize>>
            requires i + start_search <= usize::MAX,
            ensures j == i + start_search, // [N6.closure.offset_in_comment]
//@closure rule=E12 find=<<|close_idx|>> params=<<|close_idx: &usize|>> ret=<<b: bool>> optional=1
            ensures b == (*close_idx > open_idx), // [N6.closure.close_after_open]
//@chain rule=E13 find=<<.contains(>> to=verif_chars_contains count=all optional=1
//@chain rule=E13 find=<<.chars().next()>> to=verif_first_char count=all optional=1
//@chain rule=E13 find=<<.chars().nth(>> to=verif_chars_nth count=all optional=1
//@chain rule=E13 find=<<.find(>> to=verif_find_str argkind=str count=all optional=1
//@chain rule=E13 find=<<.rfind(>> to=verif_rfind_ascii_char argkind=other count=all optional=1
//@strslice rule=E13 from=verif_str_from to=verif_str_to range=verif_str_range
//@chain rule=E13 find=<<.find(>> to=verif_find_pred argkind=other count=all extra=<<Ghost(md_delim())>>
//@end

} // verus!
fn main() {}
