// Group `unidiffparse`: the hunk-body part of `unidiff::PatchedFile::parse_hunk` and `Hunk::append`,
// verified on the text of the LOCKED crate (`registry:unidiff-0.4.0/src/lib.rs`, the same scheme the
// X.* accessor units of prelude/diff_unidiff.rs use). Purpose: the data hypothesis `file_numbered`
// (precondition [Db.pre.lines_numbered] of D-b `line_changes`, the reason its `unwrap`s cannot panic,
// property C04) becomes a PROVED postcondition of the code that builds the hunks, instead of an
// assumption about the crate. Properties: C01 (D-b's hypothesis), C04 (safety).
// The regex engine is uninterpreted (prelude/regex.rs): the proof holds for every classification of
// a text line into a `line_type` string.
use vstd::prelude::*;
use std::ops::Range;

//@include prelude/regex.rs

verus! {

//@include prelude/diff_unidiff.rs
//@item file=src/diff_parser.rs kind=struct name=LineChange

pub open spec fn ranges_wf(r: Seq<Range<usize>>) -> bool {
    &&& forall|i: int| 0 <= i < r.len() ==> (#[trigger] r[i]).start < r[i].end
    &&& forall|i: int, j: int| 0 <= i < j < r.len() ==> (#[trigger] r[i]).end < (#[trigger] r[j]).start
}

pub open spec fn lc_wf(lc: LineChange) -> bool {
    lc.ranges matches Some(v) ==> ranges_wf(v@)
}

//@include prelude/diff_lines_spec.rs
//@include prelude/diff_parse_hunk.rs

//@item file=registry:unidiff-0.4.0/src/lib.rs kind=const name=LINE_TYPE_EMPTY
//@item file=registry:unidiff-0.4.0/src/lib.rs kind=enum name=Error

// ---- stand-ins -------------------------------------------------------------------------------
/// T-regex. `RE_HUNK_BODY_LINE.captures(line)` for the crate's
/// `static RE_HUNK_BODY_LINE: LazyLock<Regex> = .. Regex::new(r"^(?P<line_type>[- \n\+\\]?)(?P<value>.*)")`
/// (a `static` cannot be pasted into a single-file Verus program). Whether and how a line matches is
/// the regex engine's business and stays uninterpreted; the one fact assumed is that in a match of
/// THIS pattern both named groups participate (both are unconditional parts of the pattern: an
/// optional character class and `.*`), which is what the two `unwrap()`s of the crate rely on.
pub uninterp spec fn re_hunk_body_line() -> regex::Regex;

#[verifier::external_body]
pub fn verif_re_hunk_body_line_captures<'h>(line: &'h str) -> (r: Option<regex::Captures<'h>>)
    ensures
        r is Some <==> regex::re_is_match(re_hunk_body_line(), line@),
        r matches Some(c) ==> regex::cap_re(c) == re_hunk_body_line() && regex::cap_hay(c) == line@,
        r matches Some(c) ==> regex::re_group_named(regex::cap_re(c), regex::cap_hay(c), "line_type"@) is Some
            && regex::re_group_named(regex::cap_re(c), regex::cap_hay(c), "value"@) is Some,
{ unimplemented!() }

/// E17: `a == b` on `&str` (accepted by Verus but unspecified); body = the identical comparison
#[verifier::external_body]
pub fn verif_str_eq(a: &str, b: &str) -> (r: bool)
    ensures r == (a@ == b@),
{ a == b }

/// E13: `<str as ToOwned>::to_owned` - std doc: "Creates owned data from borrowed data, usually by
/// cloning": the same text as a `String`; body = the identical call
#[verifier::external_body]
pub fn verif_str_to_owned(s: &str) -> (r: String)
    ensures r@ == s@,
{ s.to_owned() }

/// E1: the text `format!("{}{}", line.line_type, line.value)` that `append` stores in the hunk's
/// `source` / `target` vectors is not specified (blockwatch never reads those vectors)
#[verifier::external_body]
pub fn verif_hunk_line_text() -> String { String::new() }

impl Hunk {
//@unit id=X.append file=registry:unidiff-0.4.0/src/lib.rs fn=<<impl Hunk::append>>
//@contract
        requires
            old(self).added < usize::MAX && old(self).removed < usize::MAX, // [X.append.pre.counters_fit]
        ensures
            final(self).spec_lines() == old(self).spec_lines().push(line), // [X.append.post.line_appended_unchanged]
            final(self).source_start == old(self).source_start && final(self).source_length == old(self).source_length // [X.append.post.header_unchanged]
                && final(self).target_start == old(self).target_start && final(self).target_length == old(self).target_length
                && final(self).section_header == old(self).section_header,
            final(self).added == old(self).added + (if kind(line) == Kind::Add { 1int } else { 0int }), // [X.append.post.added_counted]
            final(self).removed == old(self).removed + (if kind(line) == Kind::Rem { 1int } else { 0int }), // [X.append.post.removed_counted]
//@macro rule=E1 name=format to=<<verif_hunk_line_text()>>
//@edit rule=ghost at=body_start
        proof { lemma_line_types_distinct(); }
//@end
}

/// the text line at position i of the hunk body got the line type `t` (after unidiff's mapping of the
/// empty type and of "\n" to a context line): which `t` a text gets is the regex's business
pub open spec fn body_line_type(text: Seq<char>) -> Seq<char> {
    let t = regex::re_group_named(re_hunk_body_line(), text, "line_type"@).unwrap().text;
    if t == LINE_TYPE_EMPTY@ || t == ""@ { LINE_TYPE_CONTEXT@ } else { t }
}

//@unit id=X.parse_hunk file=registry:unidiff-0.4.0/src/lib.rs fn=<<impl PatchedFile::parse_hunk>> slice_from=<<let mut hunk = Hunk>> slice_through=<<for &(diff_line_no, line) in diff>>
//@wrapper
fn x_parse_hunk_body(source_start: usize, source_length: usize, target_start: usize, target_length: usize, section_header: &str, diff: &[(usize, &str)]) -> (r: std::result::Result<Hunk, Error>)
    requires
        // the numbers of the `@@` header are line numbers of files that exist: start + length fits
        source_start + source_length <= usize::MAX && target_start + target_length <= usize::MAX, // [X.parse_hunk.pre.header_ends_fit]
        // ... and so does start + the number of lines of the (in-memory) diff text behind the header
        source_start + diff@.len() <= usize::MAX && target_start + diff@.len() <= usize::MAX, // [X.parse_hunk.pre.cursors_fit]
        // `diff` is `input.lines().enumerate()`: the numbers are indices of lines of an in-memory text
        forall|i: int| 0 <= i < diff@.len() ==> (#[trigger] diff@[i]).0 < usize::MAX, // [X.parse_hunk.pre.diff_line_numbers_fit]
    ensures
        r matches Ok(h) ==> h.source_start == source_start && h.source_length == source_length // [X.parse_hunk.post.header_as_given]
            && h.target_start == target_start && h.target_length == target_length,
        // every line of the hunk carries exactly the numbers of its kind, taken from the running cursors
        r matches Ok(h) ==> hunk_parsed(h), // [X.parse_hunk.post.lines_numbered_by_cursors]
        // the lines are the first lines of the body, in order, each with the type the regex gave it
        r matches Ok(h) ==> h.spec_lines().len() <= diff@.len() // [X.parse_hunk.post.lines_are_a_prefix_of_the_body]
            && forall|k: int| 0 <= k < h.spec_lines().len() ==> (#[trigger] h.spec_lines()[k]).line_type@ == body_line_type(diff@[k].1@)
                && h.spec_lines()[k].diff_line_no == diff@[k].0 + 1,
        // reading stops at the first position at which both sides are complete - or at the end of the text
        r matches Ok(h) ==> h.spec_lines().len() == diff@.len() // [X.parse_hunk.post.stops_when_both_sides_complete]
            || (ucs(h, h.spec_lines().len() as int) >= source_start + source_length && uct(h, h.spec_lines().len() as int) >= target_start + target_length),
        r matches Ok(h) ==> forall|k: int| 0 < k < h.spec_lines().len() // [X.parse_hunk.post.does_not_stop_earlier]
            ==> !(ucs(h, k) >= source_start + source_length && #[trigger] uct(h, k) >= target_start + target_length),
//@tail
    Ok(hunk)
//@edit rule=E13 find=<<section_header.to_owned()>>
verif_str_to_owned(section_header)
//@edit rule=E13 find=<<line_type.to_owned()>>
verif_str_to_owned(line_type)
//@edit rule=E13 find=<<value.to_owned()>>
verif_str_to_owned(value)
//@edit rule=E13 find=<<line.to_owned()>>
verif_str_to_owned(line)
//@edit rule=E14 find=<<RE_HUNK_BODY_LINE.captures(line)>>
verif_re_hunk_body_line_captures(line)
//@edit rule=E17 find=<<line_type == LINE_TYPE_EMPTY || line_type == "">>
verif_str_eq(line_type, LINE_TYPE_EMPTY) || verif_str_eq(line_type, "")
//@edit rule=E17 find=<<match line_type { LINE_TYPE_ADDED => {>>
if verif_str_eq(line_type, LINE_TYPE_ADDED) {
//@edit rule=E17 find=<<LINE_TYPE_REMOVED => {>>
else if verif_str_eq(line_type, LINE_TYPE_REMOVED) {
//@edit rule=E17 find=<<LINE_TYPE_CONTEXT => {>>
else if verif_str_eq(line_type, LINE_TYPE_CONTEXT) {
//@edit rule=E17 find=<<_ => {} }>>
else {}
//@edit rule=E15 after=<<for &(diff_line_no, line) in diff {>>
let (diff_line_no, line) = *verif_item;
        let ghost hunk0 = hunk;
        let ghost k0 = hunk.spec_lines().len() as int;
//@edit rule=E15 find=<<for &(diff_line_no, line) in diff>>
proof { lemma_line_types_distinct(); }
    for verif_item in it: diff
        invariant_except_break
            // the loop goes on only while a side is incomplete
            hunk.spec_lines().len() > 0 ==> !(ucs(hunk, hunk.spec_lines().len() as int) >= source_start + source_length // [X.parse_hunk.inv.goes_on_while_incomplete]
                && uct(hunk, hunk.spec_lines().len() as int) >= target_start + target_length),
        invariant
            hunk.source_start == source_start && hunk.source_length == source_length // [X.parse_hunk.inv.header]
                && hunk.target_start == target_start && hunk.target_length == target_length,
            expected_source_end == source_start + source_length && expected_target_end == target_start + target_length,
            source_start + diff@.len() <= usize::MAX && target_start + diff@.len() <= usize::MAX,
            forall|i: int| 0 <= i < diff@.len() ==> (#[trigger] diff@[i]).0 < usize::MAX,
            hunk.spec_lines().len() == it.index@, // [X.parse_hunk.inv.one_line_per_body_line]
            hunk.added <= it.index@ && hunk.removed <= it.index@, // [X.parse_hunk.inv.counters_bounded]
            source_line_no as int == ucs(hunk, it.index@ as int), // [X.parse_hunk.inv.source_cursor]
            target_line_no as int == uct(hunk, it.index@ as int), // [X.parse_hunk.inv.target_cursor]
            source_line_no <= source_start + it.index@ && target_line_no <= target_start + it.index@,
            hunk_parsed(hunk), // [X.parse_hunk.inv.lines_numbered_by_cursors]
            forall|k: int| 0 <= k < hunk.spec_lines().len() ==> (#[trigger] hunk.spec_lines()[k]).line_type@ == body_line_type(diff@[k].1@) // [X.parse_hunk.inv.prefix_of_the_body]
                && hunk.spec_lines()[k].diff_line_no == diff@[k].0 + 1,
            forall|k: int| 0 < k < hunk.spec_lines().len() // [X.parse_hunk.inv.not_complete_before]
                ==> !(ucs(hunk, k) >= source_start + source_length && #[trigger] uct(hunk, k) >= target_start + target_length),
        ensures
            hunk.spec_lines().len() == diff@.len() // [X.parse_hunk.inv.stops_at_the_end_or_when_complete]
                || (ucs(hunk, hunk.spec_lines().len() as int) >= source_start + source_length && uct(hunk, hunk.spec_lines().len() as int) >= target_start + target_length),
//@edit rule=ghost after=<<hunk.append(original_line);>>
            proof {
                assert(hunk.spec_lines()[k0] == original_line); // [X.parse_hunk.step.line_appended_unchanged]
                lemma_cursors_push(hunk0, hunk, original_line, k0);
                assert(line_parsed(hunk, k0)); // [X.parse_hunk.step.line_numbered_by_cursors]
                lemma_parsed_push(hunk0, hunk, original_line);
                assert forall|k: int| 0 < k <= k0 implies !(ucs(hunk, k) >= source_start + source_length && #[trigger] uct(hunk, k) >= target_start + target_length) by {
                    lemma_cursors_push(hunk0, hunk, original_line, k);
                }
                assert forall|k: int| 0 <= k < hunk.spec_lines().len() implies (#[trigger] hunk.spec_lines()[k]).line_type@ == body_line_type(diff@[k].1@) // [X.parse_hunk.step.line_is_the_body_line]
                    && hunk.spec_lines()[k].diff_line_no == diff@[k].0 + 1 by {
                    if k < k0 { assert(hunk.spec_lines()[k] == hunk0.spec_lines()[k]); }
                }
            }
//@end

/// Connection to D-b: a file all of whose hunks were built by `x_parse_hunk_body` is `file_numbered`.
pub proof fn lemma_hunks_from_parse_hunk_are_numbered(f: PatchedFile)
    requires file_parsed(f),
    ensures file_numbered(f),
{
    lemma_parsed_file_numbered(f);
}

} // verus!
fn main() {}
